#!/bin/bash
# Confirms both changes of one sub-agent and runs them against the listed checks BEFORE any extension.
# usage: tools/seed_intake.sh <base> <Cxx> <suffixA> <suffixB> [extra checks ...]
B=$1; P=$2; SA=$3; SB=$4; shift 4
cd /verif
tools/confirm_seed.sh $B $P A $SA 2>&1 | grep -E "CONFIRMED|NOT|apply"
tools/confirm_seed.sh $B $P B $SB 2>&1 | grep -E "CONFIRMED|NOT|apply"
for s in $SA $SB; do
  [ -d seeded/$P-$s ] || continue
  for c in $P "$@"; do tools/seedrun.sh $P-$s $c 2>&1 | tail -1 | cut -c1-230 | tee -a out/round${ROUND:-5}_before.txt; done
done
