#!/usr/bin/env python3
"""Prepares a seeding round: one scratch git worktree of /repo HEAD per property under /tmp/seed<N>/Cxx, each with a
PROPERTY.txt (the property's text and one-line summaries of the seeded changes that already exist for it - nothing else
from /verif), and /tmp/seed<N>/PROMPT.tmpl (tools/seed_prompt.tmpl with the round's paths).
usage: tools/mkseedround.py <N>
"""
import glob, json, os, subprocess, sys

n = sys.argv[1]
base = '/tmp/seed' + n
os.makedirs(base, exist_ok=True)
props = [json.loads(l) for l in open('/verif/properties.jsonl')]
for p in props:
    pid = p['id']
    w = f'{base}/{pid}'
    if not os.path.isdir(w):
        subprocess.run(['git', '-C', '/repo', 'worktree', 'add', '--detach', '-f', w, 'HEAD'], check=True, stdout=subprocess.DEVNULL, stderr=subprocess.DEVNULL)
    out = [f"Property {pid}: {p['title']}", '', 'Statement: ' + p['statement'], '', 'Quantified over: ' + p['quantifier']['text'], '',
           'Why the existing tests cannot settle it: ' + p['why_tests_cant'], '', 'Code it is anchored in: ' + ', '.join(p['anchors']['files']), '',
           'Seeded changes that already exist for this property (yours must be DIFFERENT IN KIND from all of these - another mechanism AND another kind of triggering condition):']
    for d in sorted(glob.glob(f'/verif/seeded/{pid}-*')):
        try:
            m = json.load(open(d + '/meta.json'))
        except Exception:
            continue
        s = ' '.join(str(m.get('summary') or '').split())[:170]
        nd = ' '.join(str(m.get('needs_to_manifest') or '').split())[:130]
        out.append(f'- {s}  [needed: {nd}]')
    open(w + '/PROPERTY.txt', 'w').write('\n'.join(out) + '\n')
t = open('/verif/tools/seed_prompt.tmpl').read().replace('/tmp/seed/', base + '/')
t = t.replace('summarise A and B in 3-4 lines each.', 'summarise A and B in 3-4 lines each (keep the final message under 400 words, and keep every single message you write well under 2000 words).')
open(base + '/PROMPT.tmpl', 'w').write(t)
print('prepared', base, len(props), 'worktrees')
