#!/bin/bash
# Confirms a seeded change produced by a sub-agent, in its scratch worktree /tmp/seed/<Cxx>:
#  suite passes with patch, demo fails with patch, demo passes without patch.
# On success copies patch.diff, demo_test.go, meta.json to /verif/seeded/<Cxx>-<a|b>/ and appends what was run.
# usage: tools/confirm_seed.sh C01 A
set -u
export GOFLAGS=-mod=mod GOPROXY=off GOSUMDB=off GOTOOLCHAIN=local
P=$1; V=$2; v=$(echo $V | tr A-Z a-z)
W=/tmp/seed/$P; O=$W/OUT/$V
cd $W || exit 2
git checkout -q -- . ; 
demo_dir=$(python3 -c "import json;print(json.load(open('$O/meta.json')).get('demo_dir','demo_$v'))" 2>/dev/null || echo demo_$v)
[ -d "$W/$demo_dir" ] || demo_dir=demo_$v
race=""; [ "$P" = C20 ] && race="-race"
git apply --check $O/patch.diff || { echo "$P-$V: patch does not apply"; exit 1; }
# 1. demo passes without patch
go test $race -vet=off -count=1 ./$demo_dir/ > /tmp/seed/$P-$V.clean.log 2>&1; clean=$?
git apply $O/patch.diff
# 2. suite passes with patch
go test -vet=off -count=1 ./component/... ./tensor/... > /tmp/seed/$P-$V.suite.log 2>&1; suite=$?
npass=$(go test -vet=off -count=1 -v ./component/... ./tensor/... 2>/dev/null | grep -c '^--- PASS')
# 3. demo fails with patch
go test $race -vet=off -count=1 ./$demo_dir/ > /tmp/seed/$P-$V.patched.log 2>&1; patched=$?
git checkout -q -- . ; git status --short | grep -v '^??' 
echo "$P-$V: demo_clean_exit=$clean suite_with_patch_exit=$suite tests_passed=$npass demo_with_patch_exit=$patched"
if [ $clean -eq 0 ] && [ $suite -eq 0 ] && [ $patched -ne 0 ] && [ "$npass" = 137 ]; then
  D=/verif/seeded/$P-$v; mkdir -p $D
  cp $O/patch.diff $D/patch.diff; cp $W/$demo_dir/*_test.go $D/ 2>/dev/null || cp $O/demo_test.go $D/
  python3 - "$O/meta.json" "$D/meta.json" "$P" "$demo_dir" "$race" <<'PY'
import json,sys
src,dst,P,demo,race=sys.argv[1:6]
try: m=json.load(open(src))
except Exception: m={}
out={"property":P,"summary":m.get("summary"),"needs_to_manifest":m.get("needs_to_manifest"),"why_tests_pass":m.get("why_tests_pass"),
 "origin":"written by an independent sub-agent given only the property text and a scratch worktree",
 "confirmed_by_me":{"worktree":"scratch git worktree of /repo HEAD under /tmp/seed (removed afterwards)",
   "ran":[f"go test {race} -vet=off -count=1 ./{demo}/   on the clean worktree -> PASS",
          "git apply patch.diff; go test -vet=off -count=1 ./component/... ./tensor/...  -> ok, 137 tests PASS",
          f"go test {race} -vet=off -count=1 ./{demo}/   with the patch -> FAIL",
          "git checkout -- ."],
   "demo_placement":f"new directory {demo}/ at the repository root (external test package, public API only)"}}
json.dump(out,open(dst,"w"),indent=1)
PY
  echo "$P-$V: CONFIRMED -> $D"
else
  echo "$P-$V: NOT confirmed (see /tmp/seed/$P-$V.*.log)"
fi
