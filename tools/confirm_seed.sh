#!/bin/bash
# Confirms a seeded change produced by a sub-agent, in its scratch worktree <base>/<Cxx>:
#  demo passes on the clean worktree, the 137-test suite passes with the patch, the demo fails with the patch.
# On success copies patch.diff, the demonstration and meta.json to /verif/seeded/<Cxx>-<suffix>/ .
# usage: tools/confirm_seed.sh <base dir> <Cxx> <A|B> <suffix>      e.g.  tools/confirm_seed.sh /tmp/seed2 C01 A c
set -u
export GOFLAGS=-mod=mod GOPROXY=off GOSUMDB=off GOTOOLCHAIN=local
BASE=$1; P=$2; V=$3; SUF=$4; v=$(echo $V | tr A-Z a-z)
W=$BASE/$P; O=$W/OUT/$V
cd $W || exit 2
git checkout -q -- . 
demo_dir=$(python3 -c "import json;print(json.load(open('$O/meta.json')).get('demo_dir','demo_$v'))" 2>/dev/null || echo demo_$v)
[ -d "$W/$demo_dir" ] || demo_dir=demo_$v
race=""; [ "$P" = C20 ] && race="-race"
git apply --check $O/patch.diff || { echo "$P-$V: patch does not apply"; exit 1; }
clean=0; for i in 1 2 3; do go test $race -vet=off -count=1 ./$demo_dir/ > $BASE/$P-$V.clean.log 2>&1 || clean=1; done
git apply $O/patch.diff
go test -vet=off -count=1 ./component/... ./tensor/... > $BASE/$P-$V.suite.log 2>&1; suite=$?
npass=$(go test -vet=off -count=1 -v ./component/... ./tensor/... 2>/dev/null | grep -c '^--- PASS')
patched=0; for i in 1 2 3; do go test $race -vet=off -count=1 ./$demo_dir/ > $BASE/$P-$V.patched.log 2>&1 && patched=$((patched+1)); done   # counts passes: must be 0
git checkout -q -- . ; git status --short | grep -v '^??'
echo "$P-$V: demo_clean_failures=$clean suite_with_patch_exit=$suite tests_passed=$npass demo_with_patch_passes=$patched/3"
if [ $clean -eq 0 ] && [ $suite -eq 0 ] && [ $patched -eq 0 ] && [ "$npass" = 137 ]; then
  D=/verif/seeded/$P-$SUF; mkdir -p $D
  cp $O/patch.diff $D/patch.diff; cp $W/$demo_dir/*_test.go $D/
  python3 - "$O/meta.json" "$D/meta.json" "$P" "$demo_dir" "$race" <<'PY'
import json,sys
src,dst,P,demo,race=sys.argv[1:6]
try: m=json.load(open(src))
except Exception: m={}
out={"property":P,"summary":m.get("summary"),"needs_to_manifest":m.get("needs_to_manifest"),"why_tests_pass":m.get("why_tests_pass"),
 "origin":"written by an independent sub-agent given only the property text (plus one-line summaries of earlier seeded changes to avoid repeats) and a scratch worktree",
 "confirmed_by_me":{"worktree":"scratch git worktree of /repo HEAD under /tmp (removed afterwards)",
   "ran":[f"go test {race} -vet=off -count=1 ./{demo}/   on the clean worktree, 3 times -> PASS",
          "git apply patch.diff; go test -vet=off -count=1 ./component/... ./tensor/...  -> ok, 137 tests PASS",
          f"go test {race} -vet=off -count=1 ./{demo}/   with the patch, 3 times -> FAIL each time",
          "git checkout -- ."],
   "demo_placement":f"new directory {demo}/ at the repository root (external test package, public API only)"}}
json.dump(out,open(dst,"w"),indent=1)
PY
  echo "$P-$V: CONFIRMED -> $D"
else
  echo "$P-$V: NOT confirmed (see $BASE/$P-$V.*.log)"
fi
