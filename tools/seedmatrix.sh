#!/bin/bash
# Runs every seeded change against the quick check of the property it targets (and extra properties given as KEY=Cxx,Cyy).
# Output: one line per (change, check).  usage: tools/seedmatrix.sh [tier]
T=${1:-quick}
cd /verif
for d in seeded/*/ mutants/*/; do
  n=$(basename $d)
  case $n in
    C*) p=${n%%-*};;
    revert-fix1) p="C01 C13 C15 C11";; revert-fix2) p=C02;; revert-fix3) p=C02;; revert-fix4) p="C02 C13 C15";;
    revert-fix5) p=C10;; revert-fix6) p="C14 C09";; revert-fix7) p=C09;; revert-fix8) p=C09;; revert-fix9) p="C15 C02";;
    *) continue;;
  esac
  for q in $p; do tools/seedrun.sh $n $q $T 2>&1 | tail -1 | cut -c1-260; done
done
