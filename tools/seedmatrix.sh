#!/bin/bash
# Runs every seeded change against the quick check of the property it targets (and extra properties given as KEY=Cxx,Cyy).
# Output: one line per (change, check), sorted; JOBS changes run in parallel (scratch copies, see seedrun.sh).  usage: [JOBS=5] tools/seedmatrix.sh [tier]
T=${1:-quick}
cd /verif
for d in seeded/*/ mutants/*/; do
  n=$(basename $d)
  case $n in
    C01-d|C09-c) p="${n%%-*} C10";;   # argument-slice aliasing: the property that forbids it is C10
    C03-c) p="C03 C10 C06";; C06-d) p="C06 C10";; C06-c) p="C06 C05";; C10-c) p="C10 C06";; C07-d) p="C07 C01 C08";; C16-c|C14-c) p="${n%%-*} C05";;
    C13-c) p="C13 C01";; C11-c) p="C11 C13";; C17-c) p="C17 C03";; C15-d) p="C15 C02";; C12-c) p="C12 C05";; C16-d) p="C16 C18";; C08-d|C01-c) p="${n%%-*} C08";;
    C06-f|C04-f|C03-e) p="${n%%-*} C10";; C04-e) p="C04 C10 C09";; C05-f|C12-e) p="${n%%-*} C20";; C15-f|C02-f) p="${n%%-*} C08";; C13-e) p="C01";;
    C16-f|C11-e|C08-e) p="${n%%-*} C01";; C10-f) p="C10 C08";; C01-e) p="C01 C02 C15";;
    C18-g|C04-g|C06-g|C03-h|C02-h|C13-h|C09-g|C17-g) p="${n%%-*} C20";;   # round 4: breaks only under concurrent use; the owning check is C20
    C13-i|C15-j) p="${n%%-*} C09";;   # round 5: lost gradient only after a reset between forward and backward (outside C08's provisos); the same change makes BackPropagate panic -> C09
    C07-q|C07-r) p="C07 C01";;   # round 9: engine-level accumulation at expansion factor 1 - the total derivative is C01's
    C12-r) p="C12 C13";;         # round 9: changes the loss by less than the conditioning of log(1-p) at the clipping bound (it is closer to the defined value); the gradient at a clipped prediction is C13's
    C11-q) p="C11 C15";;         # round 9: tie weight of ElMax/ElMin when only some elements tie - the derivative at the kink is C15's
    C02-x) p="C02 C09";;   # round 12: a second back-propagation through one StdAlong application panics - outside C02's single application, inside "never a panic"
    C06-w) p="C06 C10";;   # round 12: Zeros / Ones keep the caller's dims slice - decoupling from caller-owned slices is C10's
    C11-x) p="C11 C02";;   # round 12: all-ones seed built as root.Eq(root) (0 for an infinite root value) - the derivative of an overflowing result is C02's
    C01-p) p="C01 C02";;   # round 8: the StdAlong rule at a spread below 1e-12 - single-operation values are C02's
    C*) p=${n%%-*};;
    revert-fix1) p="C01 C13 C15 C11";; revert-fix2) p=C02;; revert-fix3) p=C02;; revert-fix4) p="C02 C13 C15";;
    revert-fix5) p=C10;; revert-fix6) p="C14 C09";; revert-fix7) p=C09;; revert-fix8) p=C09;; revert-fix9) p="C15 C02";;
    *) continue;;
  esac
  if [ -n "$ONLY" ] && ! [[ $n =~ $ONLY ]]; then continue; fi   # ONLY=<regex over change names>: rerun a subset (mkmatrix.py merges it into seeded/RESULTS.raw)
  for q in $p; do echo "$n $q $T"; done
done | xargs -P ${JOBS:-5} -L 1 timeout 1500 tools/seedrun.sh 2>&1 | grep " vs C" | cut -c1-260 | sort
