#!/bin/bash
# Runs a check against the library with one seeded breaking change applied.
# Works on scratch copies only (so it can run next to sweeps and in parallel): a copy of /repo's working tree with the
# patch applied, and a copy of the checks whose go.mod points at it. Both are removed afterwards.
# usage: tools/seedrun.sh <seeded-dir-name> <Cxx> [quick|thorough]
#   VERIF_DIR=<dir>: take the checks from that copy of /verif instead (an earlier state: the "before extension" runs)
set -u
export GOFLAGS=-mod=mod GOPROXY=off GOSUMDB=off GOTOOLCHAIN=local
S=/verif/seeded/$1; [ -d "$S" ] || S=/verif/mutants/$1; P=$2; T=${3:-quick}
SRC=${VERIF_DIR:-/verif}
W=$(mktemp -d /tmp/seedrun.XXXXXX); R=$W/repo; V=$W/verif
trap 'rm -rf "$W"' EXIT
rsync -a --exclude .git /repo/ $R/
rsync -a --exclude .git --exclude out --exclude bin --exclude seeded --exclude mutants $SRC/ $V/
(cd $R && git apply $S/patch.diff) || { echo "$1: patch does not apply"; exit 2; }
sed -i "s|=> /repo|=> $R|" $V/go.mod
sed -i "s|cp -f /repo/go.sum|cp -f $R/go.sum|" $V/run.sh
mkdir -p /verif/out
L=/verif/out/seedrun-$1-$P.log
(cd $V && ./run.sh $P $T) > $L 2>&1; rc=$?
sed -i "s|$V|/verif|g" $L
echo "$1 vs $P $T: exit=$rc $(grep -c '^VIOLATION' $L) VIOLATION lines; $(grep -m1 -A1 '^VIOLATION' $L | tail -1 | cut -c1-220)"
exit $rc
