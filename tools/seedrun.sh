#!/bin/bash
# Runs a check against /repo with one seeded breaking change applied, then restores /repo.
# usage: tools/seedrun.sh <seeded-dir-name> <Cxx> [quick|thorough]
set -u
S=/verif/seeded/$1; [ -d "$S" ] || S=/verif/mutants/$1; P=$2; T=${3:-quick}
[ -z "$(git -C /repo status --porcelain --untracked-files=no)" ] || { echo "/repo is not clean"; exit 2; }
git -C /repo apply $S/patch.diff || exit 2
cd /verif && ./run.sh $P $T > out/seedrun-$1-$P.log 2>&1; rc=$?
git -C /repo checkout -- . ; git -C /repo clean -fdq -- tensor component   # files a patch ADDED are untracked: remove them too
echo "$1 vs $P $T: exit=$rc $(grep -c '^VIOLATION' out/seedrun-$1-$P.log) VIOLATION lines; $(grep -m1 -A1 '^VIOLATION' out/seedrun-$1-$P.log | tail -1 | cut -c1-220)"
exit $rc
