#!/bin/bash
# Runs every check of the given tier on the current tree, validates each evidence file against the schema.
# usage: tools/runall.sh [quick|thorough]   (honours VERIF_SEED)
T=${1:-quick}
cd "$(dirname "$0")/.."
V=$(pwd); mkdir -p out
for i in $(seq -w 1 20); do
  p=C$i
  s=$(date +%s.%N)
  ./run.sh $p $T > out/runall-$p.log 2>&1; rc=$?
  e=$(date +%s.%N)
  v=$(python3-vt -c "
import json,jsonschema,sys
try:
    jsonschema.validate(json.load(open('$V/evidence/$p.json')),json.load(open('/root/.vp/EVIDENCE.schema.json'))); print('evidence-ok')
except Exception as ex: print('EVIDENCE-INVALID', str(ex)[:100])" 2>&1 | grep -v conda)
  printf "%s %s exit=%d %5.1fs %s | %s\n" $p $T $rc $(echo "$e - $s" | bc) "$v" "$(tail -1 out/runall-$p.log | cut -c1-120)"
done
