#!/usr/bin/env python3
"""Generates /verif/MANIFEST.json. Properties listed in CLAIMED get a check entry;
the others are listed under not_applicable with the reason given in PENDING."""
import json, subprocess, sys

CLAIMED = sys.argv[1:] if len(sys.argv) > 1 else []

REF = "reference-model differential monitor"
P = {
 "C01": dict(tech="reference-model differential monitor (reverse-topological tape) over seeded random reconvergent DAG programs + hooked rule-application counter",
   text="Runtime monitoring: thousands of seeded random SSA programs with interior fan-out/reconvergence, every tensor tried as root, are executed on the real library; after each BackPropagate every tensor's Gradient() (value, shape, nil-ness) is compared with an independent reverse-topological tape, shared-leaf accumulation is checked over sequences of back-propagations, and the verif hook counts backward-rule applications per edge (bound: each edge at most 4 times, total <= 4E+4), with a hook-free allocation-count twin on deep ladders. Exploration level: the claim is 'held on the K programs observed', the right level for a property quantified over all DAGs.",
   note="Trusted: the reference tape (validated against central differences and closed forms in internal/ref tests), Tensor.At/Shape as observation channel, the verif hook call in deliverGrad (cross-checked by the allocation twin). Operand expansion is restricted to factor 1 here (C07's subject).", ref="2/C01"),
 "C02": dict(tech="reference-model differential monitor: analytic VJP vs observed gradient per operation, exhaustive small shapes, non-uniform upstream weighting, central-difference cross-oracle",
   text="Runtime monitoring: for each of the 33 differentiable operations, every valid shape of rank 0..5 (sizes 1..3; sampled at rank 4-5 in quick), every dim/exponent/index form and every tracked-operand subset, one application is back-propagated under a random non-uniform upstream weighting and each operand's gradient (shape, finiteness, value) is compared with the analytic VJP of the reference model; a sample is cross-checked against central differences of the real forward function. Exploration level.",
   note="Trusted: analytic VJPs (each validated against central differences of the reference forward in internal/ref tests), At/Shape channel. Values stay >= 1e-3 away from non-differentiable points except the boundary points the statement names.", ref="2/C02"),
 "C03": dict(tech="reference-model differential monitor with position-identifying operand values over all broadcast-compatible shape pairs",
   text="Runtime monitoring: every element-wise operation is executed through the public API on operands whose values identify their position, over all shapes of rank 0..6 (sizes 1..3) and ALL broadcast-compatible shape pairs of rank <= 4 (plus sampled rank 5-6), and every result element/shape is compared with an index-arithmetic reference; implicit vs explicit-first broadcasting is compared bit for bit; Equals is checked in both directions. Exploration level (exhaustive over the stated small-shape space in thorough).",
   note="Trusted: reference broadcasting (index arithmetic, unit-tested against NumPy-documented examples), At/Shape channel.", ref="2/C03"),
 "C04": dict(tech="reference-model differential monitor (exact integer data) + metamorphic identity monitors over all batch-broadcast shape pairs",
   text="Runtime monitoring: MatMul/Dot/Transpose over all (m,n,k) in {1,2,3}^3 x all broadcast-compatible batch-shape pairs (ranks 2..5 exhaustive, 6 sampled), with distinct small-integer data so comparison with the reference sum of products is exact, plus identity monitors A.I=A, I.A=A, (A.B)^T=B^T.A^T, Dot=SumAlong(Mul), Transpose involution. Exploration level.",
   note="Trusted: reference batched matmul (explicit offsets), At/Shape channel.", ref="2/C04"),
 "C05": dict(tech="reference-model differential monitor over all (shape, dim) pairs with unique data; large-tensor whole reductions",
   text="Runtime monitoring: the seven whole-tensor reducers and seven Along forms over every shape of rank 0..6 (sizes 1..3) x every dim, unique random / integer / large-magnitude data, plus tensors up to 8192 elements for the whole-tensor forms; each result element and shape compared with the reference fibre statistic (two-pass unbiased variance, 0 for n=1). Exploration level.",
   note="Trusted: reference statistics; tolerance 1e-12 x sum|x| for sums, exact for extrema.", ref="2/C05"),
 "C06": dict(tech="reference-model differential monitor (exact) + round-trip monitors over exhaustive index/shape arguments",
   text="Runtime monitoring: At over every multi-index; Slice/Patch over every index form (explicit/omitted/{0,0}) for rank <= 3 and sampled above; Concat every dim and 2-4 operands; Reshape to every ordered factorisation; Flatten/Squeeze/UnSqueeze every dim; Broadcast every target; constructors; all with unique data and exact comparison with index arithmetic, plus round trips Slice(Patch)=source, Slice(Concat)=piece, untouched elements unchanged. Exploration level.",
   note="Trusted: reference index arithmetic; TensorOf for building operands of rank <= 4.", ref="2/C06"),
 "C07": dict(tech="reference-model differential monitor (sum-over-copies VJP) with exact-signature classification of the recorded Broadcast-mean finding",
   text="Runtime monitoring: explicit Broadcast for every (source,target) pair and Add/Sub/Mul/Div/Dot/MatMul for every broadcast-compatible pair, either/both operands tracked, random non-uniform upstream weighting; gradient shape and value compared with the sum over copies. A failing case is classified as the recorded known finding only if shape is right, expansion factor k>1 and observed*k = expected element-wise (reference tape with BroadcastRule=Avg); anything else is a VIOLATION. Exploration level.",
   note="Trusted: reference VJP/unbroadcast; KNOWN_FINDINGS.txt is read-only at run time.", ref="2/C07"),
 "C08": dict(tech="shadow state-machine monitor over seeded random API histories (public-API nil-ness probes + hooked tracked/bpdirty readout)",
   text="Runtime monitoring: seeded random histories of creation, unary/binary/n-ary/comparison ops, BackPropagate(any) and ResetGradContext(any,bool) respecting the two provisos; after every step every live tensor's Gradient() nil-ness, hooked tracked/spent flags and forward values are compared with a shadow state machine written from the statement; destructive public-API probes at the end confirm trackedness without the hook; twin run untracked => bit-identical forward values. Exploration level.",
   note="Trusted: shadow model (from the statement); hook readout cross-checked by probes. The one corner the statement reads two ways (descendants of a comparison of a spent tensor) gets no verdict.", ref="2/C08"),
 "C09": dict(tech="hostile-argument monitor: recover() + precondition-predicate oracle over exhaustive small-integer argument tuples for every public entry point",
   text="Runtime monitoring: every public entry point of tensor and component packages is called with exhaustive small-integer / nil / ragged / mismatched arguments under recover(); a panic is a violation, and the reference precondition predicate decides error-vs-result and the result shape. Exploration level (exhaustive over [-2,6] for single-integer arguments against a 60-shape receiver pool).",
   note="Trusted: reference precondition predicates (from the documented rules). Each child logs the case index before the call so a fatal error still names its witness.", ref="2/C09"),
 "C10": dict(tech="snapshot/immutability registry monitor with argument scribbling over seeded API histories",
   text="Runtime monitoring: a registry snapshots every tensor ever returned (shape, element bits, gradient identity/snapshot, hooked flags) and re-reads all of them after every API call; every slice passed in or handed out is overwritten with garbage after the call, also between graph construction and BackPropagate; results must be bit-identical to a twin run without scribbling. Exploration level.",
   note="Trusted: the registry's allowed-change rule (only BackPropagate assigns gradients, only ResetGradContext changes tracking).", ref="2/C10"),
 "C11": dict(tech="per-step reference-model monitor of multi-step training histories (FC -> activation -> loss -> SGD), known-finding classification via Avg-rule tape",
   text="Runtime monitoring: seeded training histories (2-12 steps) of FC -> {none,Relu,LeakyRelu,Sigmoid,Tanh,Softmax} -> {MSE,BCE,CE} with persistent component objects; after each step the observed weights must equal w - lr*dLoss/dw predicted by the reference from the observed pre-step weights; loss value, shapes, nil gradient/tracked/not spent after reset, and an error from Update when the reset is omitted. Steps whose only deviation is the recorded Broadcast-mean finding are classified by exact signature. Exploration level.",
   note="Trusted: reference closed forms for FC/activations/losses; models with batch 1 and no Softmax have no expansion and are decided exactly.", ref="2/C11"),
 "C12": dict(tech=REF+" of loss values incl. clipping-edge value classes",
   text="Runtime monitoring: MSE/BCE/CE on batches 1..8 x classes 1..6 with values from hostile classes (0, 1, interior, <0, >1, within 1e-12 of the clipping bounds, |x| up to 1e6, soft targets), every tracked/untracked combination; result compared with the statement's formula, must be finite, scalar-shaped, >= 0 and bit-identical across tracking. Exploration level.",
   note="Trusted: float64 evaluation of the statement's formula with the same clipping constants; tolerance 1e-9 relative.", ref="2/C12"),
 "C13": dict(tech=REF+" of loss gradients (closed forms) incl. upstream programs and repeated use of one loss object",
   text="Runtime monitoring: prediction gradients of MSE/BCE/CE against the statement's closed forms at interior points and exact finite 0 where clipped; predictions as tracked leaves or outputs of random upstream tracked programs (chain rule via the reference tape); one loss object reused across consecutive Compute/BackPropagate rounds. Exploration level.",
   note="Trusted: closed forms of the statement; predictions exactly at the two clipping bounds are excluded as the statement excludes them.", ref="2/C13"),
 "C14": dict(tech=REF+" of activation values over exhaustive shapes x Softmax dims",
   text="Runtime monitoring: Relu/LeakyRelu/Sigmoid/Tanh/Softmax over all shapes of rank 0..5, every Softmax Dim, slopes incl. 0 and negative, values incl. 0, -0, +-700 mixed across fibres; compared with the defining function per element/fibre; Softmax >= 0 and fibre sums 1 +- 1e-12. Exploration level.",
   note="Trusted: reference scalar formulas.", ref="2/C14"),
 "C15": dict(tech=REF+" of activation gradients (closed forms, interval oracle at 0), leaf and interior inputs; Softmax known-finding classification",
   text="Runtime monitoring: gradient delivered to the activation input under random upstream weighting vs the statement's derivative; at exactly 0 Relu/LeakyRelu must lie in the closed interval; input as leaf or interior node of a random program; Softmax along size>1 classified against the recorded Broadcast-mean finding by exact signature, size 1 exact. Exploration level.",
   note="Trusted: closed forms of the statement.", ref="2/C15"),
 "C16": dict(tech=REF+" of FC forward/backward + pointer-liveness and row-independence monitors over replacement histories",
   text="Runtime monitoring: FC forward against y[b][o]=W[o]*sum_d x[b][d]+B[o] with non-uniform W,B; row independence (perturb one row); sequences of parameter replacements through Weights() pointers obtained before/after earlier Forwards; gradients of W,B,x against the closed forms (batch>1 classified against the recorded finding by exact signature, batch 1 exact); default initializer bounds. Exploration level.",
   note="Trusted: closed forms of the statement.", ref="2/C16"),
 "C17": dict(tech=REF+" of SGD.Update on gradients from random back-propagated graphs + identity/immutability monitor",
   text="Runtime monitoring: Update on tensors of all shapes rank 0..5 whose gradients come from random programs (incl. gradients summing to exactly 0), learning rates incl. default, 0, negative; new tensor = w - lr*g within 1 ulp-scale tolerance, different object, old object and gradient unchanged; invalid inputs => error and pointer target identical. Exploration level.",
   note="Trusted: elementwise formula.", ref="2/C17"),
 "C18": dict(tech="statistical conformance monitor (moments, Kolmogorov distance, lag/position correlation, freshness) with a-priori thresholds",
   text="Runtime monitoring: every initializer / random constructor is sampled (N >= 40000 per parameter set) under a seeded source; hard checks on shape, trackedness, support; statistical checks with thresholds fixed in advance for a whole-run false-alarm probability < 1e-6; freshness and independence across calls incl. alternating parameter sets and odd element counts. Exploration level: decides conformance of the observed sample, not convergence.",
   note="Trusted: gonum's global source seeded by the harness; thresholds at >= 6.5 standard errors.", ref="2/C18"),
 "C19": dict(tech="sequential reference-model (two counters) monitor over seeded Accumulate/Result histories with re-partitioning",
   text="Runtime monitoring: seeded histories of Accumulate with batches of size 1..50, labels from small sets / reals / NaN, interleaved invalid calls and Result at every step; Result must equal matched/total exactly, be invariant (bitwise) under 3-6 re-partitions of the same data, unchanged by rejected calls. Exploration level.",
   note="Trusted: the two-integer model.", ref="2/C19"),
 "C20": dict(tech="Go race detector over randomized concurrent workloads + sequential-determinism oracle, detector liveness canary",
   text="Runtime monitoring with the race detector: G in {2..32} goroutines x GOMAXPROCS sweeps run seeded programs over shared tensors (every forward op, layers, activations, losses, graph construction over shared tracked parameters, private graphs back-propagated, random constructors, large-tensor reductions) with Gosched/spin injection; verdict = zero DATA RACE reports (log-counted, deduplicated) and every result bit-identical to the sequential run; a deliberately racy canary must be reported or the run is inconclusive. Exploration level: race detection is per executed access pair.",
   note="Trusted: the Go race detector (happens-before); coverage matrix of overlapping op pairs is in the evidence.", ref="2/C20"),
}

checks = []
for pid in sorted(P):
    if pid not in CLAIMED:
        continue
    d = P[pid]
    checks.append({
        "property_id": pid,
        "quick_cmd": f"./run.sh {pid} quick",
        "thorough_cmd": f"./run.sh {pid} thorough",
        "evidence_file": f"/verif/evidence/{pid}.json",
        "replay_cmd_template": f"./run.sh {pid} --replay {{path}}",
        "engine": "race" if pid == "C20" else ("shadow" if pid in ("C08", "C10", "C19") else "refmon"),
        "level_claimed": {"category": "exploration", "text": d["text"], "design_ref": "DESIGN.md section " + d["ref"]},
        "level_note": d["note"],
        "technique": d["tech"],
    })

hook_commits = subprocess.run(["git", "-C", "/repo", "log", "--format=%H", "--grep=^verif hooks"], capture_output=True, text=True).stdout.split()

m = {
 "version": 1,
 "setup_cmd": "./run.sh setup",
 "hooks": {
   "guard": "verif",
   "enable": "go build -tags verif (done by ./run.sh for every check; harness module replaces github.com/sahandsafizadeh/qeep => /repo)",
   "baseline_off_cmd": "cd /repo && GOFLAGS=-mod=mod GOPROXY=off GOSUMDB=off GOTOOLCHAIN=local go test -vet=off -count=1 ./...",
   "source_commits": hook_commits,
   "add_only": True,
 },
 "engines": [
   {"name": "refmon", "path": "internal/ref + internal/rt + internal/props", "serves_properties": [p for p in sorted(P) if p not in ("C08","C10","C19","C20")], "kind_free_text": "runtime differential monitors: the real library is executed through its public API and every result is compared with an independent flat-array reference model / analytic VJP / reverse-topological tape"},
   {"name": "shadow", "path": "internal/props (c08, c10, c19)", "serves_properties": ["C08","C10","C19"], "kind_free_text": "shadow state machines and snapshot registries updated alongside the real objects and compared after every API call"},
   {"name": "race", "path": "internal/props/c20.go, bin/check-race", "serves_properties": ["C20"], "kind_free_text": "Go race detector (-race build of the driver) over randomized concurrent workloads + determinism oracle"},
 ],
 "checks": checks,
 "not_applicable": [{"property_id": p, "reason": "not claimed yet: its runtime monitor is still under construction in this build session (design in DESIGN.md section 2/%s); the technique applies" % p} for p in sorted(P) if p not in CLAIMED],
 "notes": "Workloads were extended after fourteen rounds of independently seeded breaking changes (about 540 kept changes; DESIGN.md section 7, seeded/RESULTS.md) and a mechanical mutation sweep of the library sources (tools/mutsweep.py): operand provenances, child processes that differ in GOMAXPROCS, CPU-time bounds for unbounded work, operands with a history (forward chains), sizes around every power of two up to 4097 and tensors up to 131072 elements, shapes that collide under ad-hoc cache keys, state left by rejected calls, component objects reused across shapes and calls, configs and argument slices overwritten after the call, endurance runs of 70000 calls; each check's evidence file states its rule and bounds in coverage.rule. All checks are runtime monitors over executions of the real code rebuilt from /repo's working tree (go build -tags verif). Exit 0 held / 1 VIOLATION / 2 inconclusive. Known findings: /verif/KNOWN_FINDINGS.txt. Seeded breaking changes used to validate the monitors: /verif/seeded/.",
}
json.dump(m, open("/verif/MANIFEST.json", "w"), indent=1)
print("claimed:", [c["property_id"] for c in checks])
