#!/usr/bin/env python3
"""Syntactic mutation sweep: a cheap complement to the hand-seeded changes.

For every small syntactic change of the library (operator swaps, constants, negated / forced conditions,
deleted simple statements) that still compiles and still passes the repository's own test suite, run the
quick checks against it (the owner checks of the file first) and record which check, if any, reports it.
Survivors are leads for strengthening a check (many are equivalent changes; they are reviewed by hand).

Works entirely on scratch copies (never touches /repo or /verif):
  /tmp/mut/r<k>  copy of /repo's working tree,   /tmp/mut/v<k>  copy of /verif with go.mod pointing at r<k>.

usage: tools/mutsweep.py [--workers N] [--sample K] [--seed S] [--files regex] [--out file]
"""
import argparse, os, random, re, subprocess, sys, json, shutil, threading, queue, time

ENV = dict(os.environ, GOFLAGS='-mod=mod', GOPROXY='off', GOSUMDB='off', GOTOOLCHAIN='local')
ALL = ['C%02d' % i for i in range(1, 21)]
OWN = [
    (r'gradtrack/gradients', ['C02', 'C08', 'C07', 'C01', 'C15', 'C13', 'C16', 'C11']),
    (r'gradtrack/', ['C08', 'C01', 'C02', 'C10', 'C11']),
    (r'cputensor/operators', ['C03', 'C04', 'C02']),
    (r'cputensor/reducers', ['C05', 'C02']),
    (r'cputensor/(accessors|shape_modifiers)', ['C06', 'C02', 'C10']),
    (r'cputensor/initializers', ['C06', 'C18', 'C10']),
    (r'cputensor/', ['C06', 'C03', 'C04', 'C05', 'C08', 'C10', 'C09', 'C02']),
    (r'validator/', ['C09', 'C06', 'C03', 'C04', 'C05']),
    (r'^tensor/', ['C09', 'C06', 'C18']),
    (r'initializers/', ['C18', 'C09', 'C16']),
    (r'activations/', ['C14', 'C15', 'C09']),
    (r'losses/', ['C12', 'C13', 'C09']),
    (r'metrics/', ['C19', 'C09']),
    (r'optimizers/', ['C17', 'C09', 'C11']),
    (r'layers/', ['C16', 'C09', 'C11']),
]

SWAPS = [(' + ', ' - '), (' - ', ' + '), (' * ', ' / '), (' / ', ' * '), (' < ', ' <= '), (' <= ', ' < '),
         (' > ', ' >= '), (' >= ', ' > '), (' == ', ' != '), (' != ', ' == '), (' && ', ' || '), (' || ', ' && '),
         ('++', '--'), (' += ', ' -= '), (' -= ', ' += '), (' *= ', ' /= '), (' < ', ' > '), (' > ', ' < '),
         ('true', 'false'), ('false', 'true'), (' % ', ' / ')]


def outside_strings(line):
    mask, inq, q = [], False, ''
    i = 0
    while i < len(line):
        ch = line[i]
        if inq:
            mask.append(False)
            if ch == '\\':
                mask.append(False); i += 2; continue
            if ch == q: inq = False
        else:
            if ch in '"`\'':
                inq, q = True, ch; mask.append(False)
            elif line.startswith('//', i):
                mask.extend([False] * (len(line) - i)); break
            else:
                mask.append(True)
        i += 1
    mask.extend([False] * (len(line) - len(mask)))
    return mask


def mutants_of(path, text):
    lines = text.split('\n')
    out = []
    in_block_comment = False
    for n, line in enumerate(lines):
        s = line.strip()
        if in_block_comment:
            if '*/' in s: in_block_comment = False
            continue
        if s.startswith('/*'):
            if '*/' not in s: in_block_comment = True
            continue
        if not s or s.startswith('//') or s.startswith('import') or s.startswith('package') or s.startswith('"'):
            continue
        mask = outside_strings(line)
        for a, b in SWAPS:
            start = 0
            while True:
                k = line.find(a, start)
                if k < 0: break
                start = k + 1
                if not all(mask[k:k + len(a)]): continue
                if a in ('true', 'false') and (re.match(r'\w', line[k - 1:k] or ' ') or re.match(r'\w', line[k + len(a):k + len(a) + 1] or ' ')):
                    continue
                out.append((n, '%s->%s@%d' % (a.strip(), b.strip(), k), line[:k] + b + line[k + len(a):]))
        for m in re.finditer(r'(?<![\w.])(\d+)(?![\w.])', line):
            if not mask[m.start()]: continue
            v = int(m.group(1))
            for nv in ({0: [1], 1: [0, 2], 2: [1, 3]}.get(v, [v + 1, v - 1])):
                out.append((n, 'int %d->%d@%d' % (v, nv, m.start()), line[:m.start()] + str(nv) + line[m.end():]))
        for m in re.finditer(r'(?<![\w])(\d+\.\d+|\d+e-?\d+)(?![\w])', line):
            if not mask[m.start()]: continue
            out.append((n, 'float %s*2@%d' % (m.group(1), m.start()), line[:m.start()] + '(2*' + m.group(1) + ')' + line[m.end():]))
        m = re.match(r'^(\s*)(\} else )?if (.*) \{$', line)
        if m and ';' not in m.group(3):
            pre = m.group(1) + (m.group(2) or '')
            out.append((n, 'if-false', pre + 'if false && (' + m.group(3) + ') {'))
            out.append((n, 'if-true', pre + 'if true || (' + m.group(3) + ') {'))
            out.append((n, 'if-not', pre + 'if !(' + m.group(3) + ') {'))
        if re.match(r'^\s+[\w.\[\]\*]+(, [\w.\[\]\*]+)* [-+*/]?= .*[^{(,]$', line) or re.match(r'^\s+[\w.]+\(.*\)$', line):
            out.append((n, 'delete-stmt', ''))
        if re.match(r'^\s+(break|continue)$', line):
            out.append((n, 'delete-' + s, ''))
        m = re.match(r'^(\s+)for (\w+) := (\w+); (.*); (.*) \{$', line)
        if m:
            out.append((n, 'for-skip-first', '%sfor %s := %s + 1; %s; %s {' % (m.group(1), m.group(2), m.group(3), m.group(4), m.group(5))))
    res = []
    for n, what, new in out:
        l2 = list(lines); l2[n] = new
        res.append(dict(file=path, line=n + 1, what=what, old=lines[n].strip(), new=new.strip(), text='\n'.join(l2)))
    return res


def order_for(path):
    for rx, first in OWN:
        if re.search(rx, path):
            rest = [c for c in ALL if c not in first and c != 'C20']
            return first + rest + (['C20'] if 'C20' not in first else [])
    return ALL


def run(cmd, cwd, timeout):
    p = subprocess.Popen(cmd, cwd=cwd, env=ENV, stdout=subprocess.PIPE, stderr=subprocess.STDOUT, text=True, start_new_session=True)
    try:
        o, _ = p.communicate(timeout=timeout)
        return p.returncode, o
    except subprocess.TimeoutExpired:
        try:
            os.killpg(p.pid, 9)
        except ProcessLookupError:
            pass
        o, _ = p.communicate()
        return 124, o or ''


def worker(k, q, results, lock, outf, maxchecks):
    r, v = '/tmp/mut/r%d' % k, '/tmp/mut/v%d' % k
    while True:
        try:
            m = q.get_nowait()
        except queue.Empty:
            return
        f = os.path.join(r, m['file'])
        orig = open(f).read()
        rec = dict(file=m['file'], line=m['line'], what=m['what'], old=m['old'], new=m['new'])
        try:
            open(f, 'w').write(m['text'])
            rc, o = run(['go', 'build', './...'], r, 120)
            if rc != 0:
                rec['status'] = 'no-compile'
            else:
                rc, o = run(['go', 'vet', './...'], r, 120) if False else (0, '')
                rc, o = run(['go', 'test', '-vet=off', '-timeout', '90s', './...'], r, 200)
                if rc != 0:
                    rec['status'] = 'killed-by-suite'
                else:
                    rec['status'] = 'survivor'
                    tried = []
                    for c in order_for(m['file'])[:maxchecks]:
                        rc, o = run(['./run.sh', c, 'quick'], v, 400)
                        tried.append('%s=%d' % (c, rc))
                        if rc == 1 and 'VIOLATION property=' in o:
                            rec['status'] = 'detected'; rec['by'] = c
                            w = [l for l in o.split('\n') if l.startswith('VIOLATION')]
                            rec['nviol'] = len(w)
                            break
                        if rc == 124:
                            rec['status'] = 'timeout'; rec['by'] = c; break
                        if rc == 3:
                            rec['status'] = 'verif-build-failed'; rec['by'] = c; rec['log'] = o[-400:]; break
                    rec['tried'] = ' '.join(tried)
        finally:
            open(f, 'w').write(orig)
        with lock:
            results.append(rec)
            outf.write(json.dumps(rec) + '\n'); outf.flush()
            if rec['status'] in ('survivor', 'timeout', 'verif-build-failed'):
                print('%-18s %s:%d %s | %s => %s' % (rec['status'], rec['file'], rec['line'], rec['what'], rec['old'][:70], rec['new'][:70]), flush=True)


def main():
    ap = argparse.ArgumentParser()
    ap.add_argument('--workers', type=int, default=4)
    ap.add_argument('--sample', type=int, default=0)
    ap.add_argument('--seed', type=int, default=1)
    ap.add_argument('--files', default='.')
    ap.add_argument('--out', default='/tmp/mut/results.jsonl')
    ap.add_argument('--maxchecks', type=int, default=20)
    ap.add_argument('--only', default='', help='results file of an earlier sweep: only its survivors are run again (against the current checks)')
    ap.add_argument('--skip', default='', help='results file of an earlier sweep: mutants listed there are not repeated')
    a = ap.parse_args()
    verif = os.path.abspath(os.path.join(os.path.dirname(__file__), '..'))
    os.makedirs('/tmp/mut', exist_ok=True)
    files = subprocess.run("git -C /repo ls-files | grep '\\.go$' | grep -v _test | grep -v verif_", shell=True, stdout=subprocess.PIPE, text=True).stdout.split()
    files = [f for f in files if re.search(a.files, f)]
    muts = []
    for f in files:
        muts += mutants_of(f, open('/repo/' + f).read())
    done = set()
    if a.skip and os.path.exists(a.skip):
        for l in open(a.skip):
            d = json.loads(l); done.add((d['file'], d['line'], d['what']))
    muts = [m for m in muts if (m['file'], m['line'], m['what']) not in done]
    if a.only:
        want = set()
        for l in open(a.only):
            d = json.loads(l)
            if d['status'] in ('survivor', 'timeout', 'verif-build-failed'):
                want.add((d['file'], d['line'], d['what']))
        muts = [m for m in muts if (m['file'], m['line'], m['what']) in want]
    random.Random(a.seed).shuffle(muts)
    if a.sample: muts = muts[:a.sample]
    print('%d mutants over %d files' % (len(muts), len(files)), flush=True)
    for k in range(a.workers):
        r, v = '/tmp/mut/r%d' % k, '/tmp/mut/v%d' % k
        subprocess.run(['rsync', '-a', '--delete', '--exclude', '.git', '/repo/', r + '/'], check=True)
        subprocess.run(['rsync', '-a', '--delete', '--exclude', '.git', '--exclude', 'out', '--exclude', 'bin', '--exclude', 'seeded', '--exclude', 'mutants', verif + '/', v + '/'], check=True)
        gm = open(v + '/go.mod').read().replace('=> /repo', '=> ' + r)
        open(v + '/go.mod', 'w').write(gm)
        rs = open(v + '/run.sh').read().replace('cp -f /repo/go.sum', 'cp -f %s/go.sum' % r)
        open(v + '/run.sh', 'w').write(rs)
    q = queue.Queue()
    for m in muts: q.put(m)
    results, lock = [], threading.Lock()
    outf = open(a.out, 'a')
    ts = [threading.Thread(target=worker, args=(k, q, results, lock, outf, a.maxchecks)) for k in range(a.workers)]
    t0 = time.time()
    for t in ts: t.start()
    for t in ts: t.join()
    cnt = {}
    for r in results: cnt[r['status']] = cnt.get(r['status'], 0) + 1
    print('done in %.0fs: %s' % (time.time() - t0, cnt))
    by = {}
    for r in results:
        if r['status'] == 'detected': by[r['by']] = by.get(r['by'], 0) + 1
    print('detected by:', dict(sorted(by.items())))


if __name__ == '__main__':
    main()
