// Command check is the single driver of all property checks; see internal/fw.
package main

import (
	"qeepverif/internal/fw"
	_ "qeepverif/internal/props"
)

func main() { fw.Main() }
