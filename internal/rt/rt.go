// Package rt drives the real library through its public API only and converts
// between real tensors and reference tensors.
package rt

import (
	"fmt"
	"math"
	"os"
	"sync/atomic"

	"github.com/sahandsafizadeh/qeep/component/layers"
	"github.com/sahandsafizadeh/qeep/component/layers/activations"
	"github.com/sahandsafizadeh/qeep/component/losses"
	"github.com/sahandsafizadeh/qeep/tensor"

	"qeepverif/internal/ref"
)

// SpareInts copies a dims / shape list into a slice that has SPARE CAPACITY (as `like.Shape()[:3]` or `append(batchDims, f)`
// have): an `append` on it inside the library writes into memory the caller still owns.
func SpareInts(v []int) []int {
	if v == nil {
		return nil
	}
	c := make([]int, len(v), len(v)+4)
	copy(c, v)
	for i := len(v); i < cap(c); i++ {
		c[:cap(c)][i] = 1000 + i // sentinels beyond the length
	}
	return c
}

// SpareIntact reports whether the elements and the sentinels beyond the length of a SpareInts slice are untouched.
func SpareIntact(c, v []int) bool {
	if len(c) != len(v) {
		return false
	}
	for i := range v {
		if c[i] != v[i] {
			return false
		}
	}
	for i := len(v); i < cap(c); i++ {
		if c[:cap(c)][i] != 1000+i {
			return false
		}
	}
	return true
}

func Conf(tracked bool) *tensor.Config { return &tensor.Config{Device: tensor.CPU, GradTrack: tracked} }

// Nested builds the nested-slice form of a reference tensor of rank <= 4.
func Nested(t *ref.T) any {
	d := t.Data
	s := t.Shape
	switch len(s) {
	case 0:
		return d[0]
	case 1:
		return append([]float64(nil), d...)
	case 2:
		o := make([][]float64, s[0])
		for i := range o {
			o[i] = append([]float64(nil), d[i*s[1]:(i+1)*s[1]]...)
		}
		return o
	case 3:
		o := make([][][]float64, s[0])
		for i := range o {
			o[i] = make([][]float64, s[1])
			for j := range o[i] {
				b := (i*s[1] + j) * s[2]
				o[i][j] = append([]float64(nil), d[b:b+s[2]]...)
			}
		}
		return o
	case 4:
		o := make([][][][]float64, s[0])
		for i := range o {
			o[i] = make([][][]float64, s[1])
			for j := range o[i] {
				o[i][j] = make([][]float64, s[2])
				for k := range o[i][j] {
					b := ((i*s[1]+j)*s[2] + k) * s[3]
					o[i][j][k] = append([]float64(nil), d[b:b+s[3]]...)
				}
			}
		}
		return o
	}
	panic("rt.Nested: rank > 4")
}

// Leaf creates a fresh leaf tensor holding t's values. Ranks <= 4 go through
// TensorOf on nested data (no other operation involved); higher ranks through
// TensorOf(flat) + Reshape + ResetGradContext.
//
// An UNTRACKED tensor of rank 1..4 is, for 10 in 16 value sets (chosen by a hash of the values, so a case replays
// identically), not built directly but obtained as a RESULT: Reshape of the flat data, Slice out of a padded tensor,
// Concat of two parts, or directly but with NElems / Shape / Sum asked for first. By C08 such a result is a plain
// untracked value, indistinguishable from a leaf; every check thereby also runs on operands that have a history.
// Further provenances: a Zeros / Full / Eye tensor completely overwritten by Patch a gradient tensor adopted as data after ResetGradContext(false) the result of a reducer over an inserted size-1 dimension (10 value sets in 16 are derived in all).
func Leaf(t *ref.T, tracked bool) (tensor.Tensor, error) {
	if !tracked && len(t.Shape) >= 1 && len(t.Shape) <= 4 && len(t.Data) <= 4096 && !plainLeaves {
		if x, err := derivedLeaf(t); x != nil || err != nil {
			return x, err
		}
	}
	return directLeaf(t, tracked)
}

var plainLeaves = os.Getenv("VERIF_PLAIN_LEAVES") != ""

// LeafProv builds an untracked tensor holding t's values with the provenance number sel (0..15, see derivedLeaf); where that
// provenance does not apply to t (rank 0, NaN data, ...) the tensor is built directly.
func LeafProv(t *ref.T, sel int) (tensor.Tensor, error) {
	if len(t.Shape) >= 1 && len(t.Shape) <= 4 && len(t.Data) <= 4096 {
		h := uint64(sel%16)<<20 | uint64(sel/16%2)<<44 | uint64(sel)<<40
		if x, err := derivedFrom(t, h); x != nil || err != nil {
			return x, err
		}
	}
	return directLeaf(t, false)
}

func derivedLeaf(t *ref.T) (tensor.Tensor, error) {
	h := uint64(1469598103934665603)
	for _, d := range t.Shape {
		h = (h ^ uint64(d)) * 1099511628211
	}
	for i, v := range t.Data {
		if i >= 8 {
			break
		}
		h = (h ^ math.Float64bits(v)) * 1099511628211
	}
	return derivedFrom(t, h)
}

func derivedFrom(t *ref.T, h uint64) (tensor.Tensor, error) {
	touch := func(x tensor.Tensor) {
		_ = x.NElems()
		sh := x.Shape()
		for i := range sh {
			sh[i] = -7
		}
		_ = x.Sum()
	}
	n0 := t.Shape[0]
	row := len(t.Data) / n0
	switch (h >> 20) % 16 {
	case 6: // Reshape of the flat data
		f, err := tensor.TensorOf(append([]float64(nil), t.Data...), Conf(false))
		if err != nil {
			return nil, err
		}
		touch(f)
		if len(t.Shape) == 1 {
			return f.Flatten(0)
		}
		return f.Reshape(ref.CopyInts(t.Shape))
	case 7: // Slice out of a tensor padded by one block before and after along dimension 0
		shape := ref.CopyInts(t.Shape)
		shape[0] = n0 + 2
		p := ref.Full(shape, -123.5)
		copy(p.Data[row:], t.Data)
		src, err := directLeaf(p, false)
		if err != nil {
			return nil, err
		}
		touch(src)
		return src.Slice([]tensor.Range{{From: 1, To: n0 + 1}})
	case 8: // Concat of two parts along dimension 0
		if n0 < 2 {
			return nil, nil
		}
		cut := 1 + int(h>>40)%(n0-1)
		sa, sb := ref.CopyInts(t.Shape), ref.CopyInts(t.Shape)
		sa[0], sb[0] = cut, n0-cut
		a, err := directLeaf(ref.New(sa, t.Data[:cut*row]), false)
		if err != nil {
			return nil, err
		}
		b, err := directLeaf(ref.New(sb, t.Data[cut*row:]), false)
		if err != nil {
			return nil, err
		}
		return tensor.Concat([]tensor.Tensor{a, b}, 0)
	case 10, 11, 12: // a constant tensor (Zeros / Full / Eye) completely overwritten by Patch with the wanted values
		var base tensor.Tensor
		var err error
		switch {
		case (h>>20)%16 == 12 && len(t.Shape) == 2 && t.Shape[0] == t.Shape[1]:
			base, err = tensor.Eye(t.Shape[0], Conf(false))
		case (h>>20)%16 == 11:
			base, err = tensor.Full(ref.CopyInts(t.Shape), t.Data[0], Conf(false))
		default:
			base, err = tensor.Zeros(ref.CopyInts(t.Shape), Conf(false))
		}
		if err != nil {
			return nil, err
		}
		src, err := directLeaf(t, false)
		if err != nil {
			return nil, err
		}
		if (h>>44)%2 == 0 {
			return base.Patch(nil, src)
		}
		idx := make([]tensor.Range, len(t.Shape))
		for i, d := range t.Shape {
			idx[i] = tensor.Range{From: 0, To: d}
		}
		return base.Patch(idx, src)
	case 14: // the result of a reducer over a size-1 dimension inserted before the last one (Max / Min of one element is that element)
		for _, v := range t.Data {
			if v != v {
				return nil, nil // NaN: what an order statistic makes of it is not this harness's business
			}
		}
		r := len(t.Shape)
		big := append(ref.CopyInts(t.Shape[:r-1]), 1, t.Shape[r-1])
		src, err := directLeaf(ref.New(big, t.Data), false)
		if err != nil {
			return nil, err
		}
		touch(src)
		if (h>>44)%2 == 0 {
			return src.MaxAlong(r - 1)
		}
		return src.MinAlong(r - 1)
	case 13: // a GRADIENT tensor adopted as data: d(ones * c)/d(ones) = c exactly; ResetGradContext(false) makes it a fresh untracked leaf
		ones, err := tensor.Ones(ref.CopyInts(t.Shape), Conf(true))
		if err != nil {
			return nil, err
		}
		c, err := directLeaf(t, false)
		if err != nil {
			return nil, err
		}
		y, err := ones.Mul(c)
		if err != nil {
			return nil, err
		}
		if err := tensor.BackPropagate(y); err != nil {
			return nil, err
		}
		g := ones.Gradient()
		if g == nil {
			return nil, fmt.Errorf("harness: no gradient to adopt")
		}
		g.ResetGradContext(false)
		return g, nil
	case 9: // built directly, statistics taken before first use
		x, err := directLeaf(t, false)
		if err == nil {
			touch(x)
		}
		return x, err
	case 15: // a MatMul product: t x I or I x t (exact for finite values; a negative zero would lose its sign in the sum)
		r := len(t.Shape)
		if r < 2 {
			return nil, nil
		}
		for _, v := range t.Data {
			if v != v || v-v != 0 || (v == 0 && math.Signbit(v)) {
				return nil, nil
			}
		}
		src, err := directLeaf(t, false)
		if err != nil {
			return nil, err
		}
		if (h>>44)%2 == 0 {
			id, err := tensor.Eye(t.Shape[r-1], Conf(false))
			if err != nil {
				return nil, err
			}
			return src.MatMul(id)
		}
		id, err := tensor.Eye(t.Shape[r-2], Conf(false))
		if err != nil {
			return nil, err
		}
		return id.MatMul(src)
	case 1: // the product with an all-ones comparison MASK taken over a back-propagated tensor (s >= s after s was spent): a comparison
		// result is a fresh untracked tensor whatever its operands went through, and 1 * v is v
		s, err := tensor.Full(ref.CopyInts(t.Shape), 0.5, Conf(true))
		if err != nil {
			return nil, err
		}
		if err := tensor.BackPropagate(s.Scale(2)); err != nil {
			return nil, err
		}
		var mask tensor.Tensor
		switch (h >> 44) % 3 {
		case 0:
			mask, err = s.Ge(s)
		case 1:
			mask, err = s.Eq(s)
		default:
			mask, err = s.Le(s)
		}
		if err != nil {
			return nil, err
		}
		src, err := directLeaf(t, false)
		if err != nil {
			return nil, err
		}
		return mask.Mul(src)
	case 2: // an untracked tensor on which BackPropagate was already called (it changes nothing: "from an untracked root it changes nothing")
		src, err := directLeaf(t, false)
		if err != nil {
			return nil, err
		}
		_ = tensor.BackPropagate(src)
		return src, nil
	case 3: // a constant with a HISTORY: it already was a direct operand (ElMax / Concat / Patch) of a graph that was back-propagated
		src, err := directLeaf(t, false)
		if err != nil {
			return nil, err
		}
		tmp, err := tensor.Zeros(ref.CopyInts(t.Shape), Conf(true))
		if err != nil {
			return src, nil
		}
		var y tensor.Tensor
		switch (h >> 44) % 3 {
		case 0:
			y, err = tmp.ElMax(src)
		case 1:
			y, err = tensor.Concat([]tensor.Tensor{src, tmp}, 0)
		default:
			y, err = tmp.Patch(nil, src)
			if err == nil {
				y, err = y.Add(tmp)
			}
		}
		if err == nil && y != nil {
			_ = tensor.BackPropagate(y)
		}
		return src, nil
	case 5: // the result of an element-wise operation that changes nothing: Scale(1)
		src, err := directLeaf(t, false)
		if err != nil {
			return nil, err
		}
		return src.Scale(1), nil
	case 4: // the Transpose of the transposed data
		r := len(t.Shape)
		if r < 2 {
			return nil, nil
		}
		m, n := t.Shape[r-2], t.Shape[r-1]
		ts := ref.CopyInts(t.Shape)
		ts[r-2], ts[r-1] = n, m
		td := make([]float64, len(t.Data))
		for b := 0; b < len(t.Data)/(m*n); b++ {
			for i := 0; i < m; i++ {
				for j := 0; j < n; j++ {
					td[b*m*n+j*m+i] = t.Data[b*m*n+i*n+j]
				}
			}
		}
		src, err := directLeaf(ref.New(ts, td), false)
		if err != nil {
			return nil, err
		}
		touch(src)
		return src.Transpose()
	}
	return nil, nil
}

// NoSharedConf is set by workloads that create tensors from several goroutines: the reused configuration object below is
// caller-owned mutable state and must then not be shared.
var NoSharedConf atomic.Bool

var (
	sharedConf  = &tensor.Config{Device: tensor.CPU}
	sharedCalls uint64
)

// confNow returns the configuration for a creation call made right now: two times in three ONE long-lived Config object whose
// fields the caller sets before each call (a program that keeps one Config and flips GradTrack between creations);
// release() overwrites it after the call, as a caller may.
func confNow(tracked bool) (*tensor.Config, func()) {
	if NoSharedConf.Load() {
		return Conf(tracked), func() {}
	}
	sharedCalls++
	if sharedCalls%3 == 0 {
		return Conf(tracked), func() {}
	}
	sharedConf.Device, sharedConf.GradTrack = tensor.CPU, tracked
	return sharedConf, func() { sharedConf.GradTrack = !tracked }
}

func directLeaf(t *ref.T, tracked bool) (x tensor.Tensor, err error) {
	if len(t.Shape) <= 4 {
		conf, release := confNow(tracked)
		defer release()
		switch len(t.Shape) {
		case 0:
			return tensor.TensorOf(Nested(t).(float64), conf)
		case 1:
			return tensor.TensorOf(Nested(t).([]float64), conf)
		case 2:
			return tensor.TensorOf(Nested(t).([][]float64), conf)
		case 3:
			return tensor.TensorOf(Nested(t).([][][]float64), conf)
		default:
			return tensor.TensorOf(Nested(t).([][][][]float64), conf)
		}
	}
	switch len(t.Shape) {
	case 0:
		return tensor.TensorOf(Nested(t).(float64), Conf(tracked))
	case 1:
		return tensor.TensorOf(Nested(t).([]float64), Conf(tracked))
	case 2:
		return tensor.TensorOf(Nested(t).([][]float64), Conf(tracked))
	case 3:
		return tensor.TensorOf(Nested(t).([][][]float64), Conf(tracked))
	case 4:
		return tensor.TensorOf(Nested(t).([][][][]float64), Conf(tracked))
	}
	f, err := tensor.TensorOf(append([]float64(nil), t.Data...), Conf(false))
	if err != nil {
		return nil, err
	}
	r, err := f.Reshape(ref.CopyInts(t.Shape))
	if err != nil {
		return nil, err
	}
	r.ResetGradContext(tracked)
	return r, nil
}

// Direct builds the tensor with one TensorOf call (no provenance): for workloads that need one allocation pattern per step.
func Direct(t *ref.T, tracked bool) (tensor.Tensor, error) { return directLeaf(t, tracked) }

func MustLeaf(t *ref.T, tracked bool) tensor.Tensor {
	x, err := Leaf(t, tracked)
	if err != nil {
		panic(fmt.Sprintf("harness: cannot build leaf of shape %v: %v", t.Shape, err))
	}
	return x
}

// Read copies a real tensor out through Shape and At (one At per element).
func Read(t tensor.Tensor) (o *ref.T, err error) {
	defer func() { // a tensor whose internal state is inconsistent makes Shape/At panic: report it as unreadable
		if r := recover(); r != nil {
			o, err = nil, fmt.Errorf("tensor is unreadable: Shape()/At() panicked: %v", r)
		}
	}()
	return read(t)
}

func read(t tensor.Tensor) (*ref.T, error) {
	shape := t.Shape()
	for _, d := range shape {
		if d <= 0 {
			return nil, fmt.Errorf("Shape() = %v has a non-positive size", shape)
		}
	}
	o := ref.Zeros(shape)
	idx := make([]int, len(shape))
	for off := range o.Data {
		v, err := t.At(idx...)
		if err != nil {
			return nil, fmt.Errorf("At(%v) on shape %v: %w", idx, shape, err)
		}
		o.Data[off] = v
		for i := len(shape) - 1; i >= 0; i-- {
			idx[i]++
			if idx[i] < shape[i] {
				break
			}
			idx[i] = 0
		}
	}
	return o, nil
}

func Ranges(index []ref.Range) []tensor.Range {
	if index == nil {
		return nil
	}
	o := make([]tensor.Range, len(index))
	for i, r := range index {
		o[i] = tensor.Range{From: r.From, To: r.To}
	}
	return o
}

// Exec performs one instruction on real operands: exactly one public API call
// (one component call for the composites).
//
// Every slice ARGUMENT handed to the library (shape, index list, operand list) is a private copy that is
// overwritten as soon as the call has returned: a caller's slice is the caller's to reuse from then on, so
// nothing the library does later (a later forward call, BackPropagate) may depend on it.
func Exec(in ref.Instr, xs []tensor.Tensor) (tensor.Tensor, error) {
	var scrib []func()
	defer func() {
		for _, f := range scrib {
			f()
		}
	}()
	return execS(in, xs, &scrib)
}

func execS(in ref.Instr, xs []tensor.Tensor, scrib *[]func()) (tensor.Tensor, error) {
	note := func(f func()) {
		if scrib != nil {
			*scrib = append(*scrib, f)
		}
	}
	ints := func(v []int) []int {
		c := SpareInts(v)
		note(func() {
			for i := range c {
				c[i] = 97 + i
			}
		})
		return c
	}
	ranges := func(v []ref.Range) []tensor.Range {
		c := Ranges(v)
		note(func() {
			for i := range c {
				c[i] = tensor.Range{From: 5 + i, To: 9 + i}
			}
		})
		return c
	}
	switch in.Op {
	case "slice":
		return xs[0].Slice(ranges(in.Index))
	case "patch":
		return xs[0].Patch(ranges(in.Index), xs[1])
	case "reshape":
		return xs[0].Reshape(ints(in.Shape))
	case "broadcast":
		return xs[0].Broadcast(ints(in.Shape))
	case "full":
		return tensor.Full(ints(in.Shape), in.F, Conf(in.Tracked))
	case "concat":
		c := append([]tensor.Tensor(nil), xs...)
		note(func() {
			for i, j := 0, len(c)-1; i < j; i, j = i+1, j-1 {
				c[i], c[j] = c[j], c[i]
			}
			if len(c) > 0 {
				c[0] = c[len(c)-1]
			}
		})
		return tensor.Concat(c, in.Dim)
	}
	switch in.Op {
	case "leaf":
		return Leaf(ref.New(in.Shape, in.Data), in.Tracked)
	case "full":
		return tensor.Full(ref.CopyInts(in.Shape), in.F, Conf(in.Tracked))
	case "eye":
		return tensor.Eye(in.Dim, Conf(in.Tracked))
	case "slice":
		return xs[0].Slice(Ranges(in.Index))
	case "patch":
		return xs[0].Patch(Ranges(in.Index), xs[1])
	case "transpose":
		return xs[0].Transpose()
	case "reshape":
		return xs[0].Reshape(ref.CopyInts(in.Shape))
	case "unsqueeze":
		return xs[0].UnSqueeze(in.Dim)
	case "squeeze":
		return xs[0].Squeeze(in.Dim)
	case "flatten":
		return xs[0].Flatten(in.Dim)
	case "broadcast":
		return xs[0].Broadcast(ref.CopyInts(in.Shape))
	case "sumalong":
		return xs[0].SumAlong(in.Dim)
	case "maxalong":
		return xs[0].MaxAlong(in.Dim)
	case "minalong":
		return xs[0].MinAlong(in.Dim)
	case "avgalong":
		return xs[0].AvgAlong(in.Dim)
	case "varalong":
		return xs[0].VarAlong(in.Dim)
	case "stdalong":
		return xs[0].StdAlong(in.Dim)
	case "meanalong":
		return xs[0].MeanAlong(in.Dim)
	case "scale":
		return xs[0].Scale(in.F), nil
	case "pow":
		return xs[0].Pow(in.F), nil
	case "exp":
		return xs[0].Exp(), nil
	case "log":
		return xs[0].Log(), nil
	case "sin":
		return xs[0].Sin(), nil
	case "cos":
		return xs[0].Cos(), nil
	case "tan":
		return xs[0].Tan(), nil
	case "sinh":
		return xs[0].Sinh(), nil
	case "cosh":
		return xs[0].Cosh(), nil
	case "tanh":
		return xs[0].Tanh(), nil
	case "eq":
		return xs[0].Eq(xs[1])
	case "ne":
		return xs[0].Ne(xs[1])
	case "gt":
		return xs[0].Gt(xs[1])
	case "ge":
		return xs[0].Ge(xs[1])
	case "lt":
		return xs[0].Lt(xs[1])
	case "le":
		return xs[0].Le(xs[1])
	case "elmax":
		return xs[0].ElMax(xs[1])
	case "elmin":
		return xs[0].ElMin(xs[1])
	case "add":
		return xs[0].Add(xs[1])
	case "sub":
		return xs[0].Sub(xs[1])
	case "mul":
		return xs[0].Mul(xs[1])
	case "div":
		return xs[0].Div(xs[1])
	case "dot":
		return xs[0].Dot(xs[1])
	case "matmul":
		return xs[0].MatMul(xs[1])
	case "concat":
		return tensor.Concat(append([]tensor.Tensor(nil), xs...), in.Dim)
	case "relu":
		return activations.NewRelu().Forward(xs[0])
	case "leakyrelu":
		return activations.NewLeakyRelu(&activations.LeakyReluConfig{M: in.F}).Forward(xs[0])
	case "sigmoid":
		return activations.NewSigmoid().Forward(xs[0])
	case "softmax":
		a, err := activations.NewSoftmax(&activations.SoftmaxConfig{Dim: in.Dim})
		if err != nil {
			return nil, err
		}
		return a.Forward(xs[0])
	case "fc":
		l := &layers.FC{Weight: xs[1], Bias: xs[2]}
		return l.Forward(xs[0])
	case "mse":
		return losses.NewMSE().Compute(xs[0], xs[1])
	case "bce":
		return losses.NewBCE().Compute(xs[0], xs[1])
	case "ce":
		return losses.NewCE().Compute(xs[0], xs[1])
	}
	return nil, fmt.Errorf("rt.Exec: unknown op %q", in.Op)
}

// Run executes a whole program on the real library.
func Run(p ref.Prog) ([]tensor.Tensor, error) {
	ts := make([]tensor.Tensor, len(p))
	for i, in := range p {
		xs := make([]tensor.Tensor, len(in.In))
		for k, j := range in.In {
			xs[k] = ts[j]
		}
		t, err := Exec(in, xs)
		if err != nil {
			return ts, fmt.Errorf("instr %d (%s): %w", i, in.Op, err)
		}
		if t == nil {
			return ts, fmt.Errorf("instr %d (%s): nil result without error", i, in.Op)
		}
		ts[i] = t
	}
	return ts, nil
}

// Compare reads real tensor r and compares it with reference e: shapes must
// match exactly; values within abs + rel*max(|r|,|e|) (+ scaleTol*scale[i] if scale != nil).
func Compare(r tensor.Tensor, e *ref.T, abs, rel float64, scale *ref.T, scaleTol float64) error {
	if r == nil {
		return fmt.Errorf("tensor is nil, expected shape %v", e.Shape)
	}
	got, err := Read(r)
	if err != nil {
		return err
	}
	return CompareRef(got, e, abs, rel, scale, scaleTol)
}

func CompareRef(got, e *ref.T, abs, rel float64, scale *ref.T, scaleTol float64) error {
	if !ref.SameShape(got.Shape, e.Shape) {
		return fmt.Errorf("shape %v, expected %v", got.Shape, e.Shape)
	}
	for i := range e.Data {
		a := abs
		if scale != nil {
			s := scale.Data[i]
			if s < 0 {
				s = -s
			}
			a += scaleTol * s
		}
		if !ref.Close(got.Data[i], e.Data[i], a, rel) {
			return fmt.Errorf("element %v: got %v, expected %v (shape %v)", ref.Unravel(i, e.Shape), got.Data[i], e.Data[i], e.Shape)
		}
	}
	return nil
}
