// Package fw is the small framework shared by all property checks: a parent
// process shards a deterministic case list over child processes, each child
// runs its cases under recover() with monitors counting what they observed,
// the parent merges the reports, writes the evidence file, prints
// VIOLATION / KNOWN-FINDING lines and sets the exit status.
//
// Exit status: 0 held on everything explored, 1 violation, 2 inconclusive
// (watchdog, or fewer non-trivial cases than the tier's floor).
package fw

import (
	"bufio"
	"encoding/json"
	"fmt"
	"hash/fnv"
	"math/rand"
	"os"
	"os/exec"
	"path/filepath"
	"runtime"
	"runtime/debug"
	"sort"
	"strconv"
	"strings"
	"sync"
	"syscall"
	"time"
)

// VerifDir is the directory the driver was started in (run.sh changes into its own
// directory first): /verif normally, a snapshot of it under `vp run`.
var VerifDir = func() string {
	d, err := os.Getwd()
	if err != nil {
		return "/verif"
	}
	return d
}()

type Finding struct {
	Index  int    `json:"index"`
	Key    string `json:"key,omitempty"`
	Msg    string `json:"msg"`
	Case   any    `json:"case,omitempty"`
	Replay string `json:"replay,omitempty"` // set when the witness is a file of its own (e.g. a race log)
}

// Report is what one child observed.
type Report struct {
	Evaluations  int64                      `json:"evaluations"`
	Keys         map[string]bool            `json:"keys"`
	Samples      []any                      `json:"samples"`
	Counters     map[string]int64           `json:"counters"`
	Maxes        map[string]int64           `json:"maxes"`
	Sets         map[string]map[string]bool `json:"sets"`
	Violations   []Finding                  `json:"violations"`
	Known        []Finding                  `json:"known"`
	Inconclusive []string                   `json:"inconclusive"`
	Done         bool                       `json:"done"`
}

func newReport() *Report {
	return &Report{Keys: map[string]bool{}, Counters: map[string]int64{}, Maxes: map[string]int64{}, Sets: map[string]map[string]bool{}}
}

// Prop describes one property check.
type Prop struct {
	ID          string
	Rule        string   // how cases are generated and what makes one non-trivial / distinct
	Assumptions []string // what the check assumes or trusts
	FloorQuick  int      // minimum distinct non-trivial cases, below which the run is inconclusive
	FloorThor   int
	Exhaustive  func(tier string) bool
	Race        bool // needs the -race binary
	Serial      bool // run in one child (the check manages its own parallelism)
	Run         func(c *Ctx)
	// Finish lets a check derive extra coverage fields / verdicts from the merged report (runs in the parent).
	Finish func(c *Ctx, merged *Report, coverage map[string]any)
}

var registry = map[string]*Prop{}

func Register(p *Prop) { registry[p.ID] = p }

// ruleAdditions: workload families added after a property's Rule text was written (kept apart so that the texts stay append-only).
var ruleAdditions = map[string]string{}

// ExtendRule appends a description of later workload families to the rule text reported in the evidence of property id.
func ExtendRule(id, more string) { ruleAdditions[id] += " " + more }

// Ctx is handed to Prop.Run in a child.
type Ctx struct {
	Prop    *Prop
	Tier    string
	Seed    int64
	Shard   int
	NShards int
	Only    int // >= 0: replay exactly this case index

	mu       sync.Mutex
	idx      int
	rep      *Report
	progress *os.File
	known    map[string]string // key -> text, for this property
}

func (c *Ctx) Quick() bool { return c.Tier == "quick" }

// Pick returns q in the quick tier and t in the thorough tier.
func (c *Ctx) Pick(q, t int) int {
	if c.Quick() {
		return q
	}
	return t
}

// K is the handle of one case.
type K struct {
	c          *Ctx
	Index      int
	Rng        *rand.Rand
	Case       any // set by the body as soon as the case is known: it is what a violation / sample reports
	failed     bool
	wantSample bool
}

func caseSeed(seed int64, prop string, idx int) int64 {
	h := fnv.New64a()
	fmt.Fprintf(h, "%d/%s/%d", seed, prop, idx)
	return int64(h.Sum64() & 0x7fffffffffffffff)
}

// Case runs body as the next case of the deterministic case list if this
// shard owns it. The case's random choices come from k.Rng, which depends only
// on (seed, property, case index), never on sharding or time.
func (c *Ctx) Case(body func(k *K)) {
	idx := c.idx
	c.idx++
	if c.Only >= 0 {
		if idx != c.Only {
			return
		}
	} else if idx%c.NShards != c.Shard {
		return
	}
	k := &K{c: c, Index: idx, Rng: rand.New(rand.NewSource(caseSeed(c.Seed, c.Prop.ID, idx)))}
	if c.progress != nil {
		fmt.Fprintf(c.progress, "%d\n", idx)
	}
	c.rep.Evaluations++
	func() {
		defer func() {
			if r := recover(); r != nil {
				k.Failf("panic escaped to the harness: %v\n%s", r, debug.Stack())
			}
		}()
		body(k)
	}()
	// a case description completed only at the end of the body (deferred) is attached to the findings recorded before
	if k.Case != nil {
		for i := range c.rep.Violations {
			if c.rep.Violations[i].Index == k.Index && c.rep.Violations[i].Case == nil {
				c.rep.Violations[i].Case = jsonSafe(k.Case)
			}
		}
		for i := range c.rep.Known {
			if c.rep.Known[i].Index == k.Index && c.rep.Known[i].Case == nil {
				c.rep.Known[i].Case = jsonSafe(k.Case)
			}
		}
	}
	// samples are taken after the body so that the case description is complete; every shard writes out at least one case
	if (k.wantSample || len(c.rep.Samples) == 0) && len(c.rep.Samples) < 2 && k.Case != nil {
		c.rep.Samples = append(c.rep.Samples, map[string]any{"index": k.Index, "case": jsonSafe(k.Case)})
	}
}

// Skip advances the case index by n without running anything (cheap way to keep indices aligned).
func (c *Ctx) NextIndex() int { return c.idx }

// Key marks the case as non-trivial under the property's rule, with its canonical class key.
func (k *K) Key(format string, a ...any) {
	k.c.rep.Keys[fmt.Sprintf(format, a...)] = true
}

func (k *K) Count(name string, n int64) { k.c.rep.Counters[name] += n }

func (k *K) Max(name string, v int64) {
	if v > k.c.rep.Maxes[name] {
		k.c.rep.Maxes[name] = v
	}
}

// Add records an element of a named distinct set (error messages seen, transitions, ...).
func (k *K) Add(set string, format string, a ...any) {
	m := k.c.rep.Sets[set]
	if m == nil {
		m = map[string]bool{}
		k.c.rep.Sets[set] = m
	}
	m[fmt.Sprintf(format, a...)] = true
}

// Sample keeps the case as one of the written-out samples (a few per shard).
func (k *K) Sample() { k.wantSample = true }

func (k *K) Failed() bool { return k.failed }

// CPUGuard runs f while a monitor watches the CPU time consumed by this process (getrusage, user + system: a measure of the work
// done, not of elapsed time - a loaded machine does not inflate it). If f uses more than bound, the work is declared unbounded: the
// witness is printed and the process exits; the parent reports the case as violated with that output (a computation that does not
// return cannot be abandoned from inside the process). bound is chosen 1000 x and more above what the computation needs.
func (k *K) CPUGuard(bound time.Duration, what string, f func()) {
	cpu := func() time.Duration {
		var ru syscall.Rusage
		if syscall.Getrusage(syscall.RUSAGE_SELF, &ru) != nil {
			return 0
		}
		return time.Duration(ru.Utime.Nano() + ru.Stime.Nano())
	}
	start := cpu()
	done := make(chan struct{})
	go func() {
		t := time.NewTicker(100 * time.Millisecond)
		defer t.Stop()
		for {
			select {
			case <-done:
				return
			case <-t.C:
				if used := cpu() - start; used > bound {
					fmt.Fprintf(os.Stderr, "UNBOUNDED WORK: %s has consumed %.1f s of CPU time without returning (bound %.0f s; the same call needs milliseconds when the work is polynomial in the size of its input)\n", what, used.Seconds(), bound.Seconds())
					os.Exit(4)
				}
			}
		}
	}()
	defer close(done)
	f()
}

// Failf records a violation of the property on this case.
func (k *K) Failf(format string, a ...any) {
	k.failed = true
	if len(k.c.rep.Violations) < 50 {
		k.c.rep.Violations = append(k.c.rep.Violations, Finding{Index: k.Index, Msg: fmt.Sprintf(format, a...), Case: jsonSafe(k.Case)})
	} else {
		k.c.rep.Counters["violations_not_listed"]++
	}
}

// Knownf records that the case fails exactly in the way described by the
// known finding `key`. If KNOWN_FINDINGS.txt does not list that key for this
// property the failure is an ordinary violation.
func (k *K) Knownf(key string, format string, a ...any) {
	if _, ok := k.c.known[key]; !ok {
		k.Failf("[signature %s, not listed in KNOWN_FINDINGS.txt] "+format, append([]any{key}, a...)...)
		return
	}
	k.c.rep.Counters["known:"+key]++
	have := 0
	for _, f := range k.c.rep.Known {
		if f.Key == key {
			have++
		}
	}
	if have < 2 {
		k.c.rep.Known = append(k.c.rep.Known, Finding{Index: k.Index, Key: key, Msg: fmt.Sprintf(format, a...), Case: jsonSafe(k.Case)})
	}
}

// OutDir is where the children of this property write their logs.
func (c *Ctx) OutDir() string { return outDir(c.Prop.ID) }

// AddViolation lets Finish (parent side) report a violation found in the children's output.
func (c *Ctx) AddViolation(f Finding) { c.rep.Violations = append(c.rep.Violations, f) }

func (c *Ctx) Inconclusive(format string, a ...any) {
	c.rep.Inconclusive = append(c.rep.Inconclusive, fmt.Sprintf(format, a...))
}

// ---------- known findings file ----------

// LoadKnown parses /verif/KNOWN_FINDINGS.txt: lines
//
//	known: property=<id> key=<key> <what fails>
//	fixed: property=<id> <commit> <what failed>        (suppresses nothing)
func LoadKnown(prop string) map[string]string {
	out := map[string]string{}
	f, err := os.Open(filepath.Join(VerifDir, "KNOWN_FINDINGS.txt"))
	if err != nil {
		return out
	}
	defer f.Close()
	sc := bufio.NewScanner(f)
	for sc.Scan() {
		line := strings.TrimSpace(sc.Text())
		if !strings.HasPrefix(line, "known:") {
			continue
		}
		fields := strings.Fields(strings.TrimPrefix(line, "known:"))
		if len(fields) < 2 || fields[0] != "property="+prop || !strings.HasPrefix(fields[1], "key=") {
			continue
		}
		out[strings.TrimPrefix(fields[1], "key=")] = strings.Join(fields[2:], " ")
	}
	return out
}

// ---------- child ----------

func outDir(prop string) string { return filepath.Join(VerifDir, "out", prop) }

func runChild(p *Prop, tier string, seed int64, shard, n, only int, reportPath string) {
	c := &Ctx{Prop: p, Tier: tier, Seed: seed, Shard: shard, NShards: n, Only: only, rep: newReport(), known: LoadKnown(p.ID)}
	if reportPath != "" {
		pf, err := os.Create(strings.TrimSuffix(reportPath, ".json") + ".progress")
		if err == nil {
			c.progress = pf
			defer pf.Close()
		}
	}
	// the processes of one run differ in the number of processors the Go scheduler may use (an environment a library can depend on:
	// "parallelised" kernels size their worker pools by it); workloads that manage it themselves (C20) set it per case anyway
	if os.Getenv("VERIF_KEEP_PROCS") == "" && n > 1 && p.ID != "C20" {
		procs := []int{1, 2, 3, 4, 5, 7, 0, 0}[shard%8] // 0: leave the default (all processors)
		if procs > 0 {
			runtime.GOMAXPROCS(procs)
		}
		c.rep.Counters[fmt.Sprintf("child_processes_run_with_GOMAXPROCS_%d", runtime.GOMAXPROCS(0))]++
	}
	p.Run(c)
	c.rep.Done = true
	if reportPath != "" {
		b, err := json.Marshal(c.rep)
		if err != nil {
			fmt.Fprintln(os.Stderr, "cannot marshal report:", err)
			os.Exit(3)
		}
		if err := os.WriteFile(reportPath, b, 0o644); err != nil {
			fmt.Fprintln(os.Stderr, "cannot write report:", err)
			os.Exit(3)
		}
	}
}

// ---------- parent ----------

func merge(dst, src *Report) {
	dst.Evaluations += src.Evaluations
	for k := range src.Keys {
		dst.Keys[k] = true
	}
	dst.Samples = append(dst.Samples, src.Samples...)
	for k, v := range src.Counters {
		dst.Counters[k] += v
	}
	for k, v := range src.Maxes {
		if v > dst.Maxes[k] {
			dst.Maxes[k] = v
		}
	}
	for name, m := range src.Sets {
		if dst.Sets[name] == nil {
			dst.Sets[name] = map[string]bool{}
		}
		for e := range m {
			dst.Sets[name][e] = true
		}
	}
	dst.Violations = append(dst.Violations, src.Violations...)
	dst.Known = append(dst.Known, src.Known...)
	dst.Inconclusive = append(dst.Inconclusive, src.Inconclusive...)
}

func envInt(name string, def int64) int64 {
	if v := os.Getenv(name); v != "" {
		if n, err := strconv.ParseInt(v, 10, 64); err == nil {
			return n
		}
	}
	return def
}

type replayFile struct {
	Property string `json:"property"`
	Tier     string `json:"tier"`
	Seed     int64  `json:"seed"`
	Index    int    `json:"index"`
	Msg      string `json:"msg"`
	Case     any    `json:"case,omitempty"`
	How      string `json:"how_to_replay"`
}

func writeReplay(p *Prop, tier string, seed int64, f Finding) string {
	dir := filepath.Join(VerifDir, "out", "replay")
	os.MkdirAll(dir, 0o755)
	path := filepath.Join(dir, fmt.Sprintf("%s-%s-seed%d-case%d.json", p.ID, tier, seed, f.Index))
	b, _ := json.MarshalIndent(replayFile{Property: p.ID, Tier: tier, Seed: seed, Index: f.Index, Msg: f.Msg, Case: f.Case,
		How: fmt.Sprintf("cd /verif && ./run.sh %s --replay %s", p.ID, path)}, "", " ")
	os.WriteFile(path, b, 0o644)
	return path
}

func sortedKeys(m map[string]bool, limit int) []string {
	out := make([]string, 0, len(m))
	for k := range m {
		out = append(out, k)
	}
	sort.Strings(out)
	if limit > 0 && len(out) > limit {
		out = out[:limit]
	}
	return out
}

// Main is the entry point of cmd/check.
//
//	check <Cxx> <quick|thorough>
//	check <Cxx> --replay <file>
//	check child <Cxx> <tier> <seed> <shard> <n> <only> <report.json>
func Main() {
	args := os.Args[1:]
	if len(args) >= 8 && args[0] == "child" {
		p := registry[args[1]]
		seed, _ := strconv.ParseInt(args[3], 10, 64)
		shard, _ := strconv.Atoi(args[4])
		n, _ := strconv.Atoi(args[5])
		only, _ := strconv.Atoi(args[6])
		runChild(p, args[2], seed, shard, n, only, args[7])
		return
	}
	if len(args) < 2 {
		fmt.Fprintln(os.Stderr, "usage: check <Cxx> <quick|thorough> | check <Cxx> --replay <file>")
		os.Exit(3)
	}
	p := registry[args[0]]
	if p == nil {
		fmt.Fprintf(os.Stderr, "unknown property %q\n", args[0])
		os.Exit(3)
	}
	tier := args[1]
	seed := envInt("VERIF_SEED", 1)
	only := -1
	if args[1] == "--replay" {
		if len(args) < 3 {
			fmt.Fprintln(os.Stderr, "--replay needs a file")
			os.Exit(3)
		}
		b, err := os.ReadFile(args[2])
		var rf replayFile
		if err == nil {
			err = json.Unmarshal(b, &rf)
		}
		if err != nil {
			fmt.Fprintln(os.Stderr, "cannot read replay file:", err)
			os.Exit(3)
		}
		tier, seed, only = rf.Tier, rf.Seed, rf.Index
	} else if tier != "quick" && tier != "thorough" {
		// the tier named on the command line wins; VERIF_TIER is only a fallback
		if t := os.Getenv("VERIF_TIER"); t == "quick" || t == "thorough" {
			tier = t
		}
	}
	if tier != "quick" && tier != "thorough" {
		fmt.Fprintf(os.Stderr, "bad tier %q\n", tier)
		os.Exit(3)
	}
	os.Exit(runParent(p, tier, seed, only))
}

func runParent(p *Prop, tier string, seed int64, only int) int {
	start := time.Now()
	dir := outDir(p.ID)
	os.RemoveAll(dir)
	os.MkdirAll(dir, 0o755)

	n := runtime.NumCPU()
	if n > 16 {
		n = 16
	}
	if v := envInt("VERIF_SHARDS", 0); v > 0 {
		n = int(v)
	}
	if p.Serial || only >= 0 {
		n = 1
	}
	watchdog := time.Duration(envInt("VERIF_WATCHDOG_S", map[string]int64{"quick": 1500, "thorough": 4 * 3600}[tier])) * time.Second

	type res struct {
		shard int
		err   error
		timed bool
	}
	results := make(chan res, n)
	for i := 0; i < n; i++ {
		go func(i int) {
			rp := filepath.Join(dir, fmt.Sprintf("shard%02d.json", i))
			cmd := exec.Command(os.Args[0], "child", p.ID, tier, strconv.FormatInt(seed, 10), strconv.Itoa(i), strconv.Itoa(n), strconv.Itoa(only), rp)
			lf, _ := os.Create(filepath.Join(dir, fmt.Sprintf("shard%02d.log", i)))
			cmd.Stdout, cmd.Stderr = lf, lf
			cmd.Env = append(os.Environ(), "GOTRACEBACK=all")
			if p.Race {
				cmd.Env = append(cmd.Env, "GORACE=halt_on_error=0 exitcode=0 history_size=3 log_path="+filepath.Join(dir, "race"))
			}
			if err := cmd.Start(); err != nil {
				results <- res{i, err, false}
				return
			}
			done := make(chan error, 1)
			go func() { done <- cmd.Wait() }()
			select {
			case err := <-done:
				lf.Close()
				results <- res{i, err, false}
			case <-time.After(watchdog):
				cmd.Process.Signal(os.Interrupt)
				time.Sleep(200 * time.Millisecond)
				cmd.Process.Kill()
				<-done
				lf.Close()
				results <- res{i, fmt.Errorf("watchdog"), true}
			}
		}(i)
	}

	merged := newReport()
	inconclusive := []string{}
	for i := 0; i < n; i++ {
		r := <-results
		rp := filepath.Join(dir, fmt.Sprintf("shard%02d.json", r.shard))
		var rep Report
		b, rerr := os.ReadFile(rp)
		if rerr == nil {
			rerr = json.Unmarshal(b, &rep)
		}
		switch {
		case r.timed:
			inconclusive = append(inconclusive, fmt.Sprintf("shard %d: wall-clock watchdog (%s) fired; see %s", r.shard, watchdog, dir))
		case rerr != nil || !rep.Done:
			// the child died: the last index in its progress file is the witness
			last := -1
			if pb, err := os.ReadFile(filepath.Join(dir, fmt.Sprintf("shard%02d.progress", r.shard))); err == nil {
				lines := strings.Fields(string(pb))
				if len(lines) > 0 {
					last, _ = strconv.Atoi(lines[len(lines)-1])
				}
			}
			tail := ""
			if lb, err := os.ReadFile(filepath.Join(dir, fmt.Sprintf("shard%02d.log", r.shard))); err == nil {
				s := string(lb)
				if len(s) > 3000 {
					s = s[:3000]
				}
				tail = s
			}
			if last >= 0 {
				merged.Violations = append(merged.Violations, Finding{Index: last, Msg: fmt.Sprintf("child process died (%v) while executing this case; output:\n%s", r.err, tail)})
			} else {
				inconclusive = append(inconclusive, fmt.Sprintf("shard %d died before its first case (%v): %s", r.shard, r.err, tail))
			}
		default:
			merge(merged, &rep)
		}
	}
	coverage := map[string]any{}
	c := &Ctx{Prop: p, Tier: tier, Seed: seed, Only: only, NShards: n, rep: merged, known: LoadKnown(p.ID)}
	if p.Finish != nil {
		p.Finish(c, merged, coverage)
	}
	inconclusive = append(inconclusive, merged.Inconclusive...)

	// ----- verdict -----
	floor := p.FloorQuick
	if tier == "thorough" {
		floor = p.FloorThor
	}
	if only < 0 && len(merged.Keys) < floor {
		inconclusive = append(inconclusive, fmt.Sprintf("only %d distinct non-trivial cases observed, floor for tier %s is %d", len(merged.Keys), tier, floor))
	}
	sort.Slice(merged.Violations, func(i, j int) bool { return merged.Violations[i].Index < merged.Violations[j].Index })

	knownKeys := map[string]int64{}
	for name, v := range merged.Counters {
		if strings.HasPrefix(name, "known:") {
			knownKeys[strings.TrimPrefix(name, "known:")] = v
		}
	}
	for _, key := range sortedKeys(boolMap(knownKeys), 0) {
		fmt.Printf("KNOWN-FINDING: property=%s key=%s %s (matched by %d cases of this run)\n", p.ID, key, c.known[key], knownKeys[key])
	}
	seen := map[int]bool{}
	printed := 0
	for _, f := range merged.Violations {
		if seen[f.Index] && f.Replay == "" {
			continue
		}
		seen[f.Index] = true
		path := f.Replay
		if path == "" {
			path = writeReplay(p, tier, seed, f)
		}
		if printed < 10 {
			msg := f.Msg
			if len(msg) > 1500 {
				msg = msg[:1500] + "..."
			}
			fmt.Printf("VIOLATION property=%s replay=%s\n    case %d: %s\n", p.ID, path, f.Index, strings.ReplaceAll(msg, "\n", "\n    "))
		}
		printed++
	}
	if printed > 10 {
		fmt.Printf("(%d further violating cases; replay files under %s/out/replay)\n", printed-10, VerifDir)
	}

	// ----- evidence -----
	if only < 0 {
		samples := merged.Samples
		if len(samples) > 6 {
			samples = samples[:6]
		}
		if _, set := coverage["evaluations"]; !set {
			coverage["evaluations"] = merged.Evaluations
		}
		coverage["distinct_nontrivial"] = len(merged.Keys)
		coverage["rule"] = p.Rule + ruleAdditions[p.ID]
		coverage["samples"] = samples
		coverage["distinct_key_examples"] = sortedKeys(merged.Keys, 25)
		if p.Exhaustive != nil && p.Exhaustive(tier) {
			coverage["exhaustive"] = true
		}
		if len(merged.Counters) > 0 {
			coverage["counters"] = merged.Counters
		}
		if len(merged.Maxes) > 0 {
			coverage["maxima"] = merged.Maxes
		}
		sets := map[string]any{}
		for name, m := range merged.Sets {
			sets[name] = map[string]any{"distinct": len(m), "examples": sortedKeys(m, 40)}
		}
		if len(sets) > 0 {
			coverage["observed_sets"] = sets
		}
		if len(merged.Known) > 0 {
			coverage["known_finding_witnesses"] = merged.Known
		}
		coverage["shards"] = n
		verdict := "held on everything explored"
		if printed > 0 {
			verdict = "violated"
		} else if len(inconclusive) > 0 {
			verdict = "inconclusive"
		}
		coverage["verdict"] = verdict
		if len(inconclusive) > 0 {
			coverage["inconclusive_reasons"] = inconclusive
		}
		ev := map[string]any{
			"property_id": p.ID, "tier": tier, "seed": seed, "level": "exploration",
			"coverage": coverage, "assumptions": p.Assumptions,
			"wall_s": time.Since(start).Seconds(), "violations": printed,
		}
		b, _ := json.MarshalIndent(ev, "", " ")
		os.MkdirAll(filepath.Join(VerifDir, "evidence"), 0o755)
		os.WriteFile(filepath.Join(VerifDir, "evidence", p.ID+".json"), append(b, '\n'), 0o644)
	}

	fmt.Printf("%s %s seed=%d: %d cases executed, %d distinct non-trivial classes, %d violating cases, %.1fs\n",
		p.ID, tier, seed, merged.Evaluations, len(merged.Keys), printed, time.Since(start).Seconds())
	if printed > 0 {
		return 1
	}
	if len(inconclusive) > 0 {
		for _, s := range inconclusive {
			fmt.Println("INCONCLUSIVE:", s)
		}
		return 2
	}
	return 0
}

func boolMap(m map[string]int64) map[string]bool {
	o := map[string]bool{}
	for k := range m {
		o[k] = true
	}
	return o
}
