package fw

import (
	"fmt"
	"math"
	"reflect"
	"strings"
)

// jsonSafe converts a value into a tree of maps / slices / scalars that
// encoding/json can always encode: NaN and +-Inf (which JSON cannot hold)
// become the strings "NaN", "+Inf", "-Inf".
func jsonSafe(v any) any {
	return safeValue(reflect.ValueOf(v), 0)
}

func safeValue(v reflect.Value, depth int) any {
	if !v.IsValid() || depth > 40 {
		return nil
	}
	switch v.Kind() {
	case reflect.Ptr, reflect.Interface:
		if v.IsNil() {
			return nil
		}
		return safeValue(v.Elem(), depth+1)
	case reflect.Float32, reflect.Float64:
		f := v.Float()
		switch {
		case math.IsNaN(f):
			return "NaN"
		case math.IsInf(f, 1):
			return "+Inf"
		case math.IsInf(f, -1):
			return "-Inf"
		}
		return f
	case reflect.Slice, reflect.Array:
		if v.Kind() == reflect.Slice && v.IsNil() {
			return nil
		}
		out := make([]any, v.Len())
		for i := range out {
			out[i] = safeValue(v.Index(i), depth+1)
		}
		return out
	case reflect.Map:
		out := map[string]any{}
		for _, k := range v.MapKeys() {
			out[fmt.Sprint(k.Interface())] = safeValue(v.MapIndex(k), depth+1)
		}
		return out
	case reflect.Struct:
		out := map[string]any{}
		t := v.Type()
		for i := 0; i < t.NumField(); i++ {
			f := t.Field(i)
			if f.PkgPath != "" {
				continue
			}
			name := f.Name
			omit := false
			if tag, ok := f.Tag.Lookup("json"); ok {
				parts := strings.Split(tag, ",")
				if parts[0] == "-" {
					continue
				}
				if parts[0] != "" {
					name = parts[0]
				}
				for _, p := range parts[1:] {
					omit = omit || p == "omitempty"
				}
			}
			fv := v.Field(i)
			if omit && fv.IsZero() {
				continue
			}
			out[name] = safeValue(fv, depth+1)
		}
		return out
	case reflect.Func, reflect.Chan, reflect.UnsafePointer:
		return fmt.Sprintf("<%s>", v.Kind())
	}
	return v.Interface()
}
