package props

import (
	"fmt"
	"math"
	"math/rand"

	"github.com/sahandsafizadeh/qeep/tensor"
	"qeepverif/internal/rt"

	"qeepverif/internal/fw"
	"qeepverif/internal/ref"
)

// C02 — each differentiable operation's backward rule is its vector-Jacobian product.

func init() {
	fw.Register(&fw.Prop{
		ID: "C02",
		Rule: "per-operation gradient monitor: one application y = op(operands; args) on fresh leaves, BackPropagate(y*G) with a random non-uniform untracked weighting G, then every operand's Gradient() is compared (nil-ness, shape, finiteness, value) with the analytic vector-Jacobian product of the reference model; 1 case in 25 is cross-checked against central differences of the REAL forward function. " +
			"Enumerated: the 33 operations x every valid operand shape of rank 0..R (sizes 1..3; R=3 exhaustive + sampled rank 4-5 in quick, R=5 exhaustive in thorough) x every valid dim x exponents {-2,-1,-0.5,0,0.5,1,2,3,2.5} x index forms (every index list for rank <= 2, sampled above; Patch every source size/position for rank <= 2) x every non-empty subset of tracked operands; named boundary points: Pow at base 0 with exponents 0,1,2,3, Var/StdAlong over a dimension of size 1. Operands need no implicit expansion here (that is C07). " +
			"Non-trivial: the operand gradient has >= 2 elements or the op takes >= 2 operands; distinct = (op, shapes, argument form, tracked subset). Later additions: sampled shapes with sizes up to 7 and single sizes 31..129; groups of different same-rank shapes that collide under ad-hoc cache keys, run back-to-back in one case; the same tracked tensor as both operands; distinct values of magnitude 1e-30 for Max/Min/ElMax/ElMin; Std/Var/Avg/SumAlong on values scaled by 1e-13, 1e-30, 1e-100, 1e80; Div with operands of magnitude 1e-170..1e-200; every fifth upstream weighting is small integers that cancel to exactly 0.",
		Assumptions: []string{
			"operand values are unique per position and kept >= 1e-3 away from non-differentiable points (ties of Max/Min/ElMax/ElMin, zero divisors, Log/fractional Pow of non-positive values, Tan poles, zero standard deviation), except the boundary points the statement names",
			"gradient comparison: |r-e| <= 1e-10*(1+max|e|) + 1e-9*max(|r|,|e|)",
		},
		FloorQuick: 15000, FloorThor: 60000,
		Run: runC02,
	})
}

var c02Exponents = []float64{-2, -1, -0.5, 0, 0.5, 1, 2, 3, 2.5}

func runC02(c *fw.Ctx) {
	deeperBounds(!c.Quick())
	var shapes [][]int
	if c.Quick() {
		shapes = Shapes(0, 4, 3)
		// a fixed pseudo-random sample of rank-4/5 shapes (deterministic in the seed)
		all := Shapes(5, 5, 3)
		for i := 0; i < 60; i++ {
			shapes = append(shapes, all[int(uint64(c.Seed*7919+int64(i)*104729)%uint64(len(all)))])
		}
	} else {
		shapes = Shapes(0, 5, 3)
	}

	// sampled shapes with sizes up to 7 (the enumeration above stops at 3); deterministic in the seed
	{
		br := rand.New(rand.NewSource(c.Seed*1000003 + 17))
		for i := 0; i < c.Pick(40, 1200); i++ {
			shapes = append(shapes, BigShape(br, 1, 150))
		}
	}

	// sizes >= 31 (hash / digit-key / block thresholds), a few per run
	{
		br := rand.New(rand.NewSource(c.Seed*7907 + 3))
		for _, n := range []int{31, 32, 33, 64, 65, 129} {
			shapes = append(shapes, [][]int{{n}, {1, n}, {n, 1}, {2, n}, {1, 1 + br.Intn(2), n}}[br.Intn(5)])
		}
	}

	// the same tracked tensor as both operands: its gradient is the sum of both operand rules
	for _, shape := range Shapes(0, 3, 3) {
		for _, op := range []string{"add", "sub", "mul", "div", "dot", "matmul", "concat", "patch"} {
			rank := len(shape)
			if (op == "dot" || op == "concat" || op == "patch") && rank < 1 {
				continue
			}
			if op == "matmul" && (rank < 2 || shape[rank-1] != shape[rank-2]) {
				continue
			}
			shape, op := shape, op
			c.Case(func(k *fw.K) {
				x := Shuffled(k.Rng, Unique(k.Rng, shape, 0.2, 2))
				in := ref.Instr{Op: op, In: []int{0, 0}}
				if op == "concat" {
					in.Dim = k.Rng.Intn(len(shape))
				}
				p := ref.Prog{{Op: "leaf", Shape: shape, Data: x.Data, Tracked: true}, in}
				vals, err := p.Eval()
				if err != nil {
					k.Failf("harness: %v", err)
					return
				}
				g := randG(k, vals[1].Shape)
				p = append(p, ref.Instr{Op: "leaf", Shape: g.Shape, Data: g.Data}, ref.Instr{Op: "mul", In: []int{1, 2}})
				vals, _ = p.Eval()
				k.Case = c01case{Family: "one tracked tensor as both operands", Prog: p, Roots: []int{3}}
				k.Key("same-object/%s/%s", op, shapeKey(shape))
				k.Count("same_object_cases", 1)
				var ts []tensor.Tensor
				if pn := call(func() {
					ts, err = rt.Run(p)
					if err == nil {
						err = tensor.BackPropagate(ts[3])
					}
				}); pn != nil || err != nil {
					k.Failf("%s(x, x) on shape %v: panic=%v err=%v", op, shape, pn, err)
					return
				}
				want, scale := p.GradS(vals, 3, nil, ref.RuleSum)
				if msg := checkGradsScaled(ts, want, scale, fmt.Sprintf("%s(x, x) on shape %v", op, shape)); msg != "" {
					k.Failf("%s", msg)
				}
			})
		}
	}

	// saturated arguments under a HUGE upstream weighting: the derivative is tiny (sech^2(15) = 3.7e-13, e^-600) but the product with the
	// weighting is an ordinary number; a rule that forms the tiny derivative by cancellation (1 - y*y) is then off by whole percents
	for i := 0; i < c.Pick(300, 6000); i++ {
		c.Case(func(k *fw.K) {
			shape := RandShape(k.Rng, 0, 2, 3)
			x := ref.Zeros(shape)
			g := ref.Zeros(shape)
			op := []string{"tanh", "tanh", "exp"}[k.Rng.Intn(3)]
			for i := range x.Data {
				switch op {
				case "tanh":
					x.Data[i] = (8 + 11*k.Rng.Float64()) * []float64{1, -1}[k.Rng.Intn(2)]
					d := 1 / (math.Cosh(x.Data[i]) * math.Cosh(x.Data[i]))
					g.Data[i] = (0.5 + k.Rng.Float64()) / d * []float64{1, -1}[k.Rng.Intn(2)] // weighting chosen so that the product is of order 1
					if k.Rng.Intn(4) == 0 {
						// far beyond the plateau's edge (|x| = 380..700): cosh^2 exceeds the range, the derivative is exactly 0 in every order of
						// evaluation, and so is the gradient under an ordinary weighting
						x.Data[i] = (380 + 320*k.Rng.Float64()) * []float64{1, -1}[k.Rng.Intn(2)]
						g.Data[i] = (0.5 + k.Rng.Float64()) * []float64{1, -1}[k.Rng.Intn(2)]
					}
				default:
					x.Data[i] = -(300 + 390*k.Rng.Float64())
					g.Data[i] = (0.5 + k.Rng.Float64()) / math.Exp(x.Data[i]) * 1e-3
					if math.IsInf(g.Data[i], 0) {
						g.Data[i] = 1e300
					}
				}
			}
			in := ref.Instr{Op: op}
			k.Case = gcase{In: in, Ops: []*ref.T{x}, Tracked: []bool{true}, G: g}
			k.Key("saturated/%s/%s", op, shapeKey(shape))
			k.Count("saturated_argument_cases", 1)
			gradCheck(k, in, []*ref.T{x}, []bool{true}, g, "")
		})
	}
	// extreme second operands under a matching upstream weighting: a quotient by a subnormal or tiny divisor (the gradient of the
	// dividend is weighting / divisor: an ordinary number when the weighting is tiny too, while the reciprocal of a subnormal
	// divisor alone overflows), a product with a huge factor under a tiny weighting
	for i := 0; i < c.Pick(400, 8000); i++ {
		c.Case(func(k *fw.K) {
			r := k.Rng
			shape := RandShape(r, 0, 2, 3)
			a, b, g := ref.Zeros(shape), ref.Zeros(shape), ref.Zeros(shape)
			variant := []string{"div-subnormal", "div-tiny", "mul-huge", "div-divisor"}[r.Intn(4)]
			sign := func() float64 { return []float64{1, -1}[r.Intn(2)] }
			for i := range a.Data {
				switch variant {
				case "div-subnormal":
					b.Data[i] = sign() * (1e-310 + 4e-309*r.Float64())
					a.Data[i] = b.Data[i] * (0.5 + 1.5*r.Float64())
					g.Data[i] = []float64{0, 1e-300 * (0.5 + r.Float64()), -1e-305, 3e-309}[r.Intn(4)]
				case "div-tiny":
					b.Data[i] = sign() * 1e-300 * (0.5 + r.Float64())
					a.Data[i] = b.Data[i] * (0.5 + 1.5*r.Float64())
					g.Data[i] = []float64{0, 1e-290 * (0.5 + r.Float64()), -1e-300}[r.Intn(3)]
				case "div-divisor":
					// the DIVISOR is the tracked operand: its gradient -g*a/b^2 is an ordinary number (1e250 at most) although g/b alone
					// overflows (g = 1e200, b = 1e-150) - the magnitudes of weighting, dividend and divisor only fit together
					b.Data[i] = sign() * 1e-150 * (0.5 + r.Float64())
					a.Data[i] = sign() * 1e-250 * (0.5 + r.Float64())
					g.Data[i] = []float64{0, 1e200 * (0.5 + r.Float64()), -1e198}[r.Intn(3)]
				default:
					b.Data[i] = sign() * 1e300 * (0.5 + r.Float64())
					a.Data[i] = sign() * 1e-300 * (0.5 + r.Float64())
					g.Data[i] = []float64{0, 1e-300 * (0.5 + r.Float64()), -1e-295}[r.Intn(3)]
				}
			}
			in := ref.Instr{Op: "div"}
			if variant == "mul-huge" {
				in.Op = "mul"
			}
			xs, mask := []*ref.T{a, b}, []bool{true, false}
			if variant == "div-divisor" {
				mask = []bool{false, true}
			}
			if in.Op == "mul" && r.Intn(2) == 0 {
				xs, mask = []*ref.T{b, a}, []bool{false, true}
			}
			k.Case = gcase{In: in, Ops: xs, Tracked: mask, G: g}
			k.Key("extreme-operand/%s/%s", variant, shapeKey(shape))
			k.Count("extreme_second_operand_cases", 1)
			gradCheck(k, in, xs, mask, g, "")
		})
	}
	// operands of small ordinary magnitude (1e-12 .. 1e-5: probabilities of confidently wrong predictions, variances of nearly constant
	// features) through the operations whose derivative grows as the operand shrinks - Log (1/x), Pow(-1), Pow(0.5), Pow(-0.5), Div by
	// the operand - under a weighting of the size of the operand, so that the gradient is an ordinary number
	for i := 0; i < c.Pick(400, 8000); i++ {
		c.Case(func(k *fw.K) {
			r := k.Rng
			shape := RandShape(r, 0, 2, 3)
			x, g := ref.Zeros(shape), ref.Zeros(shape)
			for i := range x.Data {
				x.Data[i] = math.Pow(10, -5-7*r.Float64())
				g.Data[i] = x.Data[i] * (0.5 + r.Float64()) * []float64{1, -1}[r.Intn(2)]
			}
			in := []ref.Instr{{Op: "log"}, {Op: "pow", F: -1}, {Op: "pow", F: 0.5}, {Op: "pow", F: -0.5}, {Op: "div"}}[r.Intn(5)]
			xs, mask := []*ref.T{x}, []bool{true}
			if in.Op == "div" {
				xs, mask = []*ref.T{Shuffled(r, Unique(r, shape, 0.5, 2)), x}, []bool{r.Intn(2) == 0, true}
				for i := range g.Data {
					g.Data[i] *= x.Data[i]
				}
			}
			if in.Op == "pow" && in.F == -1 {
				for i := range g.Data {
					g.Data[i] *= x.Data[i]
				}
			}
			k.Case = gcase{In: in, Ops: xs, Tracked: mask, G: g}
			k.Key("small-operand/%s/%g/%s", in.Op, in.F, shapeKey(shape))
			k.Count("small_operand_cases", 1)
			gradCheck(k, in, xs, mask, g, "")
		})
	}
	// Sin and Cos at arguments of LARGE magnitude (1e6 .. 1e15): differentiable everywhere, the derivative is cos(x) / -sin(x) of the very
	// double x (an argument shifted by pi/2 and rounded again is another number at this spacing)
	for i := 0; i < c.Pick(300, 6000); i++ {
		c.Case(func(k *fw.K) {
			r := k.Rng
			shape := RandShape(r, 0, 2, 3)
			x := ref.Zeros(shape)
			for i := range x.Data {
				x.Data[i] = math.Pow(10, 6+9*r.Float64()) * []float64{1, -1}[r.Intn(2)]
			}
			in := ref.Instr{Op: []string{"sin", "cos"}[r.Intn(2)]}
			g := randG(k, shape)
			k.Case = gcase{In: in, Ops: []*ref.T{x}, Tracked: []bool{true}, G: g}
			k.Key("large-argument/%s/%s", in.Op, shapeKey(shape))
			k.Count("large_trig_argument_cases", 1)
			gradCheck(k, in, []*ref.T{x}, []bool{true}, g, "")
		})
	}
	// Pow with a TINY non-zero exponent (|a| down to 1e-300: a - 1 rounds to -1, the exponent is still not 0) under an upstream
	// weighting that makes a * x^(a-1) * g an ordinary number; and Scale by 1e+-300 under the opposite weighting
	for i := 0; i < c.Pick(300, 6000); i++ {
		c.Case(func(k *fw.K) {
			r := k.Rng
			shape := RandShape(r, 0, 2, 3)
			x := Shuffled(r, UniquePos(r, shape, 0.2, 2.5))
			g := ref.Zeros(shape)
			in := ref.Instr{Op: "pow", F: []float64{1e-17, -1e-16, 3e-17, 1e-300, -1e-200, 1e-100}[r.Intn(6)]}
			if r.Intn(4) == 0 {
				in = ref.Instr{Op: "scale", F: []float64{1e-300, 1e300, -1e-200}[r.Intn(3)]}
			}
			for i := range g.Data {
				g.Data[i] = (0.5 + r.Float64()) / math.Abs(in.F) * []float64{1, -1}[r.Intn(2)]
				if r.Intn(6) == 0 {
					g.Data[i] = 0
				}
			}
			k.Case = gcase{In: in, Ops: []*ref.T{x}, Tracked: []bool{true}, G: g}
			k.Key("tiny-argument/%s/%g/%s", in.Op, in.F, shapeKey(shape))
			k.Count("tiny_scalar_argument_cases", 1)
			gradCheck(k, in, []*ref.T{x}, []bool{true}, g, "")
		})
	}
	// selections between NEIGHBOURING doubles (x and the next double, 0.1+0.2 and 0.3): different numbers, so ElMax / ElMin / MaxAlong /
	// MinAlong are differentiable there and the whole upstream weighting goes to the larger (smaller) one
	for i := 0; i < c.Pick(400, 8000); i++ {
		c.Case(func(k *fw.K) {
			r := k.Rng
			near := func(v float64) float64 {
				d := math.Inf(1)
				if r.Intn(2) == 0 {
					d = math.Inf(-1)
				}
				for q := 0; q <= r.Intn(3); q++ {
					v = math.Nextafter(v, d)
				}
				return v
			}
			var in ref.Instr
			var xs []*ref.T
			var mask []bool
			if r.Intn(2) == 0 {
				shape := RandShape(r, 0, 2, 3)
				a := Shuffled(r, Unique(r, shape, 0.2, 2.5))
				if r.Intn(2) == 0 && len(a.Data) > 0 {
					a.Data[0] = 0.1 + 0.2
				}
				b := a.Clone()
				for i := range b.Data {
					b.Data[i] = near(a.Data[i])
				}
				in = ref.Instr{Op: []string{"elmax", "elmin"}[r.Intn(2)]}
				xs, mask = []*ref.T{a, b}, [][]bool{{true, true}, {true, false}, {false, true}}[r.Intn(3)]
			} else {
				shape := RandShape(r, 1, 3, 3)
				dim := r.Intn(len(shape))
				for shape[dim] < 2 {
					shape[dim] = 2 + r.Intn(2)
				}
				x := Shuffled(r, Unique(r, shape, 0.2, 2.5))
				// make the two largest and the two smallest of every fibre neighbours: copy element 0 of the fibre next to element 1
				inner := 1
				for _, d := range shape[dim+1:] {
					inner *= d
				}
				n := shape[dim]
				for o := 0; o < len(x.Data)/(n*inner); o++ {
					for q := 0; q < inner; q++ {
						base := x.Data[(o*n)*inner+q]
						x.Data[(o*n+1)*inner+q] = near(base)
						for a := 2; a < n; a++ { // the others clearly apart, on either side
							x.Data[(o*n+a)*inner+q] = base + []float64{-3, 3}[r.Intn(2)] - float64(a)*0.01
						}
					}
				}
				in = ref.Instr{Op: []string{"maxalong", "minalong"}[r.Intn(2)], Dim: dim}
				xs, mask = []*ref.T{x}, []bool{true}
			}
			y, err := ref.Apply(in, xs)
			if err != nil {
				k.Failf("harness: %v", err)
				return
			}
			g := randG(k, y.Shape)
			k.Case = gcase{In: in, Ops: xs, Tracked: mask, G: g}
			k.Key("neighbouring/%s/%s", in.Op, shapeKey(xs[0].Shape))
			k.Count("selections_between_neighbouring_doubles", 1)
			gradCheck(k, in, xs, mask, g, "")
		})
	}
	// results that OVERFLOW to +-Inf while the derivative is an ordinary number: x^2 at 1e200 (2x = 2e200), a*b at 1e200 * 1e200 (da = b),
	// a sum of two 1e308 - the gradient does not depend on the VALUE of the result it is back-propagated from
	for i := 0; i < c.Pick(300, 6000); i++ {
		c.Case(func(k *fw.K) {
			r := k.Rng
			shape := RandShape(r, 0, 2, 3)
			sign := func() float64 { return []float64{1, -1}[r.Intn(2)] }
			a, b, g := ref.Zeros(shape), ref.Zeros(shape), ref.Zeros(shape)
			variant := []string{"pow2", "mul", "add", "scale"}[r.Intn(4)]
			for i := range a.Data {
				a.Data[i] = sign() * 1e200 * (0.5 + r.Float64())
				b.Data[i] = sign() * 1e200 * (0.5 + r.Float64())
				g.Data[i] = sign() * 1e-200 * (0.5 + r.Float64())
				if variant == "add" {
					a.Data[i] = 1.5e308 * (0.6 + 0.4*r.Float64())
					b.Data[i] = 1.5e308 * (0.6 + 0.4*r.Float64())
					g.Data[i] = sign() * (0.5 + r.Float64())
				}
				if r.Intn(3) == 0 { // some elements stay in range
					a.Data[i], b.Data[i] = sign()*(0.5+r.Float64()), sign()*(0.5+r.Float64())
				}
			}
			var in ref.Instr
			xs, mask := []*ref.T{a, b}, [][]bool{{true, true}, {true, false}, {false, true}}[r.Intn(3)]
			switch variant {
			case "pow2":
				in, xs, mask = ref.Instr{Op: "pow", F: 2}, []*ref.T{a}, []bool{true}
			case "scale":
				in, xs, mask = ref.Instr{Op: "scale", F: 1e200}, []*ref.T{a}, []bool{true}
			case "mul":
				in = ref.Instr{Op: "mul"}
			default:
				in = ref.Instr{Op: "add"}
			}
			k.Case = gcase{In: in, Ops: xs, Tracked: mask, G: g}
			k.Key("overflowing-result/%s/%s/%s", variant, shapeKey(shape), maskKey(mask))
			k.Count("cases_whose_forward_result_overflows", 1)
			gradCheck(k, in, xs, mask, g, "")
		})
	}
	// upstream weightings at the TOP of the range (up to 1.7e308) through operations whose vector-Jacobian product is no larger than
	// the weighting itself: means, sums, shape operations, selections, contractive element-wise functions, the variance of two close
	// values - an intermediate like 2*g must not be formed before the small factor is applied
	for i := 0; i < c.Pick(500, 10000); i++ {
		c.Case(func(k *fw.K) {
			r := k.Rng
			shape := RandShape(r, 1, 3, 3)
			rank := len(shape)
			x := Shuffled(r, Unique(r, shape, 0.2, 0.45)) // |x - mean| < 0.5 in every fibre
			for i := range x.Data {
				x.Data[i] = math.Abs(x.Data[i])
			}
			dim := r.Intn(rank)
			var in ref.Instr
			xs, mask := []*ref.T{x}, []bool{true}
			switch r.Intn(12) {
			case 0:
				for shape[dim] != 2 { // the variance of TWO values: the factor 2/(n-1) is 2
					shape[dim] = 2
					x = Shuffled(r, Unique(r, shape, 0.2, 0.45))
					for i := range x.Data {
						x.Data[i] = math.Abs(x.Data[i])
					}
					xs = []*ref.T{x}
				}
				in = ref.Instr{Op: "varalong", Dim: dim}
			case 1:
				in = ref.Instr{Op: []string{"meanalong", "avgalong", "sumalong"}[r.Intn(3)], Dim: dim}
			case 2:
				in = ref.Instr{Op: "scale", F: []float64{0.5, -1, 1, -0.25}[r.Intn(4)]}
			case 3:
				in = ref.Instr{Op: []string{"tanh", "sin", "cos"}[r.Intn(3)]}
			case 4:
				in = ref.Instr{Op: "reshape", Shape: []int{len(x.Data)}}
			case 5:
				in = ref.Instr{Op: "slice", Index: []ref.Range{{From: 0, To: 1}}}
			case 6:
				in = ref.Instr{Op: []string{"sub", "add"}[r.Intn(2)]}
				xs, mask = []*ref.T{x, Shuffled(r, Unique(r, shape, 1, 2))}, []bool{true, true}
			case 7:
				in = ref.Instr{Op: "mul"}
				xs, mask = []*ref.T{x, Shuffled(r, Unique(r, shape, 0.1, 0.9))}, []bool{true, false}
			case 8:
				in = ref.Instr{Op: []string{"elmax", "elmin"}[r.Intn(2)]}
				xs, mask = []*ref.T{x, Shuffled(r, Unique(r, shape, 1, 2))}, []bool{true, true}
			case 9:
				in = ref.Instr{Op: "concat", Dim: dim}
				xs, mask = []*ref.T{x, Shuffled(r, Unique(r, shape, 1, 2))}, []bool{true, true}
			case 10:
				in = ref.Instr{Op: "unsqueeze", Dim: r.Intn(rank + 1)}
			default:
				if fibresSeparated(x, dim, 1e-3) {
					in = ref.Instr{Op: []string{"maxalong", "minalong"}[r.Intn(2)], Dim: dim}
				} else {
					in = ref.Instr{Op: "flatten", Dim: dim}
				}
			}
			y, err := ref.Apply(in, xs)
			if err != nil {
				k.Failf("harness: %v", err)
				return
			}
			g := ref.Zeros(y.Shape)
			for i := range g.Data {
				g.Data[i] = []float64{1, -1}[r.Intn(2)] * (0.55 + 0.4*r.Float64()) * 1.7e308
				if r.Intn(5) == 0 {
					g.Data[i] = 0
				}
			}
			if in.Op == "sumalong" || in.Op == "add" || in.Op == "sub" || in.Op == "concat" { // a share per consumer is added: keep the sum of two in range
				for i := range g.Data {
					g.Data[i] /= 2
				}
			}
			k.Case = gcase{In: in, Ops: xs, Tracked: mask, G: g}
			k.Key("huge-weighting/%s/%s", in.Op, shapeKey(shape))
			k.Count("cases_with_upstream_weightings_near_the_top_of_the_range", 1)
			gradCheck(k, in, xs, mask, g, "")
		})
	}
	// Concat over MANY operands (up to 130: beyond the width of any machine word used as an operand mask), tracked operands at
	// late positions, one operand object at several positions
	for i := 0; i < c.Pick(60, 1200); i++ {
		c.Case(func(k *fw.K) {
			r := k.Rng
			n := []int{33, 64, 65, 66, 72, 100, 129, 130}[r.Intn(8)]
			shape := [][]int{{1}, {2}, {1, 2}, {2, 1}}[r.Intn(4)]
			dim := r.Intn(len(shape))
			xs := make([]*ref.T, n)
			mask := make([]bool, n)
			for i := range xs {
				xs[i] = Shuffled(r, Unique(r, shape, 0.2, 2.5))
				mask[i] = r.Intn(3) == 0 || i == n-1 || i == 64
			}
			in := ref.Instr{Op: "concat", Dim: dim}
			y, err := ref.Apply(in, xs)
			if err != nil {
				k.Failf("harness: %v", err)
				return
			}
			g := randG(k, y.Shape)
			k.Case = map[string]any{"op": "concat", "operands": n, "shape": shape, "dim": dim, "tracked": mask}
			k.Key("concat-many/%d/%s/%d", n, shapeKey(shape), dim)
			k.Count("concat_cases_with_more_than_32_operands", 1)
			gradCheck(k, in, xs, mask, g, "")
		})
	}
	// ARBITRARY index / dim / shape arguments (partial, shifted, open-ended, reversed, out of range): whether the forward call is
	// accepted is C09's business - but a call that WAS accepted on a tracked operand must then back-propagate without an error
	// and leave a finite gradient of the operand's shape ("a forward call that was accepted never makes the subsequent
	// back-propagation fail")
	for i := 0; i < c.Pick(3000, 60000); i++ {
		c.Case(func(k *fw.K) { c02Accepted(k) })
	}
	// the same UNTRACKED operand object serves two applications, each back-propagated before the next is built
	for i := 0; i < c.Pick(1500, 30000); i++ {
		c.Case(func(k *fw.K) { c02Reuse(k) })
		c.Case(func(k *fw.K) { c02Rearmed(k) })
	}
	// groups of different same-rank shapes that collide under ad-hoc cache keys: each case runs the same
	// operation on every shape of the group, one after the other, in one process
	for gi, group := range CollidingShapes {
		for _, op := range []string{"slice", "patch", "varalong1", "pow0", "sumalong", "mul", "tanh", "maxalong", "concat", "unsqueeze"} {
			gi, group, op := gi, group, op
			c.Case(func(k *fw.K) {
				k.Key("colliding/%d/%s", gi, op)
				k.Count("colliding_shape_group_cases", 1)
				for _, shape := range group {
					rank := len(shape)
					x := Shuffled(k.Rng, Unique(k.Rng, shape, 0.2, 2.5))
					var in ref.Instr
					xs := []*ref.T{x}
					switch op {
					case "slice":
						in = ref.Instr{Op: "slice", Index: []ref.Range{{From: 0, To: 1 + k.Rng.Intn(shape[0])}}}
					case "patch":
						src := make([]int, rank)
						for q := range src {
							src[q] = 1 + k.Rng.Intn(shape[q])
						}
						in = ref.Instr{Op: "patch"}
						xs = append(xs, Shuffled(k.Rng, Unique(k.Rng, src, 5, 8)))
					case "varalong1": // a dimension of size 1 where there is one, else the last
						dim := rank - 1
						for q, d := range shape {
							if d == 1 {
								dim = q
							}
						}
						in = ref.Instr{Op: []string{"varalong", "stdalong"}[k.Rng.Intn(2)], Dim: dim}
					case "pow0":
						in = ref.Instr{Op: "pow", F: 0}
					case "sumalong", "maxalong":
						in = ref.Instr{Op: op, Dim: k.Rng.Intn(rank)}
					case "mul":
						in = ref.Instr{Op: "mul"}
						xs = append(xs, Shuffled(k.Rng, Unique(k.Rng, shape, 0.2, 2.5)))
					case "tanh":
						in = ref.Instr{Op: "tanh"}
					case "concat":
						in = ref.Instr{Op: "concat", Dim: k.Rng.Intn(rank)}
						xs = append(xs, Shuffled(k.Rng, Unique(k.Rng, shape, 0.2, 2.5)))
					case "unsqueeze":
						in = ref.Instr{Op: "unsqueeze", Dim: k.Rng.Intn(rank + 1)}
					}
					y, err := ref.Apply(in, xs)
					if err != nil {
						k.Failf("harness: %v", err)
						return
					}
					mask := make([]bool, len(xs))
					for q := range mask {
						mask[q] = true
					}
					g := randG(k, y.Shape)
					k.Case = gcase{In: in, Ops: xs, Tracked: mask, G: g}
					if !gradCheck(k, in, xs, mask, g, "") {
						return
					}
				}
			})
		}
	}

	one := func(key string, mk func(k *fw.K) (ref.Instr, []*ref.T), nOperands int) {
		for _, mask := range subsets(nOperands) {
			mask := mask
			c.Case(func(k *fw.K) {
				in, xs := mk(k)
				y, err := ref.Apply(in, xs)
				if err != nil {
					k.Failf("harness: %s: %v", key, err)
					return
				}
				g := randG(k, y.Shape)
				k.Case = gcase{In: in, Ops: xs, Tracked: mask, G: g}
				big := len(xs) >= 2
				for i, x := range xs {
					big = big || (mask[i] && len(x.Data) >= 2)
				}
				if big {
					k.Key("%s/%s", key, maskKey(mask))
				}
				k.Count("cases_"+in.Op, 1)
				k.Sample()
				moderate := true // central differences with h = 1e-6 only make sense for operands of ordinary magnitude
				for _, x := range xs {
					moderate = moderate && minAbs(x) > 1e-3 && maxAbs(x) < 1e3
				}
				if in.Op == "pow" {
					moderate = moderate && minAbs(xs[0]) > 0.05
				}
				if gradCheck(k, in, xs, mask, g, "") && moderate && k.Index%25 == 0 && ref.Prod(y.Shape) <= 32 {
					for i := range xs {
						if mask[i] && len(xs[i].Data) <= 32 {
							k.Count("cross_oracle_checks", 1)
							if msg := crossOracle(in, xs, g, i); msg != "" {
								k.Failf("%s: cross-oracle disagreement (harness oracle conflict or forward/backward inconsistency): %s", key, msg)
							}
						}
					}
				}
			})
		}
	}
	u := func(k *fw.K, shape []int) *ref.T { return Shuffled(k.Rng, Unique(k.Rng, shape, 0.2, 2.5)) }
	up := func(k *fw.K, shape []int) *ref.T { return Shuffled(k.Rng, UniquePos(k.Rng, shape, 0.2, 2.5)) }

	for _, shape := range shapes {
		shape := shape
		sk := shapeKey(shape)
		rank := len(shape)

		// ----- unary element-wise -----
		for _, f := range []float64{-1.5, 0, 2, 1, -1} {
			f := f
			one(fmt.Sprintf("scale/%g/%s", f, sk), func(k *fw.K) (ref.Instr, []*ref.T) { return ref.Instr{Op: "scale", F: f}, []*ref.T{u(k, shape)} }, 1)
		}
		for _, a := range c02Exponents {
			a := a
			one(fmt.Sprintf("pow/%g/%s/pos", a, sk), func(k *fw.K) (ref.Instr, []*ref.T) { return ref.Instr{Op: "pow", F: a}, []*ref.T{up(k, shape)} }, 1)
			if a == math.Trunc(a) {
				one(fmt.Sprintf("pow/%g/%s/signed", a, sk), func(k *fw.K) (ref.Instr, []*ref.T) { return ref.Instr{Op: "pow", F: a}, []*ref.T{u(k, shape)} }, 1)
			}
			if a == 0 || a == 1 || a == 2 || a == 3 { // named boundary: base exactly 0
				one(fmt.Sprintf("pow/%g/%s/zero-base", a, sk), func(k *fw.K) (ref.Instr, []*ref.T) {
					x := u(k, shape)
					x.Data[k.Rng.Intn(len(x.Data))] = 0
					if len(x.Data) > 1 {
						x.Data[k.Rng.Intn(len(x.Data))] = 0
					}
					return ref.Instr{Op: "pow", F: a}, []*ref.T{x}
				}, 1)
			}
		}
		for _, op := range []string{"exp", "sin", "cos", "sinh", "cosh", "tanh"} {
			op := op
			one(op+"/"+sk, func(k *fw.K) (ref.Instr, []*ref.T) { return ref.Instr{Op: op}, []*ref.T{u(k, shape)} }, 1)
		}
		one("log/"+sk, func(k *fw.K) (ref.Instr, []*ref.T) { return ref.Instr{Op: "log"}, []*ref.T{up(k, shape)} }, 1)
		one("tan/"+sk, func(k *fw.K) (ref.Instr, []*ref.T) {
			return ref.Instr{Op: "tan"}, []*ref.T{Shuffled(k.Rng, Unique(k.Rng, shape, 0.05, 1.2))}
		}, 1)

		// Max/Min/ElMax/ElMin at distinct values of tiny magnitude (differentiable: the values differ, however close to 0)
		if len(shape) >= 1 {
			for _, op := range []string{"maxalong", "minalong"} {
				op := op
				one(fmt.Sprintf("%s/%s/tiny", op, sk), func(k *fw.K) (ref.Instr, []*ref.T) {
					x := UniqueInts(k.Rng, shape)
					for i := range x.Data {
						x.Data[i] *= 1e-30
					}
					return ref.Instr{Op: op, Dim: k.Rng.Intn(len(shape))}, []*ref.T{x}
				}, 1)
			}
		}
		// Var/Std (and the linear reducers) at distinct values of tiny and of huge magnitude: the standard deviation of a fibre is
		// then far below any "epsilon" (or far above 1) while its derivative (x - mean)/((n-1) std) stays of order 1
		if len(shape) >= 1 {
			for _, op := range []string{"stdalong", "varalong", "avgalong", "sumalong"} {
				for _, scale := range []float64{1e-13, 1e-30, 1e-100, 1e80} {
					if op != "stdalong" && scale < 1 {
						continue // their gradients would sit below the absolute tolerance
					}
					op, scale := op, scale
					one(fmt.Sprintf("%s/%s/scale%g", op, sk, scale), func(k *fw.K) (ref.Instr, []*ref.T) {
						x := UniqueInts(k.Rng, shape)
						for i := range x.Data {
							x.Data[i] *= scale
						}
						return ref.Instr{Op: op, Dim: k.Rng.Intn(len(shape))}, []*ref.T{x}
					}, 1)
				}
			}
		}
		for _, op := range []string{"elmax", "elmin"} {
			op := op
			one(fmt.Sprintf("%s/%s/tiny", op, sk), func(k *fw.K) (ref.Instr, []*ref.T) {
				a, b := UniqueInts(k.Rng, shape), UniqueInts(k.Rng, shape)
				for i := range a.Data {
					if a.Data[i] == b.Data[i] {
						b.Data[i] += 0.5
					}
					a.Data[i] *= 1e-30
					b.Data[i] *= 1e-30
				}
				return ref.Instr{Op: op}, []*ref.T{a, b}
			}, 2)
		}

		// ----- same-shape binary -----
		for _, op := range []string{"add", "sub", "mul", "div", "elmax", "elmin"} {
			op := op
			one(op+"/"+sk, func(k *fw.K) (ref.Instr, []*ref.T) {
				a, b := u(k, shape), u(k, shape)
				for i := range a.Data { // no ties for elmax/elmin, no tiny divisors
					if math.Abs(a.Data[i]-b.Data[i]) < 1e-2 {
						b.Data[i] += 0.5
					}
				}
				return ref.Instr{Op: op}, []*ref.T{a, b}
			}, 2)
		}

		// Div with operands of extreme magnitude (quotient and both partial derivatives representable)
		one("div/"+sk+"/tiny-divisor", func(k *fw.K) (ref.Instr, []*ref.T) {
			a, b := u(k, shape), u(k, shape)
			for i := range a.Data {
				a.Data[i] *= 1e-200
				b.Data[i] *= 1e-170
			}
			return ref.Instr{Op: "div"}, []*ref.T{a, b}
		}, 2)

		// ----- shape operations -----
		for dim := 0; dim <= rank; dim++ {
			dim := dim
			one(fmt.Sprintf("unsqueeze/%s/%d", sk, dim), func(k *fw.K) (ref.Instr, []*ref.T) {
				return ref.Instr{Op: "unsqueeze", Dim: dim}, []*ref.T{u(k, shape)}
			}, 1)
		}
		{
			targets := shapesWithProduct(ref.Prod(shape), 4)
			for q := 0; q < 2; q++ {
				one(fmt.Sprintf("reshape/%s/%d", sk, q), func(k *fw.K) (ref.Instr, []*ref.T) {
					return ref.Instr{Op: "reshape", Shape: targets[k.Rng.Intn(len(targets))]}, []*ref.T{u(k, shape)}
				}, 1)
			}
		}
		if rank >= 2 {
			one("transpose/"+sk, func(k *fw.K) (ref.Instr, []*ref.T) { return ref.Instr{Op: "transpose"}, []*ref.T{u(k, shape)} }, 1)
		}
		for dim := 0; dim < rank; dim++ {
			dim := dim
			one(fmt.Sprintf("flatten/%s/%d", sk, dim), func(k *fw.K) (ref.Instr, []*ref.T) { return ref.Instr{Op: "flatten", Dim: dim}, []*ref.T{u(k, shape)} }, 1)
			if shape[dim] == 1 {
				one(fmt.Sprintf("squeeze/%s/%d", sk, dim), func(k *fw.K) (ref.Instr, []*ref.T) { return ref.Instr{Op: "squeeze", Dim: dim}, []*ref.T{u(k, shape)} }, 1)
			}
			// ----- reductions along dim (Var/Std over a size-1 dimension is a named boundary) -----
			for _, op := range c05Along {
				op := op
				one(fmt.Sprintf("%s/%s/%d", op, sk, dim), func(k *fw.K) (ref.Instr, []*ref.T) { return ref.Instr{Op: op, Dim: dim}, []*ref.T{u(k, shape)} }, 1)
			}
			// ----- concat along dim -----
			for nops := 2; nops <= 4; nops++ {
				nops := nops
				if rank > 3 && nops > 2 {
					continue
				}
				one(fmt.Sprintf("concat/%s/%d/%d", sk, dim, nops), func(k *fw.K) (ref.Instr, []*ref.T) {
					xs := make([]*ref.T, nops)
					for i := range xs {
						s := ref.CopyInts(shape)
						s[dim] = 1 + k.Rng.Intn(3)
						xs[i] = u(k, s)
					}
					return ref.Instr{Op: "concat", Dim: dim}, xs
				}, nops)
			}
		}

		// ----- Slice / Patch -----
		if rank >= 1 {
			var lists [][]ref.Range
			if rank <= 2 {
				lists = indexLists(rank, func(i int) []ref.Range { return allRanges(shape[i]) })
			} else {
				lists = make([][]ref.Range, c.Pick(6, 30)) // filled per case below
			}
			for li, index := range lists {
				li, index := li, index
				one(fmt.Sprintf("slice/%s/%d", sk, li), func(k *fw.K) (ref.Instr, []*ref.T) {
					idx := index
					if rank > 2 {
						idx = make([]ref.Range, k.Rng.Intn(rank+1))
						for q := range idx {
							rs := allRanges(shape[q])
							idx[q] = rs[k.Rng.Intn(len(rs))]
						}
					}
					return ref.Instr{Op: "slice", Index: idx}, []*ref.T{u(k, shape)}
				}, 1)
			}
			npatch := c.Pick(4, 12)
			if rank <= 2 {
				npatch = c.Pick(12, 40)
			}
			for pi := 0; pi < npatch; pi++ {
				one(fmt.Sprintf("patch/%s/%d", sk, pi), func(k *fw.K) (ref.Instr, []*ref.T) {
					src := make([]int, rank)
					for q := range src {
						src[q] = 1 + k.Rng.Intn(shape[q])
					}
					idx := make([]ref.Range, k.Rng.Intn(rank+1))
					for q := range idx {
						if k.Rng.Intn(3) == 0 {
							continue
						}
						off := k.Rng.Intn(shape[q] - src[q] + 1)
						idx[q] = ref.Range{From: off, To: off + src[q]}
					}
					return ref.Instr{Op: "patch", Index: idx}, []*ref.T{u(k, shape), Shuffled(k.Rng, Unique(k.Rng, src, 5, 8))}
				}, 2)
			}
		}

		// ----- Dot (same shapes) / MatMul (same batch) -----
		if rank >= 1 {
			one("dot/"+sk, func(k *fw.K) (ref.Instr, []*ref.T) { return ref.Instr{Op: "dot"}, []*ref.T{u(k, shape), u(k, shape)} }, 2)
		}
		if rank >= 2 {
			for kk := 1; kk <= 3; kk++ {
				kk := kk
				one(fmt.Sprintf("matmul/%s/%d", sk, kk), func(k *fw.K) (ref.Instr, []*ref.T) {
					sb := ref.CopyInts(shape)
					sb[rank-2], sb[rank-1] = shape[rank-1], kk
					return ref.Instr{Op: "matmul"}, []*ref.T{u(k, shape), u(k, sb)}
				}, 2)
			}
		}
	}
}

// c02Reuse: a constant (untracked) operand is used with a tracked operand, the result is back-propagated, and the very same
// constant object is then used with a FRESH tracked operand: the second application must deliver its vector-Jacobian product too.
func c02Accepted(k *fw.K) {
	r := k.Rng
	shape := RandShape(r, 0, 4, 4)
	rank := len(shape)
	x := Shuffled(r, Unique(r, shape, 0.2, 2.5))
	in := ref.Instr{}
	xs := []*ref.T{x}
	anyRange := func(d int) ref.Range { return ref.Range{From: r.Intn(d+3) - 1, To: r.Intn(d+3) - 1} }
	switch q := r.Intn(8); q {
	case 0, 1: // Slice with 0..rank+1 arbitrary ranges
		in.Op = "slice"
		for d := 0; d < r.Intn(rank+2); d++ {
			sz := 1
			if d < rank {
				sz = shape[d]
			}
			in.Index = append(in.Index, anyRange(sz))
		}
	case 2, 3: // Patch of a small source under arbitrary ranges
		in.Op = "patch"
		src := make([]int, rank)
		for d := range src {
			src[d] = 1 + r.Intn(shape[d])
		}
		if rank > 0 && r.Intn(4) == 0 {
			src = src[1:]
		}
		xs = append(xs, Shuffled(r, Unique(r, src, 5, 8)))
		for d := 0; d < r.Intn(rank+2); d++ {
			sz := 1
			if d < rank {
				sz = shape[d]
			}
			if r.Intn(2) == 0 && d < len(src) { // a range of exactly the source's extent at an arbitrary offset
				from := r.Intn(sz+2) - 1
				in.Index = append(in.Index, ref.Range{From: from, To: from + src[d]})
			} else {
				in.Index = append(in.Index, anyRange(sz))
			}
		}
	case 4:
		in.Op = []string{"squeeze", "unsqueeze", "flatten"}[r.Intn(3)]
		in.Dim = r.Intn(rank+4) - 2
	case 5:
		in.Op = []string{"sumalong", "maxalong", "minalong", "avgalong", "varalong", "stdalong", "meanalong"}[r.Intn(7)]
		in.Dim = r.Intn(rank+4) - 2
	case 6:
		in.Op = "reshape"
		n := len(x.Data)
		in.Shape = [][]int{{n}, {1, n}, {n, 1}, {-1}, {n, -1}, {0, n}, {}, {n + 1}, {2, (n + 1) / 2}}[r.Intn(9)]
	default:
		in.Op = "concat"
		in.Dim = r.Intn(rank+4) - 2
		o := ref.CopyInts(shape)
		if rank > 0 && r.Intn(2) == 0 {
			o[r.Intn(rank)] += r.Intn(3) - 1
		}
		for _, d := range o {
			if d < 1 {
				o = ref.CopyInts(shape)
			}
		}
		xs = append(xs, Shuffled(r, Unique(r, o, 3, 5)))
	}
	k.Case = gcase{In: in, Ops: xs, Tracked: []bool{true, true}[:len(xs)]}
	leaves := make([]tensor.Tensor, len(xs))
	for i, v := range xs {
		leaves[i] = rt.MustLeaf(v, true)
	}
	var y tensor.Tensor
	var err error
	if p := call(func() { y, err = rt.Exec(in, leaves) }); p != nil {
		k.Failf("%s%v with index %v dim %d shape %v: panic %v", in.Op, shapesOf(xs), in.Index, in.Dim, in.Shape, p)
		return
	}
	if err != nil || y == nil {
		k.Count("arbitrary_argument_calls_refused", 1)
		return
	}
	k.Count("arbitrary_argument_calls_accepted", 1)
	k.Key("accepted/%s/%s/%v/%d/%v", in.Op, shapeKey(shape), in.Index, in.Dim, in.Shape)
	if p := call(func() { err = tensor.BackPropagate(y) }); p != nil || err != nil {
		k.Failf("%s%v with index %v dim %d shape %v was accepted (result shape %v) but the back-propagation failed: panic=%v err=%v", in.Op, shapesOf(xs), in.Index, in.Dim, in.Shape, y.Shape(), p, err)
		return
	}
	for i, l := range leaves {
		g := l.Gradient()
		if g == nil {
			k.Failf("%s%v with index %v dim %d shape %v was accepted but operand %d received no gradient", in.Op, shapesOf(xs), in.Index, in.Dim, in.Shape, i)
			return
		}
		gv, e := rt.Read(g)
		if e != nil || !ref.SameShape(gv.Shape, xs[i].Shape) {
			k.Failf("%s%v with index %v dim %d shape %v was accepted but the gradient of operand %d has shape %v (%v)", in.Op, shapesOf(xs), in.Index, in.Dim, in.Shape, i, gv, e)
			return
		}
		for _, v := range gv.Data {
			if v != v || v-v != 0 {
				k.Failf("%s%v with index %v dim %d was accepted but the gradient of operand %d is not finite: %v", in.Op, shapesOf(xs), in.Index, in.Dim, i, gv.Data)
				return
			}
		}
	}
}

// c02Rearmed: a tensor is first an UNTRACKED constant of an application whose graph is back-propagated, then it is made a tracked leaf
// (ResetGradContext(true) - nothing tracked and not yet back-propagated depends on it) and the SAME single-operand operation is applied
// to it again: the second application is an ordinary application on a tracked operand.
func c02Rearmed(k *fw.K) {
	r := k.Rng
	shape := RandShape(r, 1, 3, 3)
	rank := len(shape)
	uv := Shuffled(r, Unique(r, shape, 0.3, 2))
	var ins []ref.Instr
	for _, op := range []string{"tanh", "exp", "sin"} {
		ins = append(ins, ref.Instr{Op: op})
	}
	ins = append(ins, ref.Instr{Op: "scale", F: -1.5}, ref.Instr{Op: "pow", F: 2}, ref.Instr{Op: "reshape", Shape: []int{len(uv.Data)}},
		ref.Instr{Op: "flatten", Dim: r.Intn(rank)}, ref.Instr{Op: "unsqueeze", Dim: r.Intn(rank + 1)}, ref.Instr{Op: "slice"},
		ref.Instr{Op: "slice", Index: []ref.Range{{From: 0, To: 1}}}, ref.Instr{Op: "sumalong", Dim: r.Intn(rank)}, ref.Instr{Op: "meanalong", Dim: r.Intn(rank)})
	if rank >= 2 {
		ins = append(ins, ref.Instr{Op: "transpose"}, ref.Instr{Op: "transpose"})
	}
	if d := r.Intn(rank); fibresSeparated(uv, d, 1e-2) {
		ins = append(ins, ref.Instr{Op: "maxalong", Dim: d})
	}
	in := ins[r.Intn(len(ins))]
	u := rt.MustLeaf(uv, false)
	k.Case = gcase{In: in, Ops: []*ref.T{uv}, Tracked: []bool{true}}
	k.Key("rearmed-constant/%s/%s", in.Op, shapeKey(shape))
	k.Count("constants_re_armed_between_two_applications", 1)
	y, err := ref.Apply(in, []*ref.T{uv})
	if err != nil {
		k.Failf("harness: %v", err)
		return
	}
	// application 1: u is a constant; the result is consumed by a tracked multiplication that is back-propagated
	wv := Shuffled(r, Unique(r, y.Shape, 0.5, 2))
	w := rt.MustLeaf(wv, true)
	if p := call(func() {
		var v, z tensor.Tensor
		if v, err = rt.Exec(in, []tensor.Tensor{u}); err == nil {
			if z, err = v.Mul(w); err == nil {
				err = tensor.BackPropagate(z)
			}
		}
	}); p != nil || err != nil {
		k.Failf("%s on an untracked constant inside a back-propagated graph: panic=%v err=%v", in.Op, p, err)
		return
	}
	if e := rt.Compare(w.Gradient(), y, 1e-12, 1e-12, nil, 0); e != nil {
		k.Failf("%s(constant) * w: gradient of w: %v", in.Op, e)
		return
	}
	if u.Gradient() != nil {
		k.Failf("%s: the untracked constant received a gradient", in.Op)
		return
	}
	// application 2: the same object, now a tracked leaf
	u.ResetGradContext(true)
	g := randG(k, y.Shape)
	var v2 tensor.Tensor
	if p := call(func() {
		if v2, err = rt.Exec(in, []tensor.Tensor{u}); err == nil {
			err = weightedBackprop(v2, g)
		}
	}); p != nil || err != nil {
		k.Failf("%s on a tensor that was re-armed after serving as a constant: panic=%v err=%v", in.Op, p, err)
		return
	}
	if e := rt.Compare(v2, y, 1e-12, 1e-12, nil, 0); e != nil {
		k.Failf("%s on a tensor that was re-armed after serving as a constant: forward value: %v", in.Op, e)
		return
	}
	gr := u.Gradient()
	if gr == nil {
		k.Failf("%s applied to a tensor that served as an untracked constant of an earlier, back-propagated application and was then made a tracked leaf: no gradient", in.Op)
		return
	}
	got, err := rt.Read(gr)
	if err != nil {
		k.Failf("%s: gradient unreadable: %v", in.Op, err)
		return
	}
	if e := gradClose(got, ref.VJP(in, []*ref.T{uv}, y, g, ref.RuleSum)[0]); e != nil {
		k.Failf("%s applied to a re-armed former constant: gradient: %v", in.Op, e)
	}
}

func c02Reuse(k *fw.K) {
	shape := RandShape(k.Rng, 0, 3, 3)
	ops := []string{"elmax", "elmin", "add", "sub", "mul", "div", "patch"}
	if len(shape) >= 1 {
		ops = append(ops, "concat", "dot")
	}
	op := ops[k.Rng.Intn(len(ops))]
	in := ref.Instr{Op: op}
	uv := Shuffled(k.Rng, Unique(k.Rng, shape, 2.5, 4)) // away from the tracked operands' values: no ties for ElMax / ElMin, no small divisors
	u := rt.MustLeaf(uv, false)
	constFirst := k.Rng.Intn(2) == 0
	k.Key("reuse/%s/%s/%v", op, shapeKey(shape), constFirst)
	k.Count("constant_operand_reused_cases", 1)
	for round := 0; round < 2+k.Rng.Intn(2); round++ {
		tv := Shuffled(k.Rng, Unique(k.Rng, shape, 0.2, 2))
		xs, leaves, ti := []*ref.T{tv, uv}, []tensor.Tensor{rt.MustLeaf(tv, true), u}, 0
		if constFirst {
			xs, leaves, ti = []*ref.T{uv, tv}, []tensor.Tensor{u, leaves[0]}, 1
		}
		k.Case = gcase{In: in, Ops: xs, Tracked: []bool{ti == 0, ti == 1}}
		y, err := ref.Apply(in, xs)
		if err != nil {
			k.Failf("harness: %v", err)
			return
		}
		g := randG(k, y.Shape)
		var ry tensor.Tensor
		if p := call(func() {
			if ry, err = rt.Exec(in, leaves); err == nil {
				err = weightedBackprop(ry, g)
			}
		}); p != nil || err != nil {
			k.Failf("%s, application %d over the same constant operand object: panic=%v err=%v", op, round+1, p, err)
			return
		}
		gr := leaves[ti].Gradient()
		if gr == nil {
			k.Failf("%s, application %d over a constant operand object that an earlier, already back-propagated application used: the fresh tracked operand received no gradient", op, round+1)
			return
		}
		got, err := rt.Read(gr)
		if err != nil {
			k.Failf("%s: gradient unreadable: %v", op, err)
			return
		}
		if e := gradClose(got, ref.VJP(in, xs, y, g, ref.RuleSum)[ti]); e != nil {
			k.Failf("%s, application %d over the same constant operand object: gradient of the tracked operand: %v", op, round+1, e)
			return
		}
		if u.Gradient() != nil {
			k.Failf("%s: the untracked operand received a gradient", op)
			return
		}
	}
}
