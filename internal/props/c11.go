package props

import (
	"fmt"
	"math"

	"github.com/sahandsafizadeh/qeep/component/initializers"
	"github.com/sahandsafizadeh/qeep/component/layers"
	"github.com/sahandsafizadeh/qeep/component/optimizers"
	"github.com/sahandsafizadeh/qeep/tensor"

	"qeepverif/internal/fw"
	"qeepverif/internal/ref"
	"qeepverif/internal/rt"
)

// C11 — a training loop follows the gradient-descent trajectory of its loss.

func init() {
	fw.Register(&fw.Prop{
		ID: "C11",
		Rule: "training-history monitor: models FC(D->O) -> {none, Relu, LeakyRelu(m), Sigmoid, Tanh, Softmax(1)} -> {MSE, BCE, CE} (rank-1 losses fed through Flatten(0); BCE/CE only behind Sigmoid/Softmax), D,O in 1..5, batch 1..6, learning rates {default, 1e-3, 0.05, 0.5, 0, -0.05}, random non-uniform initial W,B and data (fresh batches, reused values, or the very same data/label tensor objects fed at every step with a fresh context in between), a 'dead Relu' variant whose gradients are exactly zero; ONE layer / activation / loss / optimizer object per history; 2..12 steps of Forward / Compute / BackPropagate / Update on every Weights() pointer / ResetGradContext(true); optional extra forward passes between steps. " +
			"Per step (no drift: the oracle starts from the weights observed before the step): loss value = reference loss; weights after the step = w - lr*dLoss/dw from the reference tape; shapes constant; after the reset every weight has a nil gradient, is tracked and not spent. Variant: the reset is omitted on one weight at a random step - the next Update of that weight must return an error and leave the pointer untouched. " +
			"A step whose weights equal the tape run with BroadcastRule=Avg instead (and the model has batch > 1 or a Softmax wider than 1) is attributed to the recorded finding; models with batch 1 and no wide Softmax have no expansion and are decided exactly. " +
			"Non-trivial: >= 2 steps completed; distinct = (D, O, batch, activation, loss, lr, variant, steps). Later additions: variants vary-batch (batch size changes between steps) and exact-fit (dyadic data, residuals exactly 0); Weights() pointers held from before the first step in half of the histories; data and label tensors tracked at random; every config struct overwritten right after construction; every third loss object is the zero value of its struct.",
		Assumptions: []string{"weight comparison: |r-e| <= 1e-10*(1+max|e|) + 1e-9*max(|r|,|e|); loss within the C12 tolerance"},
		FloorQuick:  4000, FloorThor: 100000,
		Run: runC11,
	})
}

type c11model struct {
	D, O, B  int
	Act      string
	M        float64
	Loss     string
	LR       string
	lr       float64
	conf     *optimizers.SGDConfig
	Steps    int
	Variant  string // "plain" | "omit-reset" | "extra-forward" | "dead-relu" | "reuse-batch"
	OmitStep int
	OmitW    int
}

// c11Sweep: a hyper-parameter sweep. ONE optimizer and ONE layer variable (`fc = *newFC`: the parameters of every model live at the
// same two addresses) serve several models of different widths, each trained for a few steps. Every update follows w <- w - lr * g
// with g the gradient the back-propagation left on that weight (read just before the update).
func c11Sweep(k *fw.K) {
	r := k.Rng
	lr := []float64{0.05, 0.5, 0.01}[r.Intn(3)]
	opt := optimizers.NewSGD(&optimizers.SGDConfig{LearningRate: lr})
	D := 1 + r.Intn(3)
	var fc layers.FC
	widths := []int{1 + r.Intn(4), 1 + r.Intn(4), 1 + r.Intn(4)}
	k.Case = map[string]any{"family": "width sweep with one optimizer and one layer variable", "features": D, "widths": widths, "lr": lr}
	k.Key("sweep/%d/%v", D, widths)
	k.Count("width_sweeps", 1)
	loss := lossObj("mse")
	for mi, O := range widths {
		built, err := layers.NewFC(&layers.FCConfig{Inputs: D, Outputs: O})
		if err != nil || built == nil {
			k.Failf("NewFC(%d -> %d): %v", D, O, err)
			return
		}
		fc = *built // the same variable: Weights() of every model points at the same two fields
		for step := 0; step < 1+r.Intn(3); step++ {
			x := rt.MustLeaf(RandT(r, []int{1, D}, -1, 1), false)
			t := rt.MustLeaf(RandT(r, []int{O}, -1, 1), false)
			var perr error
			if p := call(func() {
				y, e := fc.Forward(x)
				if e != nil {
					perr = e
					return
				}
				if y, e = y.Tanh().Flatten(0); e != nil {
					perr = e
					return
				}
				l, e := loss.Compute(y, t)
				if e != nil {
					perr = e
					return
				}
				perr = tensor.BackPropagate(l)
			}); p != nil || perr != nil {
				k.Failf("model %d (width %d) step %d: forward / backward failed: panic=%v err=%v", mi, O, step, p, perr)
				return
			}
			for wi, wp := range fc.Weights() {
				g := (*wp.Value).Gradient()
				if g == nil {
					k.Failf("model %d (width %d) step %d: weight %d received no gradient", mi, O, step, wi)
					return
				}
				wv, e1 := rt.Read(*wp.Value)
				gv, e2 := rt.Read(g)
				if e1 != nil || e2 != nil {
					k.Failf("model %d step %d: weight / gradient unreadable (%v %v)", mi, step, e1, e2)
					return
				}
				var uerr error
				if p := call(func() { uerr = opt.Update(wp.Value) }); p != nil || uerr != nil {
					k.Failf("model %d of a sweep (width %d, after widths %v) step %d: Update(weight %d) through the shared optimizer failed: panic=%v err=%v", mi, O, widths[:mi], step, wi, p, uerr)
					return
				}
				nv, e3 := rt.Read(*wp.Value)
				if e3 != nil || !ref.SameShape(nv.Shape, []int{O}) {
					k.Failf("model %d (width %d) step %d: weight %d after the update has shape %v (%v)", mi, O, step, wi, nv, e3)
					return
				}
				for i := range nv.Data {
					if !sgdStepValue(nv.Data[i], wv.Data[i], lr, gv.Data[i]) {
						k.Failf("model %d (width %d) step %d: weight %d element %d = %v, expected w - lr*g = %v - %v*%v", mi, O, step, wi, i, nv.Data[i], wv.Data[i], lr, gv.Data[i])
						return
					}
				}
				(*wp.Value).ResetGradContext(true)
			}
		}
	}
}

func runC11(c *fw.Ctx) {
	for i := 0; i < c.Pick(8000, 300000); i++ {
		c.Case(func(k *fw.K) { c11History(k, c.Quick()) })
	}
	for i := 0; i < c.Pick(400, 8000); i++ {
		c.Case(func(k *fw.K) { c11Sweep(k) })
	}
}

func c11History(k *fw.K, quick bool) {
	r := k.Rng
	m := c11model{D: 1 + r.Intn(5), O: 1 + r.Intn(5), B: 1 + r.Intn(6)}
	if r.Intn(3) == 0 {
		m.B = 1 // exact configurations are over-sampled
	}
	m.Act = []string{"none", "relu", "leakyrelu", "sigmoid", "tanh", "softmax"}[r.Intn(6)]
	m.M = []float64{0.01, 0.2, 0, -0.1, 1.5, 2, 1}[r.Intn(7)]
	switch m.Act {
	case "sigmoid":
		m.Loss = []string{"mse", "bce", "ce"}[r.Intn(3)]
	case "softmax":
		m.Loss = []string{"mse", "ce", "bce"}[r.Intn(3)]
	default:
		m.Loss = "mse"
	}
	lrs := []struct {
		n string
		c *optimizers.SGDConfig
		v float64
	}{{"default", nil, 0.01}, {"1e-3", &optimizers.SGDConfig{LearningRate: 1e-3}, 1e-3}, {"0.05", &optimizers.SGDConfig{LearningRate: 0.05}, 0.05},
		{"0.5", &optimizers.SGDConfig{LearningRate: 0.5}, 0.5}, {"0", &optimizers.SGDConfig{LearningRate: 0}, 0}, {"-0.05", &optimizers.SGDConfig{LearningRate: -0.05}, -0.05},
		{"1.5", &optimizers.SGDConfig{LearningRate: 1.5}, 1.5}, {"4", &optimizers.SGDConfig{LearningRate: 4}, 4}}
	l := lrs[r.Intn(len(lrs))]
	if l.v > 1 && (m.Act == "softmax" || m.Act == "sigmoid") {
		// rates above 1 (legal, and the step is lr * gradient all the same) drive the weights far out within a few steps: they are used with
		// the activations that are specified for every finite input
		m.Act, m.Loss = []string{"none", "tanh", "relu"}[r.Intn(3)], "mse"
	}
	m.LR, m.conf, m.lr = l.n, l.c, l.v
	m.Steps = 2 + r.Intn(11)
	if quick {
		m.Steps = 2 + r.Intn(5)
	}
	m.Variant = []string{"plain", "vary-batch", "omit-reset", "extra-forward", "reuse-batch", "dead-relu", "exact-fit", "large-logits", "saturated-tanh", "non-finite-feature", "confident-wrong"}[r.Intn(11)]
	if m.Variant == "confident-wrong" {
		// every sample is predicted with confidence and is wrong: the probability of the observed class is 1e-12..1e-8, still inside the
		// clipping interval of the loss, so d loss / d logit = p - t = -1 and the parameters move by lr * x / N per sample
		m.Act, m.Loss = "sigmoid", "bce"
	}
	if m.Variant == "saturated-tanh" {
		// every unit deep in the plateau of Tanh (|z| = 19.5..24: tanh rounds to +-1, its derivative 1/cosh^2 is 1e-17..1e-21) under
		// targets of the size of 1e5..1e6: the parameters still move by a representable amount at every step
		m.Act, m.Loss = "tanh", "mse"
		m.LR, m.conf, m.lr = "0.5", &optimizers.SGDConfig{LearningRate: 0.5}, 0.5
	}
	if m.Variant == "non-finite-feature" {
		// zero weights meet an infinite feature: W*sum(x) = 0*Inf is NaN, and so are the loss, both gradients and both parameters
		// after the step (no activation, squared error: nothing in between can absorb a NaN)
		m.Act, m.Loss = "none", "mse"
	}
	if m.Variant == "large-logits" { // samples of ONE batch whose logits sit at opposite ends of the range Softmax is specified for (|x| <= 700)
		m.Act, m.Loss = "softmax", []string{"ce", "mse"}[r.Intn(2)]
		if m.B < 2 {
			m.B = 2 + r.Intn(3)
		}
		// a rate small enough for the logits to stay inside Softmax's domain (|x| <= 700) over the whole history
		m.LR, m.conf, m.lr = "1e-6", &optimizers.SGDConfig{LearningRate: 1e-6}, 1e-6
	}
	if m.Variant == "exact-fit" { // dyadic data: some residuals are exactly 0 from the first step on
		m.Act, m.Loss, m.B = "none", "mse", 1 // no activation: an exact 0 pre-activation would sit on Relu's non-differentiable point
	}
	if m.Variant == "dead-relu" {
		m.Act, m.Loss = "relu", "mse"
	}
	if m.Variant == "omit-reset" {
		m.OmitStep, m.OmitW = r.Intn(m.Steps-1), r.Intn(2)
	}
	w0, b0 := RandT(r, []int{m.O}, -1, 1), RandT(r, []int{m.O}, -1, 1)
	if m.Variant == "exact-fit" {
		for i := range w0.Data {
			w0.Data[i], b0.Data[i] = float64(r.Intn(9)-4)/4, float64(r.Intn(9)-4)/4
		}
	}
	if m.Variant == "large-logits" {
		for i := range w0.Data {
			w0.Data[i], b0.Data[i] = 0.9+0.2*r.Float64(), r.Float64()*2-1
			if r.Intn(2) == 0 {
				w0.Data[i] = -w0.Data[i]
			}
		}
	}
	if m.Variant == "dead-relu" {
		for i := range w0.Data {
			w0.Data[i], b0.Data[i] = -math.Abs(w0.Data[i])-0.1, -math.Abs(b0.Data[i])-0.1
		}
	}
	satSign := []float64{1, -1}[r.Intn(2)]
	if m.Variant == "saturated-tanh" {
		for i := range w0.Data { // the features of a sample sum to 1 (see newBatch): z = w + b
			w0.Data[i], b0.Data[i] = (19.5+4*r.Float64())*[]float64{1, -1}[r.Intn(2)], 0.4*r.Float64()
			if r.Intn(3) == 0 {
				// a unit far beyond the plateau's edge (|z| = 400..650: cosh^2 is beyond the range, the derivative is exactly 0 in every
				// evaluation order): its parameters stay where they are, and the other units of the layer are not disturbed
				w0.Data[i] = (400 + 250*r.Float64()) * []float64{1, -1}[r.Intn(2)]
			}
		}
	}
	if m.Variant == "non-finite-feature" {
		for i := range w0.Data {
			w0.Data[i] = 0
		}
	}
	if m.Variant == "confident-wrong" {
		for i := range w0.Data { // the features of a sample sum to 1 (see newBatch): z = w + b = -26.5..-19.5, the label is 1
			w0.Data[i], b0.Data[i] = -(20 + 6*r.Float64()), 0.5*r.Float64()
		}
	}
	trace := []map[string]any{}
	defer func() {
		k.Case = map[string]any{"model": fmt.Sprintf("FC(%d->%d) -> %s -> %s, batch %d, lr %s, variant %s", m.D, m.O, m.Act, m.Loss, m.B, m.LR, m.Variant), "W0": w0.Data, "B0": b0.Data, "steps": trace}
	}()
	if k.Index%25 == 0 {
		defer k.Sample()
	}

	sharedFull := m.Variant == "plain" && r.Intn(3) == 0
	if sharedFull {
		if q := r.Intn(4); q < 2 {
			w0.Data[0] = float64(q) // the two constants that have constructors of their own: 0 and 1
		}
		for i := range w0.Data {
			w0.Data[i], b0.Data[i] = w0.Data[0], w0.Data[0]
		}
		k.Count("histories_with_one_Full_initializer_for_both_parameters", 1)
	}
	var fc *layers.FC
	var err error
	if p := call(func() {
		conf := &layers.FCConfig{Inputs: m.D, Outputs: m.O, Initializers: map[string]layers.Initializer{"Weight": fixedInit{w0}, "Bias": fixedInit{b0}}}
		if sharedFull { // ONE library initializer instance serves both parameters (same shape [Outputs])
			full := initializers.NewFull(&initializers.FullConfig{Value: w0.Data[0]})
			conf.Initializers = map[string]layers.Initializer{"Weight": full, "Bias": full}
		}
		fc, err = layers.NewFC(conf)
		conf.Inputs, conf.Outputs = 99, 99 // the caller's config and its map are overwritten after construction
		conf.Initializers["Weight"], conf.Initializers["Bias"] = nil, nil
	}); p != nil || err != nil {
		k.Failf("NewFC: panic=%v err=%v", p, err)
		return
	}
	fc, how, originalUntouched := fcVariant(k, fc)
	k.Count("histories_on_a_layer_obtained_as_"+how, 1)
	defer func() {
		if msg := originalUntouched(); msg != "" && !k.Failed() {
			k.Failf("%s", msg)
		}
	}()
	if m.Variant == "plain" && r.Intn(4) == 0 {
		// the bias starts as a tensor DERIVED from the weight (tied initialisation) and is then made a parameter of its own
		// with ResetGradContext(true): from then on it is a fresh leaf, no gradient may flow from it into the weight
		if ws := fc.Weights(); len(ws) == 2 && ws[0].Value != nil && ws[1].Value != nil {
			d := (*ws[0].Value).Scale(-0.5)
			d.ResetGradContext(true)
			*ws[1].Value = d
			k.Count("histories_with_a_bias_derived_from_the_weight_and_re_armed", 1)
		}
	}
	var act interface {
		Forward(...tensor.Tensor) (tensor.Tensor, error)
	}
	actIn := ref.Instr{}
	if m.Act != "none" {
		for _, sp := range actSpecs(2) {
			switch {
			case m.Act == "relu" && sp.name == "Relu", m.Act == "sigmoid" && sp.name == "Sigmoid", m.Act == "tanh" && sp.name == "Tanh",
				m.Act == "softmax" && sp.name == "Softmax(1)", m.Act == "leakyrelu" && sp.name == fmt.Sprintf("LeakyRelu(%g)", m.M):
				act, err = sp.mk()
				actIn = sp.in
			}
		}
		if m.Act == "leakyrelu" && act == nil { // slopes not in the C14 list
			sp := actSpecs(2)[3]
			_ = sp
		}
		if act == nil {
			// build directly
			in := ref.Instr{Op: "leakyrelu", F: m.M}
			actIn = in
			act, err = leakyOf(m.M)
		}
		if err != nil {
			k.Failf("activation constructor: %v", err)
			return
		}
	}
	loss := lossObj(m.Loss)
	var opt *optimizers.SGD
	if m.conf == nil {
		opt = optimizers.NewSGD(nil)
	} else {
		conf := *m.conf
		opt = optimizers.NewSGD(&conf)
		conf.LearningRate = 123 // the caller's config is overwritten after construction
	}
	newBatch := func() (*ref.T, *ref.T) {
		if m.Variant == "vary-batch" {
			m.B = 1 + r.Intn(6) // e.g. a smaller last batch
		}
		x := RandT(r, []int{m.B, m.D}, -1, 1)
		if m.Variant == "dead-relu" {
			x = RandT(r, []int{m.B, m.D}, 0.1, 1)
		}
		if m.Variant == "saturated-tanh" || m.Variant == "confident-wrong" {
			for b := 0; b < m.B; b++ {
				rest := 1.
				for d := 0; d < m.D-1; d++ {
					x.Data[b*m.D+d] = rest * (0.1 + 0.5*r.Float64())
					rest -= x.Data[b*m.D+d]
				}
				x.Data[b*m.D+m.D-1] = rest
			}
		}
		if m.Variant == "non-finite-feature" {
			x.Data[r.Intn(len(x.Data))] = []float64{math.Inf(1), math.Inf(-1)}[r.Intn(2)]
		}
		if m.Variant == "large-logits" {
			for b := 0; b < m.B; b++ {
				sum := (300 + 300*r.Float64()) * []float64{1, -1}[(b+r.Intn(2))%2]
				if b < 2 {
					sum = []float64{550, -550}[b] // at least two samples more than 708 apart
				}
				for d := 0; d < m.D; d++ {
					x.Data[b*m.D+d] = sum / float64(m.D)
				}
			}
		}
		ts := []int{m.B * m.O}
		if m.Loss == "ce" {
			ts = []int{m.B, m.O}
		}
		t := ref.Zeros(ts)
		for i := range t.Data {
			switch r.Intn(3) {
			case 0:
				t.Data[i] = 1
			case 1:
				t.Data[i] = 0.05 + 0.9*r.Float64()
			}
			if m.Loss == "mse" {
				t.Data[i] = r.Float64()*2 - 1
			}
			if m.Variant == "confident-wrong" {
				t.Data[i] = 1
			}
			if m.Variant == "saturated-tanh" {
				t.Data[i] = satSign * (1e5 + 9e5*r.Float64()) // one sign: the terms of a parameter's gradient do not cancel
			}
		}
		if m.Variant == "exact-fit" {
			// multiples of 1/8 keep every product and sum exact; about half of the outputs are fitted exactly
			for i := range x.Data {
				x.Data[i] = float64(1+r.Intn(8)) / 8
			}
			cw, e1 := rt.Read(fc.Weight)
			cb, e2 := rt.Read(fc.Bias)
			if e1 == nil && e2 == nil {
				y, _ := ref.FC(x, cw, cb)
				for i := range t.Data {
					t.Data[i] = float64(r.Intn(9)-4) / 4
					if r.Intn(2) == 0 {
						t.Data[i] = y.Data[i]
						if m.Act == "relu" && t.Data[i] < 0 {
							t.Data[i] = 0
						}
					}
				}
			}
		}
		return x, t
	}
	x, t := newBatch()
	var held []layers.Weight
	if r.Intn(2) == 0 { // the Weights() pointers are taken once, before the first step, and kept
		held = fc.Weights()
		k.Count("histories_with_pointers_held_from_the_start", 1)
	}
	completed := 0
	omitted := -1
	monitored := (m.Variant == "plain" || m.Variant == "vary-batch" || m.Variant == "reuse-batch") && r.Intn(3) == 0
	glue := 0
	if r.Intn(4) == 0 {
		glue = 1 + r.Intn(2)
		k.Count("histories_with_shape_neutral_glue_before_the_loss", 1)
	}
	swapped := m.Loss == "mse" && r.Intn(5) == 0
	if swapped {
		k.Count("histories_with_the_mse_arguments_swapped", 1)
	}
	// "reuse-batch": in half of those histories the very same data / label tensor OBJECTS are fed at every step
	// (full-batch training), given a fresh context between steps exactly like the weights
	var xObj, tObj tensor.Tensor
	sameObjects := m.Variant == "reuse-batch" && r.Intn(2) == 0
	objTrack := r.Intn(4)
	for step := 0; step < m.Steps; step++ {
		if m.Variant != "reuse-batch" && step > 0 {
			x, t = newBatch()
		}
		if m.Variant == "extra-forward" && r.Intn(2) == 0 {
			if p := call(func() { _, err = fc.Forward(rt.MustLeaf(RandT(r, []int{m.B, m.D}, -1, 1), false)) }); p != nil || err != nil {
				k.Failf("step %d: extra forward pass failed: panic=%v err=%v", step, p, err)
				return
			}
		}
		ws := held
		if ws == nil {
			ws = fc.Weights()
		}
		if len(ws) != 2 {
			k.Failf("Weights() returned %d entries", len(ws))
			return
		}
		wBefore, e1 := rt.Read(*ws[0].Value)
		bBefore, e2 := rt.Read(*ws[1].Value)
		if e1 != nil || e2 != nil || !ref.SameShape(wBefore.Shape, []int{m.O}) || !ref.SameShape(bBefore.Shape, []int{m.O}) {
			k.Failf("step %d: weights unreadable or their shapes changed: %v %v", step, e1, e2)
			return
		}
		// ---- reference for this step, from the observed weights ----
		p := ref.Prog{
			{Op: "leaf", Shape: x.Shape, Data: x.Data},
			{Op: "leaf", Shape: wBefore.Shape, Data: wBefore.Data, Tracked: true},
			{Op: "leaf", Shape: bBefore.Shape, Data: bBefore.Data, Tracked: true},
			{Op: "leaf", Shape: t.Shape, Data: t.Data},
			{Op: "fc", In: []int{0, 1, 2}},
		}
		if m.Act != "none" {
			in := actIn
			in.In = []int{len(p) - 1}
			p = append(p, in)
		}
		if m.Loss != "ce" {
			p = append(p, ref.Instr{Op: "flatten", In: []int{len(p) - 1}, Dim: 0})
		}
		p = append(p, ref.Instr{Op: m.Loss, In: []int{len(p) - 1, 3}})
		root := len(p) - 1
		vals, err := p.Eval()
		if err != nil {
			k.Failf("harness: %v", err)
			return
		}
		gSum := p.Grad(vals, root, nil, ref.RuleSum)
		gAvg := p.Grad(vals, root, nil, ref.RuleAvg)
		// ---- the real step ----
		var l tensor.Tensor
		trackData := r.Intn(4) // the data and label tensors of a step may themselves be tracked
		xIn, tIn := rt.MustLeaf(x, trackData&1 != 0), rt.MustLeaf(t, trackData&2 != 0)
		if sameObjects {
			if xObj == nil {
				xObj, tObj = rt.MustLeaf(x, objTrack&1 != 0), rt.MustLeaf(t, objTrack&2 != 0)
			} else {
				xObj.ResetGradContext(objTrack&1 != 0)
				tObj.ResetGradContext(objTrack&2 != 0)
			}
			xIn, tIn = xObj, tObj
			k.Count("steps_fed_the_same_data_objects", 1)
		}
		stage := "Forward"
		if pn := call(func() {
			var y tensor.Tensor
			y, err = fc.Forward(xIn)
			if err != nil {
				return
			}
			if act != nil {
				stage = "activation"
				if y, err = act.Forward(y); err != nil {
					return
				}
			}
			if m.Loss != "ce" {
				stage = "Flatten"
				if y, err = y.Flatten(0); err != nil {
					return
				}
			}
			if glue > 0 { // shape glue that changes nothing: Reshape to the tensor's own shape, Flatten of an already flat tensor
				stage = "shape-neutral glue"
				switch {
				case glue == 1:
					y, err = y.Reshape(y.Shape())
				case len(y.Shape()) == 2:
					y, err = y.Flatten(1)
				default:
					y, err = y.Flatten(0)
				}
				if err != nil {
					return
				}
			}
			stage = "loss"
			if swapped {
				l, err = loss.Compute(tIn, y) // the squared error is symmetric in its arguments
			} else {
				l, err = loss.Compute(y, tIn)
			}
			if err != nil {
				return
			}
			if monitored {
				// read-outs of the step, taken before the back-propagation and never back-propagated themselves: tracked
				// consumers of the prediction, of the loss and of the weights that lie outside the graph of the loss
				stage = "monitoring read-outs"
				_ = y.Scale(2)
				_ = l.Scale(1)
				if m.Loss != "ce" {
					if mo, e := lossObj("mse").Compute(y, tIn); e != nil || mo == nil {
						err = fmt.Errorf("a second loss over the prediction: %v", e)
						return
					}
				} else {
					_ = y.Exp()
				}
				if _, e := (*ws[0].Value).Mul(*ws[1].Value); e != nil {
					err = e
					return
				}
				k.Count("steps_with_monitoring_read_outs", 1)
			}
			stage = "BackPropagate"
			err = tensor.BackPropagate(l)
		}); pn != nil || err != nil {
			k.Failf("step %d: %s failed: panic=%v err=%v", step, stage, pn, err)
			return
		}
		lv, err := l.At()
		if err != nil {
			k.Failf("step %d: loss unreadable: %v", step, err)
			return
		}
		predVal := vals[root-1]
		tgt := vals[3]
		// the prediction itself is computed in floating point on both sides: each pre-activation carries a rounding error of
		// about (D+2) ulps of |W|*sum|x| + |B| (all activations here are 1-Lipschitz up to the slope), which the squared error
		// turns into 2|p-t|*delta + delta^2 per element. Without this term a diverging run (weights 1e8 and beyond) whose
		// reference residual is exactly 0 has no tolerance at all.
		tolPred := 0.
		if m.Loss == "mse" {
			for i := range predVal.Data {
				bi, o := i/m.O, i%m.O
				sx := 0.
				for d := 0; d < m.D; d++ {
					sx += math.Abs(x.Data[bi*m.D+d])
				}
				delta := 2.3e-16 * float64(m.D+2) * (math.Abs(wBefore.Data[o])*sx + math.Abs(bBefore.Data[o])) * math.Max(1, math.Abs(m.M))
				tolPred += (2*math.Abs(predVal.Data[i]-tgt.Data[i])*delta + delta*delta) / float64(len(predVal.Data))
			}
		}
		if !ref.Close(lv, vals[root].Data[0], lossTol(m.Loss, predVal, tgt)+tolPred, 1e-9) {
			k.Failf("step %d: loss = %v, the reference loss at the current weights is %v", step, lv, vals[root].Data[0])
			return
		}
		rec := map[string]any{"step": step, "loss": lv, "W": wBefore.Data, "B": bBefore.Data}
		trace = append(trace, rec)
		// ---- updates ----
		for wi, wp := range ws {
			before := *wp.Value
			if m.Variant == "saturated-tanh" {
				// the step is far below the resolution of the parameter (1e-11 of 20): the gradient itself is compared, element by
				// element and relatively (its terms have one sign)
				g := before.Gradient()
				if g == nil {
					k.Failf("step %d: weight %d has no gradient", step, wi)
					return
				}
				got, err := rt.Read(g)
				if err != nil {
					k.Failf("step %d: gradient of weight %d unreadable: %v", step, wi, err)
					return
				}
				if e := rt.CompareRef(got, gSum[1+wi], 0, 1e-6, nil, 0); e != nil {
					if rt.CompareRef(got, gAvg[1+wi], 0, 1e-6, nil, 0) == nil && m.B > 1 {
						k.Knownf(knownBroadcastMean, "step %d of FC(%d->%d)->tanh->mse batch %d [saturated-tanh]: gradient of weight %d is the one with expanded operands averaged over their copies (%v)", step, m.D, m.O, m.B, wi, e)
					} else {
						k.Failf("step %d of FC(%d->%d)->tanh->mse batch %d [saturated-tanh: pre-activations of magnitude 19.5..24, targets of magnitude 1e5..1e6]: gradient of weight %d differs from dLoss/dw: %v", step, m.D, m.O, m.B, wi, e)
						return
					}
				}
				k.Count("saturated_tanh_gradients_compared", 1)
			}
			var uerr error
			if pn := call(func() { uerr = opt.Update(wp.Value) }); pn != nil {
				k.Failf("step %d: Update(weight %d): PANIC: %v", step, wi, pn)
				return
			}
			if omitted >= 0 {
				// the reset was omitted in the previous step: the update of that weight must be refused
				if wi == omitted {
					if uerr == nil {
						k.Failf("step %d: ResetGradContext was omitted on weight %d after the previous step, yet Update returned no error (silently training on stale state)", step, wi)
						return
					}
					if *wp.Value != before {
						k.Failf("step %d: Update returned an error but replaced weight %d", step, wi)
						return
					}
				} else if uerr != nil && *wp.Value != before {
					k.Failf("step %d: Update returned an error but replaced weight %d", step, wi)
					return
				} else if uerr == nil {
					// this step's forward pass used a spent parameter (weight `omitted`), so its loss was computed from a spent tensor: it is
					// untracked, its back-propagation changes nothing, and this re-armed weight cannot hold a gradient to step with
					k.Failf("step %d: ResetGradContext was omitted on weight %d after the previous step, yet weight %d was given a gradient and updated: the loss of a forward pass over a spent parameter cannot be tracked", step, omitted, wi)
					return
				}
				continue
			}
			if uerr != nil {
				k.Failf("step %d: Update(weight %d) failed: %v", step, wi, uerr)
				return
			}
			got, err := rt.Read(*wp.Value)
			if err != nil || !ref.SameShape(got.Shape, []int{m.O}) {
				k.Failf("step %d: weight %d after the update is unreadable or has shape %v (%v)", step, wi, got, err)
				return
			}
			base := []*ref.T{wBefore, bBefore}[wi]
			predict := func(g *ref.T) *ref.T {
				o := base.Clone()
				for i := range o.Data {
					o.Data[i] -= m.lr * g.Data[i]
				}
				return o
			}
			wantSum, wantAvg := predict(gSum[1+wi]), predict(gAvg[1+wi])
			if m.Variant == "large-logits" {
				// with saturated Softmax rows the two halves of dLoss/dlogit (direct and through the normaliser) are huge and cancel;
				// under the recorded Broadcast finding they no longer cancel and the averaged model is not validated in that regime.
				// This variant therefore decides the FORWARD side of every step (the loss above) and that the step is taken with finite values.
				for _, v := range got.Data {
					if math.IsNaN(v) || math.IsInf(v, 0) {
						k.Failf("step %d of FC(%d->%d)->%s->%s batch %d [%s]: weight %d is %v after the step", step, m.D, m.O, m.Act, m.Loss, m.B, m.Variant, wi, got.Data)
						return
					}
				}
				k.Count("steps_decided_on_the_forward_side_only(large logits)", 1)
			} else if e := gradClose(got, wantSum); e != nil {
				expands := m.B > 1 || (m.Act == "softmax" && m.O > 1)
				if expands && gradClose(got, wantAvg) == nil {
					k.Knownf(knownBroadcastMean, "step %d of FC(%d->%d)->%s->%s batch %d: weight %d moved by lr x (gradient with expanded operands averaged over their copies) instead of lr x dLoss/dw (%v)", step, m.D, m.O, m.Act, m.Loss, m.B, wi, e)
				} else {
					k.Failf("step %d of FC(%d->%d)->%s->%s batch %d lr %s [%s]: weight %d after the step differs from w - lr*dLoss/dw: %v", step, m.D, m.O, m.Act, m.Loss, m.B, m.LR, m.Variant, wi, e)
					return
				}
			}
			if m.Variant == "omit-reset" && step == m.OmitStep && wi == m.OmitW {
				continue // reset deliberately omitted
			}
			(*wp.Value).ResetGradContext(true)
			if (*wp.Value).Gradient() != nil {
				k.Failf("step %d: weight %d still has a gradient after ResetGradContext(true)", step, wi)
				return
			}
			if st, ok := tensor.VerifGradState(*wp.Value); ok && (!st.Tracked || st.BPDirty || st.BackEdges != 0) {
				k.Failf("step %d: weight %d after ResetGradContext(true): tracked=%v spent=%v back edges=%d (expected a fresh tracked leaf)", step, wi, st.Tracked, st.BPDirty, st.BackEdges)
				return
			}
		}
		if omitted >= 0 {
			k.Count("omitted_reset_histories", 1)
			completed++
			break
		}
		if m.Variant == "omit-reset" && step == m.OmitStep {
			omitted = m.OmitW
		}
		completed++
		k.Count("steps", 1)
		if m.B == 1 && !(m.Act == "softmax" && m.O > 1) {
			k.Count("steps_decided_exactly_no_expansion", 1)
		}
	}
	if completed >= 2 {
		k.Key("%d/%d/%d/%s/%s/%s/%s/%d", m.D, m.O, m.B, m.Act, m.Loss, m.LR, m.Variant, completed)
	}
	k.Count("histories", 1)
}
