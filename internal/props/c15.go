package props

import (
	"fmt"
	"math"

	"github.com/sahandsafizadeh/qeep/tensor"

	"qeepverif/internal/fw"
	"qeepverif/internal/ref"
	"qeepverif/internal/rt"
)

// C15 — activation gradients equal the derivative of the activation, also in a chain.

func init() {
	fw.Register(&fw.Prop{
		ID: "C15",
		Rule: "gradient monitor of Relu / LeakyRelu(m) / Sigmoid / Tanh / Softmax(Dim): (i) input as a tracked leaf over every shape of rank 0..R (sizes 1..3), every Softmax Dim, slopes {0.01 (nil config), 0, 0.5, 2, -0.3}, input classes {unique reals, exact zeros mixed with non-zeros, |x| up to 700, non-zero values of magnitude 1e-300}, random non-uniform upstream weighting G: the input's gradient must be finite, of the input's shape and equal G x derivative (1/0, 1/m, s(1-s), 1-tanh^2, p_i(g_i - sum_j p_j g_j) along Dim); at an input of exactly 0 (and within the library's equality tolerance 1e-240 of it) Relu/LeakyRelu must lie in the closed interval between the two one-sided values. " +
			"(ii) input as an intermediate of a random upstream tracked program (C01 generator): every tensor of the whole graph is compared with the reference tape. " +
			"Softmax along a dimension of size > 1 goes through an implicit expansion of its normaliser: a failing case is attributed to the recorded finding only if EVERY gradient equals the reference tape run with BroadcastRule=Avg; size-1 Softmax and all other activations have no expansion and must match exactly. " +
			"Non-trivial: >= 2 elements or an upstream program; distinct = (activation, config, shape, value class, variant). Later addition: groups of same-rank shapes that collide under ad-hoc cache keys, back-propagated one after the other in one case." +
			" Round 4: every third activation object first sees a non-finite batch of the same shape.",
		Assumptions: []string{"gradient comparison: |r-e| <= 1e-10*(1+max|e|) + 1e-9*max(|r|,|e|)"},
		FloorQuick:  5000, FloorThor: 15000,
		Run: runC15,
	})
}

func runC15(c *fw.Ctx) {
	// ---- (i) leaf inputs ----
	for _, shape := range Shapes(0, c.Pick(4, 5), 3) {
		for _, sp := range actSpecs(len(shape)) {
			if sp.name == "LeakyRelu(0.01)" || sp.name == "LeakyRelu(1)" {
				continue
			}
			for class := 0; class < 4; class++ {
				shape, sp, class := shape, sp, class
				c.Case(func(k *fw.K) { c15Leaf(k, sp, shape, class) })
			}
		}
	}
	// ---- groups of same-rank shapes that collide under ad-hoc cache keys, back-propagated one after the other in one case ----
	for gi, group := range CollidingShapes {
		for _, name := range []string{"Relu", "Sigmoid", "Tanh", "LeakyRelu(2)", "Softmax(0)"} {
			gi, group, name := gi, group, name
			c.Case(func(k *fw.K) {
				k.Key("colliding/%d/%s", gi, name)
				k.Count("colliding_shape_group_cases", 1)
				for _, shape := range group {
					for _, sp := range actSpecs(len(shape)) {
						if sp.name == name {
							c15Leaf(k, sp, shape, 0)
						}
					}
					if k.Failed() {
						return
					}
				}
			})
		}
	}
	// ---- two activation heads over ONE tracked input, both built before either is back-propagated, one pass per head ----
	for i := 0; i < c.Pick(800, 20000); i++ {
		c.Case(func(k *fw.K) { c15TwoHeads(k) })
	}
	// ---- the same layer object and the same input tensor OBJECT over several rounds, the input re-armed with ResetGradContext(true) after each pass ----
	for i := 0; i < c.Pick(800, 20000); i++ {
		c.Case(func(k *fw.K) { c15Rearmed(k) })
	}
	// ---- saturated inputs (|x| 8..19 for Tanh, 8..30 for Sigmoid) under an upstream weighting of the size of 1/derivative: the
	// product is an ordinary number; a derivative formed by cancellation (1 - y*y) has lost its digits there ----
	for i := 0; i < c.Pick(300, 6000); i++ {
		c.Case(func(k *fw.K) {
			r := k.Rng
			shape := RandShape(r, 0, 2, 3)
			var sp actSpec
			for _, q := range actSpecs(len(shape)) {
				if (q.in.Op == "tanh" && i%2 == 0) || (q.in.Op == "sigmoid" && i%2 == 1) {
					sp = q
				}
			}
			x, g := ref.Zeros(shape), ref.Zeros(shape)
			for e := range x.Data {
				sign := []float64{1, -1}[r.Intn(2)]
				var d float64
				if sp.in.Op == "tanh" {
					x.Data[e] = sign * (8 + 11*r.Float64())
					c := math.Cosh(x.Data[e])
					d = 1 / (c * c)
				} else {
					x.Data[e] = sign * (8 + 22*r.Float64())
					if r.Intn(4) == 0 {
						// |x| = 355.2..357.5: s(1-s) = 2.5e-155 is an ordinary double although e^|x| squared is beyond the range
						x.Data[e] = sign * (355.2 + 2.3*r.Float64())
					}
					ex := math.Exp(-math.Abs(x.Data[e]))
					d = ex / ((1 + ex) * (1 + ex))
				}
				g.Data[e] = (0.5 + r.Float64()) / d * []float64{1, -1}[r.Intn(2)]
			}
			obj, err := sp.mk()
			if err != nil {
				k.Failf("%s: constructor: %v", sp.name, err)
				return
			}
			k.Case = gcase{In: sp.in, Ops: []*ref.T{x}, Tracked: []bool{true}, G: g}
			k.Key("saturated/%s/%s", sp.name, shapeKey(shape))
			k.Count("saturated_input_cases", 1)
			rx := rt.MustLeaf(x, true)
			if r.Intn(2) == 0 { // the activation input is an intermediate: h = 2 * (x/2)
				half := rt.MustLeaf(x.Map(func(v float64) float64 { return v / 2 }), true)
				rx = half.Scale(2)
			}
			var y tensor.Tensor
			if p := call(func() {
				if y, err = obj.Forward(rx); err == nil {
					err = weightedBackprop(y, g)
				}
			}); p != nil || err != nil || y == nil {
				k.Failf("%s at saturated inputs: panic=%v err=%v", sp.name, p, err)
				return
			}
			yv, _ := ref.Apply(sp.in, []*ref.T{x})
			want := ref.VJP(sp.in, []*ref.T{x}, yv, g, ref.RuleSum)[0]
			gr := rx.Gradient()
			if gr == nil {
				k.Failf("%s at saturated inputs: the input received no gradient", sp.name)
				return
			}
			if e := rt.Compare(gr, want, 1e-9, 1e-6, nil, 0); e != nil {
				k.Failf("%s at saturated inputs (|x| = 8..30) under a weighting of the size of 1/derivative: %v", sp.name, e)
			}
		})
	}
	// ---- upstream weightings at the top of the range (1..1.7e308 in magnitude) arriving at Relu / LeakyRelu(|m| <= 1) over ordinary inputs:
	// the input receives the weighting itself (times 1 or m), a finite number ----
	for i := 0; i < c.Pick(300, 6000); i++ {
		c.Case(func(k *fw.K) {
			r := k.Rng
			shape := RandShape(r, 0, 2, 3)
			var cands []actSpec
			for _, q := range actSpecs(len(shape)) {
				if q.in.Op == "relu" || (q.in.Op == "leakyrelu" && math.Abs(q.in.F) <= 1) {
					cands = append(cands, q)
				}
			}
			sp := cands[r.Intn(len(cands))]
			x, g := ref.Zeros(shape), ref.Zeros(shape)
			for e := range x.Data {
				x.Data[e] = (0.5 + 2.5*r.Float64()) * []float64{1, -1}[r.Intn(2)]
				g.Data[e] = (1 + 0.7*r.Float64()) * 1e308 * []float64{1, -1}[r.Intn(2)]
			}
			obj, err := sp.mk()
			if err != nil {
				k.Failf("%s: constructor: %v", sp.name, err)
				return
			}
			k.Case = gcase{In: sp.in, Ops: []*ref.T{x}, Tracked: []bool{true}, G: g}
			k.Key("huge-weighting/%s/%s", sp.name, shapeKey(shape))
			k.Count("huge_weighting_cases", 1)
			rx := rt.MustLeaf(x, true)
			var y tensor.Tensor
			if p := call(func() {
				if y, err = obj.Forward(rx); err == nil {
					err = weightedBackprop(y, g)
				}
			}); p != nil || err != nil || y == nil {
				k.Failf("%s under a weighting of 1e308: panic=%v err=%v", sp.name, p, err)
				return
			}
			yv, _ := ref.Apply(sp.in, []*ref.T{x})
			want := ref.VJP(sp.in, []*ref.T{x}, yv, g, ref.RuleSum)[0]
			gr := rx.Gradient()
			if gr == nil {
				k.Failf("%s under a weighting of 1e308: the input received no gradient", sp.name)
				return
			}
			if e := rt.Compare(gr, want, 0, 1e-12, nil, 0); e != nil {
				k.Failf("%s over ordinary inputs under weightings of 1..1.7e308 (the derivative is 1 or m with |m| <= 1: the gradient is finite): %v", sp.name, e)
			}
		})
	}
	// ---- the activation output is consumed by Log (log-likelihoods): Sigmoid at inputs of -28..-40, where the output is 1e-13..1e-18 - an
	// ordinary double - and d log(s(x)) / dx = 1 - s; and a ONE-ELEMENT activation output (a gate of shape [1] or [1,1]) is the RECEIVER of
	// a product with an untracked tensor of many elements ----
	for i := 0; i < c.Pick(400, 8000); i++ {
		c.Case(func(k *fw.K) {
			r := k.Rng
			if r.Intn(2) == 0 {
				shape := RandShape(r, 0, 2, 3)
				x := ref.Zeros(shape)
				for j := range x.Data {
					x.Data[j] = -(28 + 12*r.Float64())
					if r.Intn(4) == 0 {
						x.Data[j] = -3 * r.Float64()
					}
				}
				g := randG(k, shape)
				p := ref.Prog{{Op: "leaf", Shape: shape, Data: x.Data, Tracked: true}, {Op: "sigmoid", In: []int{0}}, {Op: "log", In: []int{1}},
					{Op: "leaf", Shape: shape, Data: g.Data}, {Op: "mul", In: []int{2, 3}}}
				vals, err := p.Eval()
				if err != nil {
					k.Failf("harness: %v", err)
					return
				}
				k.Case = c01case{Family: "log of a Sigmoid output of 1e-13..1e-18", Prog: p, Roots: []int{4}}
				k.Key("log-of-sigmoid/%s", shapeKey(shape))
				k.Count("log_of_activation_cases", 1)
				var ts []tensor.Tensor
				if pn := call(func() {
					if ts, err = rt.Run(p); err == nil {
						err = tensor.BackPropagate(ts[4])
					}
				}); pn != nil || err != nil {
					k.Failf("log(Sigmoid(x)): panic=%v err=%v", pn, err)
					return
				}
				want, scale := p.GradS(vals, 4, nil, ref.RuleSum)
				if msg := checkGradsScaled(ts[:1], want[:1], scale[:1], "log(Sigmoid(x)) at x = -28..-40 (the activation input)"); msg != "" {
					k.Failf("%s", msg)
				}
				return
			}
			gate := [][]int{{1}, {1, 1}, {1, 1, 1}}[r.Intn(3)]
			other := append(RandShape(r, 0, 1, 3), 2+r.Intn(3))
			for len(other) < len(gate) {
				other = append([]int{1 + r.Intn(2)}, other...)
			}
			specs := actSpecs(0)
			sp := specs[r.Intn(len(specs))]
			a, h := Shuffled(r, Unique(r, gate, 0.3, 1.5)), Shuffled(r, Unique(r, other, 0.3, 2))
			in := sp.in
			in.In = []int{0}
			p := ref.Prog{{Op: "leaf", Shape: gate, Data: a.Data, Tracked: true}, in, {Op: "leaf", Shape: other, Data: h.Data}, {Op: "mul", In: []int{1, 2}}}
			vals, err := p.Eval()
			if err != nil {
				k.Failf("harness: %v", err)
				return
			}
			k.Case = c01case{Family: "one-element " + sp.name + " output as the receiver of a product with an untracked tensor", Prog: p, Roots: []int{3}}
			k.Key("one-element-gate/%s/%s/%s", sp.name, shapeKey(gate), shapeKey(other))
			k.Count("one_element_gate_cases", 1)
			var ts []tensor.Tensor
			if pn := call(func() {
				if ts, err = rt.Run(p); err == nil {
					err = tensor.BackPropagate(ts[3])
				}
			}); pn != nil || err != nil {
				k.Failf("%s(a).Mul(h) with a of shape %v and h of shape %v: panic=%v err=%v", sp.name, gate, other, pn, err)
				return
			}
			checkGradsClassified(k, ts, p, vals, 3, nil, fmt.Sprintf("%s(a).Mul(h), a tracked of shape %v, h untracked of shape %v", sp.name, gate, other))
		})
	}
	// ---- (ii) interior inputs ----
	for i := 0; i < c.Pick(6000, 400000); i++ {
		c.Case(func(k *fw.K) { c15Upstream(k) })
	}
}

func c15Leaf(k *fw.K, sp actSpec, shape []int, class int) {
	x, cname := actValues(k, class, shape, sp.in.Dim)
	y, _ := ref.Apply(sp.in, []*ref.T{x})
	g := randG(k, shape)
	k.Case = gcase{In: sp.in, Ops: []*ref.T{x}, Tracked: []bool{true}, G: g}
	if len(x.Data) >= 2 {
		k.Key("%s/%s/%s/leaf", sp.name, shapeKey(shape), cname)
	}
	k.Count("leaf_cases", 1)
	k.Sample()
	obj, err := sp.mk()
	if err != nil {
		k.Failf("%s: constructor: %v", sp.name, err)
		return
	}
	if k.Index%3 == 0 { // the object first saw a batch of the same shape that is not finite
		actPoison(k, obj, shape)
	}
	if k.Index%4 == 1 {
		refusedCalls(k)
	}
	rx := rt.MustLeaf(x, true)
	var ry tensor.Tensor
	if p := call(func() {
		ry, err = obj.Forward(rx)
		if err == nil {
			err = weightedBackprop(ry, g)
		}
	}); p != nil || err != nil {
		k.Failf("%s on shape %v [%s]: Forward/BackPropagate failed: panic=%v err=%v", sp.name, shape, cname, p, err)
		return
	}
	gr := rx.Gradient()
	if gr == nil {
		k.Failf("%s on shape %v: the tracked input received no gradient", sp.name, shape)
		return
	}
	got, err := rt.Read(gr)
	if err != nil || !ref.SameShape(got.Shape, shape) {
		k.Failf("%s on shape %v: gradient unreadable or of shape %v (%v)", sp.name, shape, got, err)
		return
	}
	for i, v := range got.Data {
		if math.IsNaN(v) || math.IsInf(v, 0) {
			k.Failf("%s on shape %v [%s]: gradient element %d is %v (input %v)", sp.name, shape, cname, i, v, x.Data[i])
			return
		}
	}
	want := ref.VJP(sp.in, []*ref.T{x}, y, g, ref.RuleSum)[0]
	tolA := 1e-10 * (1 + maxAbs(want))
	mismatch := ""
	for i := range want.Data {
		gv, wv := got.Data[i], want.Data[i]
		if (sp.in.Op == "relu" || sp.in.Op == "leakyrelu") && math.Abs(x.Data[i]) <= 1e-240 {
			// inputs within the library's own equality tolerance (1e-240) of 0 are read as "at 0"
			lo, hi := 0., 1.
			if sp.in.Op == "leakyrelu" {
				lo = sp.in.F
			}
			a, b := lo*g.Data[i], hi*g.Data[i]
			if a > b {
				a, b = b, a
			}
			k.Count("elements_at_exactly_zero", 1)
			if gv < a-tolA || gv > b+tolA {
				k.Failf("%s on shape %v: at an input of 0 +- 1e-240 (element %d) the gradient %v lies outside the interval [%v, %v] spanned by the one-sided derivatives x upstream weighting %v", sp.name, shape, i, gv, a, b, g.Data[i])
				return
			}
			continue
		}
		if !ref.Close(gv, wv, tolA, 1e-9) && mismatch == "" {
			mismatch = fmt.Sprintf("element %v: got %v, the derivative x upstream weighting is %v (input %v)", ref.Unravel(i, shape), gv, wv, x.Data[i])
		}
	}
	if mismatch == "" {
		return
	}
	if sp.in.Op == "softmax" && shape[sp.in.Dim] > 1 {
		avg := ref.VJP(sp.in, []*ref.T{x}, y, g, ref.RuleAvg)[0]
		if gradClose(got, avg) == nil {
			k.Knownf(knownBroadcastMean, "%s on shape %v: the input gradient equals p_i*(g_i - (1/n) sum_j p_j g_j): the normaliser's gradient is averaged over its %d copies instead of summed (%s)", sp.name, shape, shape[sp.in.Dim], mismatch)
			return
		}
	}
	k.Failf("%s on shape %v [%s]: %s", sp.name, shape, cname, mismatch)
}

// c15TwoHeads: y1 = act1(x [* a]) and y2 = act2(x [* b]) share only the tracked leaf x; after BackPropagate on each head in turn
// x holds the SUM of what the two passes delivered (upstream weighting times derivative, per head).
func c15TwoHeads(k *fw.K) {
	r := k.Rng
	shape := RandShape(r, 0, 3, 3)
	var specs []actSpec
	for _, sp := range actSpecs(len(shape)) {
		if sp.in.Op != "softmax" {
			specs = append(specs, sp)
		}
	}
	x, _ := actValues(k, 0, shape, 0)
	rx := rt.MustLeaf(x, true)
	want := ref.Zeros(shape)
	type head struct {
		y tensor.Tensor
		g *ref.T
	}
	var heads []head
	names := ""
	for h := 0; h < 2+r.Intn(2); h++ {
		sp := specs[r.Intn(len(specs))]
		names += sp.name + " "
		obj, err := sp.mk()
		if err != nil {
			k.Failf("%s: constructor: %v", sp.name, err)
			return
		}
		in, xin, f := rx, x, 1.
		if r.Intn(2) == 0 { // the head sits behind its own scaling of the shared input
			f = []float64{2, -1.5, 0.5}[r.Intn(3)]
			in, xin = rx.Scale(f), x.Map(func(v float64) float64 { return f * v })
		}
		var y tensor.Tensor
		if p := call(func() { y, err = obj.Forward(in) }); p != nil || err != nil || y == nil {
			k.Failf("%s on shape %v: Forward failed: panic=%v err=%v", sp.name, shape, p, err)
			return
		}
		g := randG(k, shape)
		yv, _ := ref.Apply(sp.in, []*ref.T{xin})
		d := ref.VJP(sp.in, []*ref.T{xin}, yv, g, ref.RuleSum)[0]
		for i := range want.Data {
			want.Data[i] += f * d.Data[i]
		}
		heads = append(heads, head{y, g})
	}
	k.Case = map[string]any{"shape": shape, "x": x.Data, "heads": names}
	k.Key("two-heads/%s/%s", shapeKey(shape), names)
	k.Count("multi_head_cases", 1)
	for i, h := range heads {
		var err error
		if p := call(func() { err = weightedBackprop(h.y, h.g) }); p != nil || err != nil {
			k.Failf("heads %sover one input of shape %v: back-propagation of head %d failed: panic=%v err=%v", names, shape, i, p, err)
			return
		}
	}
	g := rx.Gradient()
	if g == nil {
		k.Failf("heads %sover one input of shape %v: the input received no gradient", names, shape)
		return
	}
	if e := rt.Compare(g, want, 1e-10*(1+maxAbs(want)), 1e-9, nil, 0); e != nil {
		k.Failf("heads %sover one tracked input of shape %v, one back-propagation per head: the input's gradient is not the sum of the heads' contributions: %v", names, shape, e)
	}
}

// c15Rearmed: round after round the same activation object is applied to the same tracked input object; after each
// back-propagation the input is made a fresh leaf again. Every round delivers exactly that round's upstream times derivative.
func c15Rearmed(k *fw.K) {
	r := k.Rng
	shape := RandShape(r, 0, 3, 3)
	var specs []actSpec
	for _, sp := range actSpecs(len(shape)) {
		if sp.in.Op != "softmax" {
			specs = append(specs, sp)
		}
	}
	sp := specs[r.Intn(len(specs))]
	obj, err := sp.mk()
	if err != nil {
		k.Failf("%s: constructor: %v", sp.name, err)
		return
	}
	x, _ := actValues(k, 0, shape, 0)
	rx := rt.MustLeaf(x, true)
	y0, _ := ref.Apply(sp.in, []*ref.T{x})
	rounds := 2 + r.Intn(3)
	k.Case = map[string]any{"activation": sp.name, "shape": shape, "x": x.Data, "rounds": rounds}
	k.Key("rearmed/%s/%s/%d", sp.name, shapeKey(shape), rounds)
	k.Count("rearmed_input_cases", 1)
	for round := 0; round < rounds; round++ {
		g := randG(k, shape)
		var y tensor.Tensor
		if p := call(func() {
			if y, err = obj.Forward(rx); err == nil {
				err = weightedBackprop(y, g)
			}
		}); p != nil || err != nil || y == nil {
			k.Failf("%s round %d on one input object of shape %v: panic=%v err=%v", sp.name, round+1, shape, p, err)
			return
		}
		if e := rt.Compare(y, y0, 1e-300, 1e-12, nil, 0); e != nil {
			k.Failf("%s round %d on one input object: forward value: %v", sp.name, round+1, e)
			return
		}
		gr := rx.Gradient()
		if gr == nil {
			k.Failf("%s round %d on the same layer and the same input object (re-armed after the previous pass): no gradient delivered to the activation input", sp.name, round+1)
			return
		}
		want := ref.VJP(sp.in, []*ref.T{x}, y0, g, ref.RuleSum)[0]
		if e := rt.Compare(gr, want, 1e-10*(1+maxAbs(want)), 1e-9, nil, 0); e != nil {
			k.Failf("%s round %d on the same layer and the same input object (re-armed after the previous pass): %v", sp.name, round+1, e)
			return
		}
		rx.ResetGradContext(true)
		if rx.Gradient() != nil {
			k.Failf("%s round %d: ResetGradContext(true) left a gradient on the input", sp.name, round+1)
			return
		}
	}
}

// checkGradsClassified compares every tensor's gradient with the Sum tape; if that fails but every
// gradient matches the Avg tape (and the program contains an expansion), the case is the recorded finding.
func checkGradsClassified(k *fw.K, ts []tensor.Tensor, p ref.Prog, vals []*ref.T, root int, seed *ref.T, what string) {
	want, scale := p.GradS(vals, root, seed, ref.RuleSum)
	for _, w := range want {
		if w != nil && !(maxAbsAll(w) < 1e8) {
			k.Count("cases_skipped_ill_conditioned", 1)
			return
		}
	}
	msg := checkGradsScaled(ts, want, scale, what)
	if msg == "" {
		return
	}
	avg, ascale := p.GradS(vals, root, seed, ref.RuleAvg)
	if checkGradsScaled(ts, avg, ascale, what) == "" {
		k.Knownf(knownBroadcastMean, "%s: all gradients equal the tape in which an expanded operand receives the MEAN over its copies (%s)", what, msg)
		return
	}
	k.Failf("%s", msg)
}

func c15Upstream(k *fw.K) {
	p, vals := genProgram(k.Rng, progOpts{MinInstr: 2, MaxInstr: 14, MaxLeaves: 3, MaxRank: 3, MaxDim: 3})
	last := len(p) - 1
	shape := vals[last].Shape
	specs := actSpecs(len(shape))
	sp := specs[k.Rng.Intn(len(specs))]
	// the activation input is an interior node that also feeds a second consumer afterwards
	in := sp.in
	in.In = []int{last}
	p = append(p, in)
	act := len(p) - 1
	p = append(p, ref.Instr{Op: "tanh", In: []int{last}})
	p = append(p, ref.Instr{Op: "mul", In: []int{act, len(p) - 1}})
	root := len(p) - 1
	vals, err := p.Eval()
	if err != nil {
		k.Failf("harness: %v", err)
		return
	}
	g := randG(k, vals[root].Shape)
	k.Case = map[string]any{"family": "upstream program -> " + sp.name + " (input has a second consumer)", "program": p, "upstream_weighting": g}
	fan, reconv, depth := progStats(p, root)
	k.Key("%s/upstream/%s/fan%d/reconv%d/depth%d", sp.name, shapeKey(shape), fan, reconv, depth)
	k.Count("upstream_cases", 1)
	if k.Index%40 == 0 {
		k.Sample()
	}
	var ts []tensor.Tensor
	if pn := call(func() {
		ts, err = rt.Run(p)
		if err == nil {
			err = weightedBackprop(ts[root], g)
		}
	}); pn != nil || err != nil {
		k.Failf("upstream program -> %s: panic=%v err=%v", sp.name, pn, err)
		return
	}
	checkGradsClassified(k, ts, p, vals, root, g, fmt.Sprintf("%s with an interior input (tensor %d)", sp.name, last))
}
