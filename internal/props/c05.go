package props

import (
	"fmt"
	"math"
	"runtime"

	"github.com/sahandsafizadeh/qeep/tensor"

	"qeepverif/internal/fw"
	"qeepverif/internal/ref"
	"qeepverif/internal/rt"
)

// C05 — reductions return the defined statistic of the whole tensor or of each fibre.

func init() {
	fw.Register(&fw.Prop{
		ID: "C05",
		Rule: "differential monitor: the seven *Along forms over every shape of rank 1..R (sizes 1..3) x every dim, and the seven whole-tensor forms over every shape of rank 0..R plus large tensors (up to 8192 elements, several rank/size layouts), with position-identifying data in three value classes (unique reals, distinct integers compared exactly, magnitudes up to 1e6); every output element and the output shape are compared with the reference statistic of the corresponding fibre (two-pass unbiased variance, 0 for a single element, Std = sqrt(Var), Avg = Mean). " +
			"Non-trivial: the operand has >= 2 elements; distinct = (reducer, shape, dim, value class). Later additions: value classes offset (common offset up to 1e9) and patterns (all-equal, sorted, powers of two, denormals, 1e150); sampled shapes with sizes up to 7; one long dimension (127..4097) reduced along it or across it; reducers evaluated on every node of forward chains (operands built by Full/Zeros/Ones/Patch/Reshape/MatMul...).",
		Assumptions: []string{"sums compared within 1e-11 x sum|x| (order of summation is free), extrema exactly, variance/std within the conditioning bound of the two-pass formula: 8 n eps max|x| maxdev + 1e-9 maxdev^2 (so data with a large common offset still decide it)"},
		FloorQuick:  20000, FloorThor: 80000,
		Run: runC05,
	})
}

var c05Along = []string{"sumalong", "maxalong", "minalong", "avgalong", "varalong", "stdalong", "meanalong"}

func c05Data(k *fw.K, class int, shape []int) (*ref.T, string) {
	switch class % 5 {
	case 0:
		return Shuffled(k.Rng, Unique(k.Rng, shape, 0.1, 5)), "unique"
	case 1:
		return UniqueInts(k.Rng, shape), "integers"
	case 4: // value patterns: all-equal, sorted, powers of two, denormals, very large magnitudes, a single zero
		t := ref.Zeros(shape)
		pat := k.Rng.Intn(6)
		for i := range t.Data {
			switch pat {
			case 0:
				t.Data[i] = -2.75
			case 1:
				t.Data[i] = float64(i) * 0.5
			case 2:
				t.Data[i] = -float64(i) * 0.25
			case 3:
				t.Data[i] = math.Ldexp(1, (i%30)-15)
			case 4:
				t.Data[i] = float64(1+i%9) * 5e-324
			default:
				t.Data[i] = float64(1+i%7) * 1e150
				if i%2 == 1 {
					t.Data[i] = -t.Data[i]
				}
			}
		}
		if n := len(t.Data); n > 2 && k.Rng.Intn(2) == 0 {
			t.Data[k.Rng.Intn(n)] = 0
		}
		if n := len(t.Data); n >= 2 && pat <= 2 && k.Rng.Intn(3) == 0 {
			// exactly two elements of opposite sign near the top of the range (|x| > MaxFloat64/n): every order of
			// summation keeps all partial sums finite, the mean is an ordinary number
			i := k.Rng.Intn(n - 1)
			t.Data[i], t.Data[i+1] = 1.5e308, -1.5e308
			if k.Rng.Intn(2) == 0 {
				t.Data[i], t.Data[i+1] = -1.5e308, 1.5e308
			}
		}
		return t, []string{"all-equal", "ascending", "descending", "powers-of-two", "denormals", "1e150"}[pat]
	case 3: // a large common offset relative to the spread (where one-pass variance formulas cancel catastrophically)
		t := Shuffled(k.Rng, Unique(k.Rng, shape, 0.5, 4))
		off := []float64{1e6, -3e8, 1e9, 1e7, 2e154, -3e155}[k.Rng.Intn(6)]
		for i := range t.Data {
			if math.Abs(off) > 1e100 { // a mean whose SQUARE overflows while the variance (spread 1e150) is an ordinary finite number
				t.Data[i] *= 1e150
			}
			t.Data[i] += off
		}
		return t, "offset"
	}
	t := Shuffled(k.Rng, Unique(k.Rng, shape, 1, 2))
	for i := range t.Data {
		t.Data[i] *= math.Pow(10, float64(k.Rng.Intn(7)))
	}
	return t, "large"
}

// compareStat compares one reduced value with tolerance scaled to the fibre.
func statOf2(xs []float64) float64 { return ref.New([]int{len(xs)}, xs).Reduce(ref.SVar) }

func statTol(kind ref.Stat, fibre []float64) float64 {
	s := 0.
	s0 := 0.
	m := 0.
	for _, x := range fibre {
		s0 += x
		s += math.Abs(x)
		if math.Abs(x) > m {
			m = math.Abs(x)
		}
	}
	switch kind {
	case ref.SMax, ref.SMin:
		return 0
	case ref.SSum:
		return 1e-11 * s
	case ref.SAvg, ref.SMean:
		return 1e-11 * s / float64(len(fibre))
	case ref.SVar, ref.SStd:
		// conditioning of the two-pass formula: the mean carries an error of about n*eps*max|x|, so every deviation
		// does, and the variance about 2*dev*that; plus 1e-9 relative to the spread itself
		n := float64(len(fibre))
		mu := s0 / n
		dev := 0.
		for _, x := range fibre {
			dev = math.Max(dev, math.Abs(x-mu))
		}
		vt := 8*n*1.2e-16*m*dev + 1e-9*dev*dev + 1e-300
		if kind == ref.SVar {
			return vt
		}
		sd := math.Sqrt(statOf2(fibre))
		if sd > 0 {
			return vt/sd + 1e-12*sd
		}
		return math.Sqrt(vt)
	}
	return 0
}

func runC05(c *fw.Ctx) {
	deeperBounds(!c.Quick())
	R := c.Pick(5, 6)
	// ---- Along forms ----
	for _, shape := range Shapes(1, R, 3) {
		for dim := range shape {
			for oi, op := range c05Along {
				for class := 0; class < 5; class++ {
					shape, dim, op, oi, class := shape, dim, op, oi, class
					c.Case(func(k *fw.K) {
						x, cname := c05Data(k, class, shape)
						in := ref.Instr{Op: op, Dim: dim}
						k.Case = fcase{In: in, Ops: []*ref.T{x}, Tag: cname}
						if len(x.Data) >= 2 {
							k.Key("%s/%s/%d/%s", op, shapeKey(shape), dim, cname)
						}
						k.Count("along_cases", 1)
						k.Sample()
						c05Along1(k, in, ref.Stat(oi), x)
					})
				}
			}
		}
	}
	for i := 0; i < c.Pick(3000, 30000); i++ { // sizes up to 7
		c.Case(func(k *fw.K) {
			shape := BigShape(k.Rng, 1, 600)
			dim := k.Rng.Intn(len(shape))
			oi := k.Rng.Intn(len(c05Along))
			x, cname := c05Data(k, k.Rng.Intn(5), shape)
			in := ref.Instr{Op: c05Along[oi], Dim: dim}
			k.Case = map[string]any{"op": in.Op, "dim": dim, "shape": shape, "class": cname}
			k.Key("%s/%s/%d/%s", in.Op, shapeKey(shape), dim, cname)
			k.Count("along_cases_big_shapes", 1)
			c05Along1(k, in, ref.Stat(oi), x)
		})
	}
	for i := 0; i < c.Pick(1500, 15000); i++ { // one long dimension (127..4097): reduce along it and along the short ones
		c.Case(func(k *fw.K) {
			shape, long := LongShape(k.Rng, 3, 70000)
			dim := long
			if k.Rng.Intn(3) == 0 {
				dim = k.Rng.Intn(len(shape))
			}
			oi := k.Rng.Intn(len(c05Along))
			x, cname := c05Data(k, k.Rng.Intn(5), shape)
			in := ref.Instr{Op: c05Along[oi], Dim: dim}
			k.Case = map[string]any{"op": in.Op, "dim": dim, "shape": shape, "class": cname}
			k.Key("%s/%s/%d/%s", in.Op, shapeKey(shape), dim, cname)
			k.Count("along_cases_long_dimension", 1)
			c05Along1(k, in, ref.Stat(oi), x)
		})
	}
	// ---- groups of shapes that collide under ad-hoc cache keys and hashes: every reducer along every dimension on every shape of a
	// group, one after the other in one process, both orders, twice ----
	for gi, group := range CollidingShapes {
		for rev := 0; rev < 2; rev++ {
			gi, group, rev := gi, group, rev
			c.Case(func(k *fw.K) {
				k.Key("colliding/%d/%d", gi, rev)
				k.Count("colliding_shape_group_cases", 1)
				for pass := 0; pass < 2; pass++ {
					for q := range group {
						shape := group[q]
						if rev == 1 {
							shape = group[len(group)-1-q]
						}
						for dim := range shape {
							for oi, op := range c05Along {
								x, _ := c05Data(k, 0, shape)
								c05Along1(k, ref.Instr{Op: op, Dim: dim}, ref.Stat(oi), x)
								if k.Failed() {
									return
								}
							}
						}
					}
				}
			})
		}
	}
	// ---- shapes with TWO dimensions of 10..13 (positions with two digits next to each other: keys built from run-together
	// decimal positions collide, e.g. (1,10) and (11,0)) and a third, small one; every reducer, every dimension ----
	for _, shape := range [][]int{{12, 11, 3}, {3, 12, 11}, {11, 2, 13}, {12, 12}, {21, 3, 12}, {10, 11}, {2, 13, 11, 2}} {
		for dim := range shape {
			for oi, op := range c05Along {
				shape, dim, oi, op := shape, dim, oi, op
				c.Case(func(k *fw.K) {
					x, cname := c05Data(k, k.Rng.Intn(2), shape)
					k.Case = map[string]any{"op": op, "dim": dim, "shape": shape, "class": cname}
					k.Key("%s/%s/%d/two-digit-positions", op, shapeKey(shape), dim)
					k.Count("along_cases_with_two_digit_positions", 1)
					c05Along1(k, ref.Instr{Op: op, Dim: dim}, ref.Stat(oi), x)
				})
			}
		}
	}
	// ---- every reducer along every dimension of ONE operand object, the results kept and read only after all calls were made ----
	for i := 0; i < c.Pick(1500, 30000); i++ {
		c.Case(func(k *fw.K) { c05KeptResults(k) })
	}
	// ---- large whole numbers (multiples of 2^50 below 2^53, 1 100..2 500 of them: the total passes 2^63 and every partial sum is exact) and
	// alternating giants (+a, -a, +a, -a ... with a = 1e308 next to ordinary rows: every prefix and every contiguous block is finite) ----
	for i := 0; i < c.Pick(24, 240); i++ {
		i := i
		c.Case(func(k *fw.K) { c05WholeNumbers(k, i) })
	}
	// ---- short-lived operands: each tensor is reduced once and dropped, a garbage collection runs, the next tensor takes its place ----
	for i := 0; i < c.Pick(60, 600); i++ {
		c.Case(func(k *fw.K) { c05ShortLived(k) })
	}
	// ---- reducers on tensors with a history (built by Full/Zeros/Ones and earlier operations of a chain) ----
	for i := 0; i < c.Pick(3000, 40000); i++ {
		c.Case(func(k *fw.K) {
			p := genChain(k.Rng, 2+k.Rng.Intn(5))
			k.Case = c01case{Family: "forward chain: reducers on every node", Prog: p}
			k.Key("%s", chainKey(p))
			k.Count("chain_cases", 1)
			runChain(k, p)
		})
	}
	// ---- whole-tensor forms ----
	whole := Shapes(0, R, 3)
	large := [][]int{{4096}, {8192}, {64, 64}, {2, 4096}, {4096, 2}, {16, 16, 16}, {1, 4096}, {128, 33}, {5, 7, 11, 13}, {2, 2, 2, 2, 2, 128}, {1000}, {37, 111}}
	if c.Quick() {
		large = large[:7]
	}
	whole = append(whole, large...)
	for _, n := range LongSizes {
		whole = append(whole, []int{n}, []int{2, n}, []int{n, 3})
	}
	for _, shape := range whole {
		for class := 0; class < 5; class++ {
			shape, class := shape, class
			c.Case(func(k *fw.K) {
				x, cname := c05Data(k, class, shape)
				k.Case = map[string]any{"op": "whole-tensor reducers", "shape": shape, "class": cname}
				if len(x.Data) <= 64 {
					k.Case = fcase{In: ref.Instr{Op: "sum/max/min/avg/var/std/mean"}, Ops: []*ref.T{x}, Tag: cname}
				}
				if len(x.Data) >= 2 {
					k.Key("whole/%s/%s", shapeKey(shape), cname)
				}
				k.Count("whole_tensor_cases", 1)
				if len(x.Data) >= 4096 {
					k.Count("whole_tensor_cases_ge_4096_elems", 1)
				}
				rx := coinLeaf(x)
				var got [7]float64
				if p := call(func() {
					got = [7]float64{rx.Sum(), rx.Max(), rx.Min(), rx.Avg(), rx.Var(), rx.Std(), rx.Mean()}
				}); p != nil {
					k.Failf("whole-tensor reducers on shape %v: panic: %v", shape, p)
					return
				}
				for kind := ref.SSum; kind <= ref.SMean; kind++ {
					want := x.Reduce(kind)
					if !ref.Close(got[kind], want, statTol(kind, x.Data), 1e-10) {
						k.Failf("%s() on shape %v [%s] = %v, expected %v", ref.StatNames[kind], shape, cname, got[kind], want)
						return
					}
				}
			})
		}
	}
}

// c05KeptResults: square / cubic shapes (so that reductions along different dimensions have results of EQUAL shape), the same
// reducer called along one dimension after the other and twice along the same one on one operand object; each result object is
// read once right away and all of them again at the end: an earlier result must still hold what it held.
func c05KeptResults(k *fw.K) {
	r := k.Rng
	n := 2 + r.Intn(3)
	shape := [][]int{{n, n}, {n, n, n}, {n, 1, n}, {2, n, 2}, {n, n, 2}}[r.Intn(5)]
	x, cname := c05Data(k, r.Intn(3), shape)
	rx := coinLeaf(x)
	type kept struct {
		in   ref.Instr
		t    tensor.Tensor
		want *ref.T
	}
	var all []kept
	calls := 3 + r.Intn(6)
	oi := r.Intn(len(c05Along))
	for q := 0; q < calls; q++ {
		if r.Intn(3) == 0 {
			oi = r.Intn(len(c05Along)) // mostly the same reducer kind in a row
		}
		in := ref.Instr{Op: c05Along[oi], Dim: r.Intn(len(shape))}
		want, err := ref.Apply(in, []*ref.T{x})
		if err != nil {
			k.Failf("harness: %v", err)
			return
		}
		got, err, p := exec(in, []tensor.Tensor{rx})
		if p != nil || err != nil || got == nil {
			k.Failf("%s(%d) on shape %v: panic=%v err=%v", in.Op, in.Dim, shape, p, err)
			return
		}
		all = append(all, kept{in, got, want})
	}
	k.Case = map[string]any{"family": "kept results", "shape": shape, "class": cname, "calls": calls}
	k.Key("kept/%s/%s/%d", shapeKey(shape), cname, calls)
	k.Count("kept_result_cases", 1)
	for pass := 0; pass < 2; pass++ {
		for q, e := range all {
			tol := 1e-9 * (1 + maxAbs(e.want))
			if e.in.Op == "varalong" || e.in.Op == "stdalong" {
				tol = 1e-6 * (1 + maxAbs(e.want))
			}
			if err := rt.Compare(e.t, e.want, tol, 1e-9, nil, 0); err != nil {
				k.Failf("call %d of %d on one operand of shape %v, %s(%d), read after all calls were made: %v", q+1, len(all), shape, e.in.Op, e.in.Dim, err)
				return
			}
		}
		if err := rt.Compare(rx, x, 0, 0, nil, 0); err != nil {
			k.Failf("the operand of %d reductions changed: %v", len(all), err)
			return
		}
	}
}

func c05Along1(k *fw.K, in ref.Instr, kind ref.Stat, x *ref.T) {
	want, err := ref.Apply(in, []*ref.T{x})
	if err != nil {
		k.Failf("harness: %v", err)
		return
	}
	rx := coinLeaf(x)
	got, err, p := exec(in, []tensor.Tensor{rx})
	if p != nil || err != nil || got == nil {
		k.Failf("%s(%d) on shape %v: panic=%v err=%v", in.Op, in.Dim, x.Shape, p, err)
		return
	}
	g, err := rt.Read(got)
	if err != nil {
		k.Failf("%s(%d) on shape %v: %v", in.Op, in.Dim, x.Shape, err)
		return
	}
	if !ref.SameShape(g.Shape, want.Shape) {
		k.Failf("%s(%d) on shape %v: result shape %v, expected %v", in.Op, in.Dim, x.Shape, g.Shape, want.Shape)
		return
	}
	// tolerance per fibre: rebuild the fibre from the reference layout
	n := x.Shape[in.Dim]
	for off := range want.Data {
		oidx := ref.Unravel(off, want.Shape)
		idx := make([]int, len(x.Shape))
		copy(idx[:in.Dim], oidx[:in.Dim])
		copy(idx[in.Dim+1:], oidx[in.Dim:])
		fibre := make([]float64, n)
		for q := 0; q < n; q++ {
			idx[in.Dim] = q
			fibre[q] = x.Data[ref.Ravel(idx, x.Shape)]
		}
		if !ref.Close(g.Data[off], want.Data[off], statTol(kind, fibre), 1e-10) {
			k.Failf("%s(%d) on shape %v: element %v = %v, expected %v (fibre %v)", in.Op, in.Dim, x.Shape, oidx, g.Data[off], want.Data[off], fibre)
			return
		}
	}
}

// c05ShortLived: an evaluation loop. Each step builds a fresh tensor of the same shape with its own values (a plain TensorOf,
// so that nothing else keeps it alive), takes ONE statistic of it and drops it; a garbage collection runs after every step, so
// the next tensor is likely to occupy the memory of the previous one. A statistic is a function of the elements of its operand.
func c05ShortLived(k *fw.K) {
	r := k.Rng
	shape := [][]int{{4}, {3, 3}, {16}, {2, 5}, {64}, {2, 2, 2}}[r.Intn(6)]
	steps := 12 + r.Intn(20)
	kinds := []ref.Stat{ref.SMean, ref.SVar, ref.SStd, ref.SAvg, ref.SSum, ref.SMax, ref.SMin}
	names := []string{"Mean", "Var", "Std", "Avg", "Sum", "Max", "Min"}
	along := r.Intn(2) == 0
	k.Case = map[string]any{"family": "short-lived operands with garbage collections in between", "shape": shape, "steps": steps, "along": along}
	k.Key("short-lived/%s/%v", shapeKey(shape), along)
	k.Count("short_lived_operand_cases", 1)
	for step := 0; step < steps; step++ {
		x := RandT(r, shape, -3, 3)
		off := float64(r.Intn(7)-3) * 10 // the mean moves from step to step
		for i := range x.Data {
			x.Data[i] += off
		}
		qi := r.Intn(3) // mostly the mean-based statistics
		if r.Intn(4) == 0 {
			qi = r.Intn(len(kinds))
		}
		var msg string
		if pn := call(func() {
			t, derr := rt.Direct(x, false)
			if derr != nil {
				msg = "harness: " + derr.Error()
				return
			}
			if along && len(shape) > 0 {
				in := ref.Instr{Op: c05Along[r.Intn(len(c05Along))], Dim: r.Intn(len(shape))}
				want, err := ref.Apply(in, []*ref.T{x})
				if err != nil {
					msg = "harness: " + err.Error()
					return
				}
				got, err := rt.Exec(in, []tensor.Tensor{t})
				if err != nil {
					msg = fmt.Sprintf("step %d: %s(%d): %v", step, in.Op, in.Dim, err)
					return
				}
				if e := rt.Compare(got, want, 1e-9*(1+maxAbs(want)), 1e-9, nil, 0); e != nil {
					msg = fmt.Sprintf("step %d of an evaluation loop over short-lived tensors of shape %v: %s(%d): %v", step, shape, in.Op, in.Dim, e)
				}
				return
			}
			var got float64
			switch qi {
			case 0:
				got = t.Mean()
			case 1:
				got = t.Var()
			case 2:
				got = t.Std()
			case 3:
				got = t.Avg()
			case 4:
				got = t.Sum()
			case 5:
				got = t.Max()
			default:
				got = t.Min()
			}
			want := x.Reduce(kinds[qi])
			if !ref.Close(got, want, 1e-9*(1+math.Abs(want)+100), 1e-9) {
				msg = fmt.Sprintf("step %d of an evaluation loop over short-lived tensors of shape %v: %s() = %v, the elements give %v", step, shape, names[qi], got, want)
			}
		}); pn != nil {
			k.Failf("step %d: panic: %v", step, pn)
			return
		}
		if msg != "" {
			k.Failf("%s", msg)
			return
		}
		runtime.GC()
		k.Count("garbage_collections_between_reductions", 1)
	}
}

// c05WholeNumbers: see the call site. Sum / Avg / Mean and SumAlong / AvgAlong / MeanAlong are compared exactly for the whole
// numbers (every partial sum in any order is a multiple of 2^50 below 2^65, hence exact) and for the alternating giants along
// the storage order (the defined value of such a fibre is the sum of its ordinary elements: 0 here).
func c05WholeNumbers(k *fw.K, i int) {
	r := k.Rng
	if i%2 == 0 {
		shape := [][]int{{50, 50}, {2500}, {2, 1250}, {1250, 2}, {1100}, {40, 40}}[(i/2)%6]
		x := ref.Zeros(shape)
		for j := range x.Data {
			x.Data[j] = math.Ldexp(float64(6+r.Intn(2)), 50) // 6 or 7 times 2^50: 1100 of them exceed 2^63
		}
		k.Case = map[string]any{"family": "large whole numbers", "shape": shape}
		k.Key("whole-numbers/%s", shapeKey(shape))
		k.Count("large_whole_number_cases", 1)
		t := rt.MustLeaf(x, false)
		var sum, avg, mean float64
		if p := call(func() { sum, avg, mean = t.Sum(), t.Avg(), t.Mean() }); p != nil {
			k.Failf("reducers on %d whole numbers of size 2^52: panic: %v", len(x.Data), p)
			return
		}
		ws := x.Reduce(ref.SSum)
		if sum != ws || !ref.Close(avg, ws/float64(len(x.Data)), 0, 1e-13) || !ref.Close(mean, ws/float64(len(x.Data)), 0, 1e-13) {
			k.Failf("%d whole numbers (6 or 7 times 2^50 each) of shape %v: Sum() = %v, Avg() = %v, Mean() = %v; the elements add up to %v exactly (mean %v)", len(x.Data), shape, sum, avg, mean, ws, ws/float64(len(x.Data)))
			return
		}
		for d := range shape {
			in := ref.Instr{Op: "sumalong", Dim: d}
			want, _ := ref.Apply(in, []*ref.T{x})
			got, err, p := exec(in, []tensor.Tensor{t})
			if p != nil || err != nil || got == nil {
				k.Failf("SumAlong(%d) on shape %v: panic=%v err=%v", d, shape, p, err)
				return
			}
			if e := rt.Compare(got, want, 0, 0, nil, 0); e != nil {
				k.Failf("SumAlong(%d) over whole numbers of size 2^52 (shape %v, every partial sum exact): %v", d, shape, e)
				return
			}
		}
		return
	}
	rows, n := 2+r.Intn(3), 2*(2+r.Intn(4))
	x := ref.Zeros([]int{rows, n})
	a := []float64{1e308, 1.5e308, 9e307}[r.Intn(3)]
	g := r.Intn(rows)
	for j := 0; j < n; j++ {
		x.Data[g*n+j] = a
		if j%2 == 1 {
			x.Data[g*n+j] = -a
		}
	}
	for q := 0; q < rows; q++ {
		if q != g {
			for j := 0; j < n; j++ {
				x.Data[q*n+j] = float64(1 + r.Intn(9))
			}
		}
	}
	k.Case = map[string]any{"family": "alternating giants", "shape": x.Shape, "giant": a, "row": g}
	k.Key("alternating-giants/%d/%d", rows, n)
	k.Count("alternating_giant_cases", 1)
	t := rt.MustLeaf(x, false)
	want := 0.
	for q := 0; q < rows; q++ {
		if q != g {
			for j := 0; j < n; j++ {
				want += x.Data[q*n+j]
			}
		}
	}
	if g != rows-1 { // the ordinary rows after the giants are added to a running total of exactly 0; before them they would be absorbed
		want = 0
		for q := g + 1; q < rows; q++ {
			for j := 0; j < n; j++ {
				want += x.Data[q*n+j]
			}
		}
	}
	var sum float64
	if p := call(func() { sum = t.Sum() }); p != nil {
		k.Failf("Sum: panic: %v", p)
		return
	}
	if math.IsNaN(sum) || math.IsInf(sum, 0) {
		k.Failf("Sum() of shape %v whose row %d alternates +%v, -%v (every prefix and every contiguous block of the storage order is finite) = %v", x.Shape, g, a, a, sum)
		return
	}
	in := ref.Instr{Op: []string{"sumalong", "avgalong", "meanalong"}[r.Intn(3)], Dim: 1}
	got, err, p := exec(in, []tensor.Tensor{t})
	if p != nil || err != nil || got == nil {
		k.Failf("%s(1): panic=%v err=%v", in.Op, p, err)
		return
	}
	gv, err := rt.Read(got)
	if err != nil || len(gv.Data) != rows {
		k.Failf("%s(1): result unreadable: %v", in.Op, err)
		return
	}
	if gv.Data[g] != 0 {
		k.Failf("%s(1) of the fibre +%v, -%v, ... (%d elements, every prefix finite, total exactly 0) = %v", in.Op, a, a, n, gv.Data[g])
	}
	_ = want
}
