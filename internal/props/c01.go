package props

import (
	"fmt"
	"math"
	"runtime"
	"time"

	"github.com/sahandsafizadeh/qeep/tensor"

	"qeepverif/internal/fw"
	"qeepverif/internal/ref"
	"qeepverif/internal/rt"
)

// C01 — back-propagation yields the total derivative on any operation DAG,
// with every backward rule applied a bounded number of times.

func init() {
	fw.Register(&fw.Prop{
		ID: "C01",
		Rule: "graph-level gradient monitor: seeded random straight-line programs (3-40 operations over Scale/Sin/Cos/Tanh/Exp/Pow/Add/Sub/Mul/Div/Sum-,MeanAlong/Reshape/Transpose/UnSqueeze/Flatten/Slice/Concat/Patch/MatMul/Dot, leaves tracked or not at random, operand choice biased towards results that already have a consumer, same node used twice by one op) are executed on the real library once per root (every tensor of the program is tried as root; a sample of 8 roots for programs longer than 16); after BackPropagate(root) EVERY tensor's Gradient() is compared with the reverse-topological reference tape (nil-ness, shape, value). " +
			"Second family: 2-4 sub-programs over shared leaves only, back-propagated in turn; leaves must hold the sum. Third family: ladders h<-a*h+b*h and fan-out chains of depth 8..64 (256 in thorough). " +
			"Bounded-application clause: the verif hook counts backward-rule applications per BackPropagate; invariant total <= 4E+4 and no edge more than 4 times (E = upper bound on back edges incl. implicit Broadcast nodes); the callback aborts the walk as soon as the bound is exceeded. Hook-free twin: malloc count of BackPropagate on ladders of depth 10..18 must stay <= 20 x (mallocs per edge at depth 3) x E. " +
			"Non-trivial: the root reaches an interior node with >= 2 consumers and a tracked leaf; distinct = (max fan-out, number of reconvergent nodes, depth, number of instructions, root). Later additions: explicit Broadcast (factor 1), order statistics / spread / ElMax / ElMin / Log / Cosh / Tan / Squeeze in the op mix, scale factors 1, -1 and 0; an endurance case of 70 000 checked back-propagations in one process. Comparison is judged against the reference tape run on absolute values; programs whose reference gradients exceed 1e8 get no verdict." +
			" Round 4: graphs over the SAME leaf objects (tracked parameters and untracked constants) built and back-propagated one after the other with the tracked leaves reset in between; Patch with a different same-shape source or a block of another node in the generator; every slice argument is overwritten as soon as a call returns.",
		Assumptions: []string{
			"operands of binary operations have equal shapes (expansion factor 1): expansion semantics are C07's subject and carry a recorded finding",
			"values are kept inside the differentiable region and |v| <= 50 by the value-aware generator",
			"the hook call verifRule(edge) sits immediately before edge.gradFn(); if it were lost the hook clause reports inconclusive and the allocation twin still decides the clause",
		},
		FloorQuick: 4000, FloorThor: 15000,
		Run: runC01,
		Finish: func(c *fw.Ctx, m *fw.Report, cov map[string]any) {
			if m.Counters["hook_silent_backprops"] > 0 {
				c.Inconclusive("the rule-application hook stayed silent on %d back-propagations that delivered gradients (is the verifRule call still in place?): the hook-based part of the bounded-application clause is undecided", m.Counters["hook_silent_backprops"])
			}
		},
	})
}

type c01case struct {
	Family string   `json:"family"`
	Prog   ref.Prog `json:"program"`
	Roots  []int    `json:"roots"`
}

// ruleCounter is installed as the verif rule hook for one back-propagation.
type ruleCounter struct {
	perEdge map[any]int
	total   int
	bound   int
	maxEdge int
}

type ruleBoundExceeded struct{ total, bound, edgeMax int }

func (rc *ruleCounter) hook(edge any, _ tensor.Tensor) {
	rc.total++
	rc.perEdge[edge]++
	if rc.perEdge[edge] > rc.maxEdge {
		rc.maxEdge = rc.perEdge[edge]
	}
	if rc.total > rc.bound || rc.maxEdge > 4 {
		panic(ruleBoundExceeded{rc.total, rc.bound, rc.maxEdge})
	}
}

// edgeBound: upper bound on the back edges reachable from root (3 per operand slot covers implicit Broadcast nodes) + start edge.
func edgeBound(p ref.Prog, root int) int {
	reach := make([]bool, len(p))
	reach[root] = true
	e := 1
	for i := root; i >= 0; i-- {
		if reach[i] {
			e += 3 * len(p[i].In)
			for _, j := range p[i].In {
				reach[j] = true
			}
		}
	}
	return e
}

// backpropCounted runs BackPropagate(t) under the rule counter. It returns the counter, the error and a bound violation if any.
func backpropCounted(t tensor.Tensor, bound int) (rc *ruleCounter, err error, exceeded *ruleBoundExceeded, panicked any) {
	rc = &ruleCounter{perEdge: map[any]int{}, bound: bound}
	tensor.VerifSetRuleHook(rc.hook)
	defer tensor.VerifSetRuleHook(nil)
	panicked = call(func() { err = tensor.BackPropagate(t) })
	if ex, ok := panicked.(ruleBoundExceeded); ok {
		return rc, nil, &ex, nil
	}
	return rc, err, nil, panicked
}

// maxAbsAll: like maxAbs but NaN / Inf count as infinite.
func maxAbsAll(t *ref.T) float64 {
	m := 0.
	for _, v := range t.Data {
		a := math.Abs(v)
		if a != a || a > m {
			m = a
		}
		if a != a {
			return math.Inf(1)
		}
	}
	return m
}

// checkGrads compares every tensor's gradient with the expected ones (nil = must be nil).
func checkGrads(ts []tensor.Tensor, want []*ref.T, what string) string {
	return checkGradsScaled(ts, want, nil, what)
}

// checkGradsScaled: scale[i] (optional) holds, per element, the sum of the absolute contributions that were
// accumulated into the expected gradient; a cancellation residue of 1e-11 of that scale is not a difference.
func checkGradsScaled(ts []tensor.Tensor, want, scale []*ref.T, what string) string {
	for i, t := range ts {
		if t == nil {
			continue
		}
		g := t.Gradient()
		if want[i] == nil {
			if g != nil {
				return fmt.Sprintf("%s: tensor %d must not have a gradient but has one", what, i)
			}
			continue
		}
		if g == nil {
			return fmt.Sprintf("%s: tensor %d (tracked, reachable from the root) has no gradient", what, i)
		}
		got, err := rt.Read(g)
		if err != nil {
			return fmt.Sprintf("%s: tensor %d: %v", what, i, err)
		}
		var sc *ref.T
		if scale != nil {
			sc = scale[i]
		}
		if e := rt.CompareRef(got, want[i], 1e-10*(1+maxAbs(want[i])), 1e-9, sc, 1e-11); e != nil {
			return fmt.Sprintf("%s: gradient of tensor %d differs from the total derivative: %v", what, i, e)
		}
	}
	return ""
}

func runC01(c *fw.Ctx) {
	// ---------- family 1: random reconvergent programs, every tensor as root ----------
	for i := 0; i < c.Pick(12000, 300000); i++ {
		c.Case(func(k *fw.K) {
			p, vals := genProgram(k.Rng, progOpts{MinInstr: 3, MaxInstr: 40, MaxLeaves: 4, MaxRank: 3, MaxDim: 3})
			roots := make([]int, 0, len(p))
			if len(p) <= 16 {
				for r := range p {
					roots = append(roots, r)
				}
			} else {
				roots = append(roots, len(p)-1)
				for len(roots) < 8 {
					roots = append(roots, k.Rng.Intn(len(p)))
				}
			}
			k.Case = c01case{Family: "random-dag", Prog: p, Roots: roots}
			k.Sample()
			for _, in := range p {
				k.Count("program_ops_"+in.Op, 1)
			}
			tr := p.TrackedSet()
			for _, root := range roots {
				fan, reconv, depth := progStats(p, root)
				if tr[root] && reconv >= 1 {
					k.Key("fan%d/reconv%d/depth%d/n%d/root%d", fan, reconv, depth, len(p), root)
					k.Count("backprops_over_reconvergent_graphs", 1)
				}
				k.Count("backprops", 1)
				k.Max("max_fanout", int64(fan))
				k.Max("max_reconvergent_nodes", int64(reconv))
				k.Max("max_depth", int64(depth))
				if !c01OneRoot(k, p, vals, root) {
					return
				}
			}
		})
	}

	// ---------- family 2: graphs sharing only leaves, back-propagated in turn ----------
	for i := 0; i < c.Pick(3000, 60000); i++ {
		c.Case(func(k *fw.K) { c01SharedLeaves(k) })
	}

	// ---------- roots whose shapes collide under ad-hoc keys (equal products, shared prefixes / suffixes across ranks), back-propagated one after the other ----------
	for gi, group := range CollidingShapes {
		gi, group := gi, group
		c.Case(func(k *fw.K) {
			k.Key("colliding-roots/%d", gi)
			k.Count("colliding_root_groups", 1)
			for _, shape := range group {
				a, f := Shuffled(k.Rng, Unique(k.Rng, shape, 0.3, 1.5)), Shuffled(k.Rng, Unique(k.Rng, shape, 0.5, 2))
				p := ref.Prog{{Op: "leaf", Shape: shape, Data: a.Data, Tracked: true}, {Op: "leaf", Shape: shape, Data: f.Data},
					{Op: "pow", In: []int{0}, F: 2}, {Op: "mul", In: []int{1, 2}}}
				vals, err := p.Eval()
				if err != nil {
					k.Failf("harness: %v", err)
					return
				}
				k.Case = c01case{Family: "colliding root shapes", Prog: p, Roots: []int{3}}
				if !c01OneRoot(k, p, vals, 3) {
					return
				}
			}
		})
	}

	// ---------- a tracked RESULT is made a leaf of its own (ResetGradContext(true)) before any graph uses it ----------
	for i := 0; i < c.Pick(600, 12000); i++ {
		c.Case(func(k *fw.K) { c01Rearmed(k) })
	}

	// ---------- a gradient of one back-propagated graph is used as DATA by a later graph ----------
	for i := 0; i < c.Pick(500, 10000); i++ {
		c.Case(func(k *fw.K) { c01GradientAsData(k) })
	}

	// ---------- a reconverging block behind a SATURATED unit: r = c*h + h^2 with h = tanh(x), |x| = 9..15 and c = 1e6..1e7 - the total
	// derivative (c + 2h)/cosh^2(x) is an ordinary number (1e-6..1) although the local derivative of tanh is 1e-8..1e-13 ----------
	for i := 0; i < c.Pick(300, 6000); i++ {
		c.Case(func(k *fw.K) {
			r := k.Rng
			shape := RandShape(r, 1, 2, 3)
			x := ref.Zeros(shape)
			for j := range x.Data {
				x.Data[j] = (9 + 6*r.Float64()) * []float64{1, -1}[r.Intn(2)]
			}
			cf := math.Ldexp(1, 20+r.Intn(4)) // 2^20..2^23: c*h is exact up to one rounding
			p := ref.Prog{{Op: "leaf", Shape: shape, Data: x.Data, Tracked: true}, {Op: "tanh", In: []int{0}}, {Op: "scale", In: []int{1}, F: cf},
				{Op: "pow", In: []int{1}, F: 2}, {Op: "add", In: []int{2, 3}}}
			vals, err := p.Eval()
			if err != nil {
				k.Failf("harness: %v", err)
				return
			}
			k.Case = c01case{Family: "reconverging block behind a saturated tanh", Prog: p, Roots: []int{4}}
			k.Key("saturated-diamond/%s/%g", shapeKey(shape), cf)
			k.Count("saturated_diamond_cases", 1)
			c01OneRoot(k, p, vals, 4)
		})
	}

	// ---------- Concat of 3..5 operands whose extents differ (also when they add up to a multiple of the first, as 2, 1, 3 do) and Patch with a
	// full-length index holding {0,0} entries next to explicit ones, sources smaller than the canvas: weighted and back-propagated ----------
	for i := 0; i < c.Pick(600, 12000); i++ {
		c.Case(func(k *fw.K) {
			r := k.Rng
			var p ref.Prog
			var what string
			if r.Intn(2) == 0 {
				base := RandShape(r, 1, 3, 3)
				dim := r.Intn(len(base))
				ext := [][]int{{2, 1, 3}, {1, 2, 3, 2}, {3, 1, 2}, {1, 3, 1, 2, 3}, {2, 3, 1}, {1, 1, 4}, {2, 2, 1, 3}}[r.Intn(7)]
				var parts []int
				for _, e := range ext {
					sh := ref.CopyInts(base)
					sh[dim] = e
					v := Shuffled(r, Unique(r, sh, 0.2, 2))
					p = append(p, ref.Instr{Op: "leaf", Shape: sh, Data: v.Data, Tracked: r.Intn(4) > 0})
					parts = append(parts, len(p)-1)
				}
				p = append(p, ref.Instr{Op: "concat", In: parts, Dim: dim})
				what = fmt.Sprintf("concat-extents/%v/%d", ext, dim)
			} else {
				canvas := RandShape(r, 1, 3, 4)
				src := make([]int, len(canvas))
				idx := make([]ref.Range, len(canvas))
				for d := range canvas {
					src[d] = 1 + r.Intn(canvas[d])
					off := r.Intn(canvas[d] - src[d] + 1)
					idx[d] = ref.Range{From: off, To: off + src[d]}
					if r.Intn(2) == 0 { // {0,0}: offset 0 with the source's extent
						idx[d] = ref.Range{}
					}
				}
				cv, sv := Shuffled(r, Unique(r, canvas, 0.2, 2)), Shuffled(r, Unique(r, src, 3, 5))
				p = append(p, ref.Instr{Op: "leaf", Shape: canvas, Data: cv.Data, Tracked: r.Intn(2) == 0}, ref.Instr{Op: "leaf", Shape: src, Data: sv.Data, Tracked: true},
					ref.Instr{Op: "patch", In: []int{0, 1}, Index: idx})
				what = fmt.Sprintf("patch-forms/%s/%s/%v", shapeKey(canvas), shapeKey(src), idx)
			}
			last := len(p) - 1
			vals, err := p.Eval()
			if err != nil {
				k.Failf("harness: %v", err)
				return
			}
			g := Shuffled(r, Unique(r, vals[last].Shape, 0.5, 3))
			p = append(p, ref.Instr{Op: "leaf", Shape: g.Shape, Data: g.Data}, ref.Instr{Op: "mul", In: []int{last, last + 1}})
			if vals, err = p.Eval(); err != nil {
				k.Failf("harness: %v", err)
				return
			}
			k.Case = c01case{Family: "Concat over differing extents / Patch with mixed index forms, weighted", Prog: p, Roots: []int{len(p) - 1}}
			k.Key("%s", what)
			k.Count("concat_patch_form_cases", 1)
			c01OneRoot(k, p, vals, len(p)-1)
		})
	}

	// ---------- family 3: deep ladders / fan-out chains (bounded-application clause) ----------
	depths := []int{8, 16, 24, 32, 48, 64}
	if !c.Quick() {
		depths = append(depths, 96, 128, 192, 256)
	}
	for _, d := range depths {
		for kind := 0; kind < 3; kind++ {
			d, kind := d, kind
			c.Case(func(k *fw.K) {
				p := ladder(kind, d)
				vals, err := p.Eval()
				if err != nil {
					k.Failf("harness: %v", err)
					return
				}
				k.Case = map[string]any{"family": "deep-ladder", "kind": kind, "depth": d, "instructions": len(p)}
				k.Key("ladder/kind%d/depth%d", kind, d)
				k.Count("deep_graph_backprops", 1)
				k.Max("max_depth", int64(d))
				// a walk that follows every PATH instead of every node needs 2^depth steps here: the work is bounded in CPU time
				// (20 s for a call that needs milliseconds), independent of how loaded the machine is
				k.CPUGuard(20*time.Second, fmt.Sprintf("BackPropagate over a ladder of depth %d (%d operations, every level read twice by the next)", d, len(p)), func() {
					c01OneRoot(k, p, vals, len(p)-1)
				})
			})
		}
	}

	// ---------- wide fan-in: one Concat over 33..130 interior tensors (tracked ones at late positions), weighted and back-propagated ----------
	for i := 0; i < c.Pick(24, 400); i++ {
		c.Case(func(k *fw.K) {
			r := k.Rng
			n := []int{33, 64, 65, 72, 100, 130}[r.Intn(6)]
			var p ref.Prog
			var parts []int
			for j := 0; j < n; j++ {
				v := Shuffled(r, Unique(r, []int{1, 2}, 0.2, 2))
				p = append(p, ref.Instr{Op: "leaf", Shape: v.Shape, Data: v.Data, Tracked: r.Intn(3) > 0 || j >= 64})
				leaf := len(p) - 1
				if r.Intn(2) == 0 {
					p = append(p, ref.Instr{Op: "scale", In: []int{leaf}, F: 2})
					parts = append(parts, len(p)-1)
				} else {
					parts = append(parts, leaf)
				}
			}
			p = append(p, ref.Instr{Op: "concat", In: parts, Dim: 0})
			cat := len(p) - 1
			w := Shuffled(r, Unique(r, []int{n, 2}, 0.5, 2))
			p = append(p, ref.Instr{Op: "leaf", Shape: w.Shape, Data: w.Data}, ref.Instr{Op: "mul", In: []int{cat, cat + 1}})
			vals, err := p.Eval()
			if err != nil {
				k.Failf("harness: %v", err)
				return
			}
			k.Case = map[string]any{"family": "wide-concat", "operands": n}
			k.Key("wide-concat/%d/%d", n, i%4)
			k.Count("wide_fan_in_graphs", 1)
			c01OneRoot(k, p, vals, len(p)-1)
		})
	}

	// ---------- sibling Concats over one Concat result, consumed by rules that re-read their operand at back-propagation time:
	// s = [a; b], h1 = [s; c], z1 = h1^2, h2 = [s; d], z2 = exp(h2) or log / sin, root = z1 + z2 ----------
	for i := 0; i < c.Pick(80, 1600); i++ {
		c.Case(func(k *fw.K) {
			r := k.Rng
			base := RandShape(r, 1, 3, 3)
			dim := r.Intn(len(base))
			part := func(n int) ref.Instr {
				sh := ref.CopyInts(base)
				sh[dim] = n
				v := Shuffled(r, UniquePos(r, sh, 0.3, 1.5))
				return ref.Instr{Op: "leaf", Shape: sh, Data: v.Data, Tracked: r.Intn(4) > 0}
			}
			tail := 1 + r.Intn(2)
			p := ref.Prog{part(2), part(1), part(tail), part(tail),
				{Op: "concat", In: []int{0, 1}, Dim: dim},
				{Op: "concat", In: []int{4, 2}, Dim: dim},
				{Op: []string{"pow", "log", "sin"}[r.Intn(3)], In: []int{5}, F: 2},
				{Op: "concat", In: []int{4, 3}, Dim: dim},
				{Op: []string{"exp", "pow", "tanh"}[r.Intn(3)], In: []int{7}, F: 3},
				{Op: "add", In: []int{6, 8}},
			}
			p[2].Tracked = true
			vals, err := p.Eval()
			if err != nil {
				k.Failf("harness: %v", err)
				return
			}
			k.Case = c01case{Family: "sibling Concats over one Concat result", Prog: p}
			k.Key("sibling-concats/%s/%d/%d/%s/%s", shapeKey(base), dim, tail, p[6].Op, p[8].Op)
			k.Count("graphs_with_sibling_concats", 1)
			c01OneRoot(k, p, vals, len(p)-1)
		})
	}

	// ---------- selections between neighbouring doubles inside a reconvergent graph: r = ElMax(a, b) * w + ElMin(a, b) + MaxAlong(c) ----------
	for i := 0; i < c.Pick(60, 1200); i++ {
		c.Case(func(k *fw.K) {
			r := k.Rng
			shape := RandShape(r, 1, 2, 3)
			a := Shuffled(r, Unique(r, shape, 0.2, 2))
			b := a.Clone()
			for i := range b.Data {
				d := math.Inf(1)
				if r.Intn(2) == 0 {
					d = math.Inf(-1)
				}
				b.Data[i] = math.Nextafter(a.Data[i], d)
			}
			w := Shuffled(r, Unique(r, shape, 0.5, 2))
			p := ref.Prog{
				{Op: "leaf", Shape: shape, Data: a.Data, Tracked: true},
				{Op: "leaf", Shape: shape, Data: b.Data, Tracked: r.Intn(2) == 0},
				{Op: "leaf", Shape: shape, Data: w.Data},
				{Op: "elmax", In: []int{0, 1}},
				{Op: "mul", In: []int{3, 2}},
				{Op: "elmin", In: []int{1, 0}},
				{Op: "add", In: []int{4, 5}},
				{Op: "concat", In: []int{0, 1}, Dim: 0},
				{Op: []string{"maxalong", "minalong"}[r.Intn(2)], In: []int{7}, Dim: 0},
			}
			vals, err := p.Eval()
			if err != nil {
				k.Failf("harness: %v", err)
				return
			}
			k.Case = c01case{Family: "selections between neighbouring doubles", Prog: p}
			k.Key("neighbouring/%s/%d", shapeKey(shape), i%8)
			k.Count("graphs_with_selections_between_neighbouring_doubles", 1)
			root := []int{6, 8}[r.Intn(2)]
			c01OneRoot(k, p, vals, root)
		})
	}

	// ---------- endurance: 70 000 back-propagations in ONE process (counters, generation marks, pooled state) ----------
	c.Case(func(k *fw.K) {
		n := c.Pick(70000, 200000)
		k.Case = map[string]any{"family": "endurance", "back_propagations_in_one_process": n, "graph": "y = x*x + sin(x), x tracked [2]"}
		k.Key("endurance/%d", n)
		for i := 0; i < n; i++ {
			a, b := 0.1+float64(i%97)/50, -0.3-float64(i%89)/70
			x := rt.MustLeaf(ref.New([]int{2}, []float64{a, b}), true)
			var err error
			if p := call(func() {
				var xx, y tensor.Tensor
				if xx, err = x.Mul(x); err != nil {
					return
				}
				if y, err = xx.Add(x.Sin()); err != nil {
					return
				}
				err = tensor.BackPropagate(y)
			}); p != nil || err != nil {
				k.Failf("endurance: back-propagation number %d in this process failed: panic=%v err=%v", i+1, p, err)
				return
			}
			g := x.Gradient()
			if g == nil {
				k.Failf("endurance: back-propagation number %d in this process left the tracked leaf without a gradient", i+1)
				return
			}
			got, err := rt.Read(g)
			want := ref.New([]int{2}, []float64{2*a + math.Cos(a), 2*b + math.Cos(b)})
			if err != nil || gradClose(got, want) != nil {
				k.Failf("endurance: back-propagation number %d in this process: gradient %v, expected %v (%v)", i+1, got, want.Data, err)
				return
			}
		}
		k.Count("endurance_backprops", int64(n))
	})

	// ---------- hook-free twin: allocation count on ladders run to completion ----------
	c.Case(func(k *fw.K) { c01MallocTwin(k) })
}

// ladder builds a deep graph in which every level consumes the previous level twice.
func ladder(kind, depth int) ref.Prog {
	p := ref.Prog{{Op: "leaf", Shape: []int{2}, Data: []float64{0.3, -0.2}, Tracked: true}}
	h := 0
	for d := 0; d < depth; d++ {
		switch kind {
		case 0: // h <- 0.6h + 0.4h (derivative stays 1 at any depth, so a path-counting error cannot hide below a tolerance)
			p = append(p, ref.Instr{Op: "scale", In: []int{h}, F: 0.6}, ref.Instr{Op: "scale", In: []int{h}, F: 0.4})
			p = append(p, ref.Instr{Op: "add", In: []int{len(p) - 2, len(p) - 1}})
		case 1: // h <- tanh(h) * cos(h)
			p = append(p, ref.Instr{Op: "tanh", In: []int{h}}, ref.Instr{Op: "cos", In: []int{h}})
			p = append(p, ref.Instr{Op: "mul", In: []int{len(p) - 2, len(p) - 1}})
		case 2: // h <- h - 0.5*h*h (h used three times)
			p = append(p, ref.Instr{Op: "mul", In: []int{h, h}}, ref.Instr{Op: "scale", In: []int{len(p)}, F: 0.5})
			p = append(p, ref.Instr{Op: "sub", In: []int{h, len(p) - 1}})
		}
		h = len(p) - 1
	}
	return p
}

func c01OneRoot(k *fw.K, p ref.Prog, vals []*ref.T, root int) bool {
	what := fmt.Sprintf("root %d of %d", root, len(p))
	if (k.Index+root)%7 == 3 {
		refusedCalls(k)
	}
	var ts []tensor.Tensor
	var err error
	if pn := call(func() { ts, err = rt.Run(p[:root+1]) }); pn != nil || err != nil {
		k.Failf("%s: forward execution failed: panic=%v err=%v", what, pn, err)
		return false
	}
	// forward values are free to check too
	if e := rt.Compare(ts[root], vals[root], 1e-9, 1e-9, nil, 0); e != nil {
		k.Failf("%s: forward value differs from the reference: %v", what, e)
		return false
	}
	E := edgeBound(p, root)
	rc, berr, exceeded, pn := backpropCounted(ts[root], 4*E+4)
	if exceeded != nil {
		k.Failf("%s: backward rules applied more often than the bound allows: %d applications so far (bound 4E+4 = %d for E = %d back edges), busiest edge %d times — the walk was aborted", what, exceeded.total, exceeded.bound, E, exceeded.edgeMax)
		return false
	}
	if pn != nil || berr != nil {
		k.Failf("%s: BackPropagate failed: panic=%v err=%v", what, pn, berr)
		return false
	}
	want, scale := p.GradS(vals, root, nil, ref.RuleSum)
	// ill-conditioned programs get no verdict: gradients that overflow or are astronomically large are outside
	// what a comparison of floating-point results can decide
	for _, w := range want {
		if w != nil && !(maxAbsAll(w) < 1e8) {
			k.Count("backprops_skipped_ill_conditioned", 1)
			return true
		}
	}
	full := make([]tensor.Tensor, len(p))
	copy(full, ts)
	if msg := checkGradsScaled(full[:root+1], want[:root+1], scale[:root+1], what); msg != "" {
		k.Failf("%s", msg)
		return false
	}
	k.Max("max_rule_applications_per_edge", int64(rc.maxEdge))
	k.Count("rule_applications_observed", int64(rc.total))
	if want[root] != nil && rc.total == 0 {
		k.Count("hook_silent_backprops", 1)
	}
	return true
}

func c01SharedLeaves(k *fw.K) {
	b := &progBuilder{r: k.Rng}
	nl := 1 + k.Rng.Intn(3)
	var leaves []int
	shape := RandShape(k.Rng, 0, 2, 3)
	for i := 0; i < nl; i++ {
		leaves = append(leaves, b.leaf(shape, i == 0 || k.Rng.Intn(3) > 0))
	}
	nsub := 2 + k.Rng.Intn(3)
	var roots, starts []int
	for s := 0; s < nsub; s++ {
		allowed := append([]int(nil), leaves...)
		n := 1 + k.Rng.Intn(8)
		start := len(b.p)
		starts = append(starts, start)
		for len(b.p)-start < n {
			allowed = append(allowed, b.step(allowed)...)
		}
		roots = append(roots, len(b.p)-1)
	}
	if k.Index%2 == 1 {
		c01Sequential(k, b, nl, starts, roots)
		return
	}
	if k.Rng.Intn(3) == 0 { // a leaf back-propagated directly, possibly twice
		roots = append(roots, leaves[0], leaves[0])
	}
	p, vals := b.p, b.vals
	k.Case = c01case{Family: "shared-leaves", Prog: p, Roots: roots}
	k.Key("shared/%d-leaves/%d-backprops/%d-instr", nl, len(roots), len(p))
	k.Count("shared_leaf_histories", 1)
	k.Sample()
	var ts []tensor.Tensor
	var err error
	interleaved := k.Index%4 == 2 && len(roots) == len(starts)
	if interleaved {
		// the construction of each graph STRADDLES the back-propagation of the previous one: graph s is half built, graph s-1
		// is back-propagated, graph s is completed (no resets; the graphs share only leaves, gradients accumulate)
		k.Count("shared_leaf_histories_with_interleaved_construction", 1)
		ts = make([]tensor.Tensor, len(p))
	} else if pn := call(func() { ts, err = rt.Run(p) }); pn != nil || err != nil {
		k.Failf("forward execution failed: panic=%v err=%v", pn, err)
		return
	}
	build := func(from, to int) bool {
		var berr error
		if pn := call(func() {
			for i := from; i < to && berr == nil; i++ {
				xs := make([]tensor.Tensor, len(p[i].In))
				for q, j := range p[i].In {
					xs[q] = ts[j]
				}
				ts[i], berr = rt.Exec(p[i], xs)
			}
		}); pn != nil || berr != nil {
			k.Failf("forward execution of instructions %d..%d failed: panic=%v err=%v", from, to-1, pn, berr)
			return false
		}
		return true
	}
	// everything that takes a shared LEAF as a direct operand is built before the first back-propagation (afterwards the leaf is
	// spent and, by C08, results computed from it directly would be untracked); the rest of each graph is built only after the
	// previous graph has been back-propagated
	mids := make([]int, len(roots))
	if interleaved {
		if !build(0, nl) {
			return
		}
		for s := range starts {
			mids[s] = starts[s]
			for i := starts[s]; i <= roots[s]; i++ {
				for _, j := range p[i].In {
					if j < nl {
						mids[s] = i + 1
					}
				}
			}
			if !build(starts[s], mids[s]) {
				return
			}
		}
	}
	acc := make([]*ref.T, len(p))
	for n, root := range roots {
		if interleaved {
			if n > 0 && mids[n] <= root {
				k.Count("graphs_completed_after_the_previous_back_propagation", 1)
			}
			if !build(mids[n], root+1) {
				return
			}
		}
		_, berr, exceeded, pn := backpropCounted(ts[root], 4*edgeBound(p, root)+4)
		if exceeded != nil || pn != nil || berr != nil {
			k.Failf("back-propagation %d (root %d) failed: bound=%v panic=%v err=%v", n, root, exceeded, pn, berr)
			return
		}
		k.Count("backprops", 1)
		g := p.Grad(vals, root, nil, ref.RuleSum)
		for i := range g {
			if g[i] == nil {
				continue
			}
			if acc[i] == nil {
				acc[i] = g[i].Clone()
			} else {
				for q := range acc[i].Data {
					acc[i].Data[q] += g[i].Data[q]
				}
			}
		}
		if msg := checkGrads(ts, acc, fmt.Sprintf("after back-propagation %d of %d (root %d)", n+1, len(roots), root)); msg != "" {
			k.Failf("%s", msg)
			return
		}
	}
}

// c01Rearmed: h is computed from a tracked leaf a (so it has back edges), then h.ResetGradContext(true) makes it a fresh leaf
// BEFORE any graph uses it. Graphs built afterwards over a and h treat h as a leaf: the derivative with respect to a does not
// run through h.
func c01Rearmed(k *fw.K) {
	shape := RandShape(k.Rng, 0, 3, 3)
	av := Shuffled(k.Rng, Unique(k.Rng, shape, 0.2, 1.5))
	a := rt.MustLeaf(av, true)
	chain := []ref.Instr{{Op: "exp"}, {Op: "tanh"}, {Op: "scale", F: 1.5}, {Op: "sin"}, {Op: "pow", F: 2}}
	hv, h := av, a
	for n := 1 + k.Rng.Intn(3); n > 0; n-- {
		in := chain[k.Rng.Intn(len(chain))]
		nv, err := ref.Apply(in, []*ref.T{hv})
		if err != nil {
			k.Failf("harness: %v", err)
			return
		}
		nh, err := rt.Exec(in, []tensor.Tensor{h})
		if err != nil {
			k.Failf("%s: %v", in.Op, err)
			return
		}
		hv, h = nv, nh
	}
	h.ResetGradContext(true)
	b := &progBuilder{r: k.Rng}
	la, lh := b.leaf(shape, true), b.leaf(shape, true)
	copy(b.vals[la].Data, av.Data)
	copy(b.vals[lh].Data, hv.Data)
	b.p[la].Data, b.p[lh].Data = b.vals[la].Data, b.vals[lh].Data
	allowed := []int{la, lh}
	for len(b.p) < 2+2+k.Rng.Intn(6) {
		allowed = append(allowed, b.step(allowed)...)
	}
	p, root := b.p, len(b.p)-1
	vals, err := p.Eval()
	if err != nil {
		k.Failf("harness: %v", err)
		return
	}
	k.Case = c01case{Family: "a tracked result re-armed as a leaf before use (tensor 1 = f(tensor 0), then ResetGradContext(true))", Prog: p, Roots: []int{root}}
	k.Key("rearmed/%s/%d-instr", shapeKey(shape), len(p))
	k.Count("rearmed_interior_cases", 1)
	ts := make([]tensor.Tensor, len(p))
	ts[la], ts[lh] = a, h
	if pn := call(func() {
		for i := 2; i < len(p) && err == nil; i++ {
			xs := make([]tensor.Tensor, len(p[i].In))
			for q, j := range p[i].In {
				xs[q] = ts[j]
			}
			ts[i], err = rt.Exec(p[i], xs)
		}
		if err == nil {
			err = tensor.BackPropagate(ts[root])
		}
	}); pn != nil || err != nil {
		k.Failf("graph over a re-armed result: panic=%v err=%v", pn, err)
		return
	}
	want, scale := p.GradS(vals, root, nil, ref.RuleSum)
	for _, w := range want {
		if w != nil && !(maxAbsAll(w) < 1e8) {
			k.Count("cases_skipped_ill_conditioned", 1)
			return
		}
	}
	if msg := checkGradsScaled(ts, want, scale, "graph over tensor 0 and a result of tensor 0 that was re-armed as a leaf (tensor 1)"); msg != "" {
		k.Failf("%s", msg)
	}
}

// c01Sequential: the same leaf OBJECTS (tracked parameters and untracked constants) serve several graphs one after the
// other, the way a training loop uses them: build graph s, back-propagate it, compare every gradient of that graph, give
// the tracked leaves a fresh context (ResetGradContext(true)); the untracked constants are simply used again.
func c01Sequential(k *fw.K, b *progBuilder, nl int, starts, roots []int) {
	p, vals := b.p, b.vals
	k.Case = c01case{Family: "shared-leaves, graphs built and back-propagated one after the other (tracked leaves reset in between)", Prog: p, Roots: roots}
	k.Key("sequential/%d-leaves/%d-graphs/%d-instr", nl, len(roots), len(p))
	k.Count("sequential_leaf_reuse_histories", 1)
	k.Sample()
	ts := make([]tensor.Tensor, len(p))
	run := func(from, to int) (err error) {
		for i := from; i < to && err == nil; i++ {
			xs := make([]tensor.Tensor, len(p[i].In))
			for q, j := range p[i].In {
				xs[q] = ts[j]
			}
			ts[i], err = rt.Exec(p[i], xs)
		}
		return
	}
	var err error
	if pn := call(func() { err = run(0, nl) }); pn != nil || err != nil {
		k.Failf("leaf construction failed: panic=%v err=%v", pn, err)
		return
	}
	for s, root := range roots {
		if pn := call(func() { err = run(starts[s], root+1) }); pn != nil || err != nil {
			k.Failf("graph %d: forward execution failed: panic=%v err=%v", s+1, pn, err)
			return
		}
		if e := rt.Compare(ts[root], vals[root], 1e-9, 1e-9, nil, 0); e != nil {
			k.Failf("graph %d: forward value differs from the reference: %v", s+1, e)
			return
		}
		_, berr, exceeded, pn := backpropCounted(ts[root], 4*edgeBound(p, root)+4)
		if exceeded != nil || pn != nil || berr != nil {
			k.Failf("graph %d (root %d): back-propagation failed: bound=%v panic=%v err=%v", s+1, root, exceeded, pn, berr)
			return
		}
		k.Count("backprops", 1)
		want, scale := p.GradS(vals, root, nil, ref.RuleSum)
		ill := false
		for _, w := range want {
			ill = ill || (w != nil && !(maxAbsAll(w) < 1e8))
		}
		view := make([]tensor.Tensor, len(p))
		copy(view, ts[:nl])
		copy(view[starts[s]:root+1], ts[starts[s]:root+1])
		if ill {
			k.Count("cases_skipped_ill_conditioned", 1)
		} else if msg := checkGradsScaled(view, want, scale, fmt.Sprintf("graph %d of %d over the same leaf objects (root %d)", s+1, len(roots), root)); msg != "" {
			k.Failf("%s", msg)
			return
		}
		for i := 0; i < nl; i++ {
			if p[i].Tracked {
				ts[i].ResetGradContext(true)
			}
		}
	}
}

// c01MallocTwin decides the bounded-application clause without the hook: the
// number of heap allocations made by BackPropagate on a ladder of depth d
// (a logical, clock-free measure of the work done) must stay within
// 20 x (allocations per back edge measured at depth 3) x E(d).
func c01MallocTwin(k *fw.K) {
	tensor.VerifSetRuleHook(nil)
	measure := func(depth int) (mallocs uint64, E int, err error) {
		p := ladder(0, depth)
		ts, err := rt.Run(p)
		if err != nil {
			return 0, 0, err
		}
		runtime.GC()
		var m0, m1 runtime.MemStats
		runtime.ReadMemStats(&m0)
		err = tensor.BackPropagate(ts[len(p)-1])
		runtime.ReadMemStats(&m1)
		return m1.Mallocs - m0.Mallocs, edgeBound(p, len(p)-1), err
	}
	k.Case = map[string]any{"family": "malloc-twin", "depths": []int{3, 10, 12, 14, 16, 18}}
	k.Key("malloc-twin")
	base, e3, err := measure(3)
	if err != nil || base == 0 {
		k.Failf("malloc twin: calibration failed: %v", err)
		return
	}
	perEdge := float64(base) / float64(e3)
	for _, d := range []int{10, 12, 14, 16, 18} {
		var m uint64
		var E int
		var err error
		if pn := call(func() { m, E, err = measure(d) }); pn != nil || err != nil {
			k.Failf("malloc twin: depth %d failed: panic=%v err=%v", d, pn, err)
			return
		}
		ratio := float64(m) / (perEdge * float64(E))
		k.Max("malloc_twin_max_ratio_x100", int64(ratio*100))
		k.Count("malloc_twin_measurements", 1)
		if ratio > 20 {
			k.Failf("bounded-application clause (hook-free twin): BackPropagate on a ladder of depth %d made %d allocations = %.0f x the per-edge cost measured at depth 3 (%.1f allocations/edge x %d edges); polynomial work stays near 1x, a per-path walk costs 2^depth/depth", d, m, ratio, perEdge, E)
			return
		}
	}
}

// c01GradientAsData: graph 1 over the tracked leaves a and b is back-propagated; d = f(a.Gradient(), b.Gradient()) for a
// value-only f (the gradient itself, a sum, a scaling, a reshaping, a transposition, a Concat, a reduction) serves as a
// constant of graph 2 over a fresh leaf c. Back-propagating graph 2 must give c the derivative with d held constant and
// must leave the gradients of graph 1 as they were: graph 2 contains neither a nor b.
func c01GradientAsData(k *fw.K) {
	r := k.Rng
	shape := RandShape(r, 1, 3, 3)
	av, bv := Shuffled(r, Unique(r, shape, 0.3, 1.5)), Shuffled(r, Unique(r, shape, 0.4, 1.7))
	g1 := ref.Prog{{Op: "leaf", Shape: shape, Data: av.Data, Tracked: true}, {Op: "leaf", Shape: shape, Data: bv.Data, Tracked: true},
		{Op: "mul", In: []int{0, 1}}, {Op: "pow", In: []int{0}, F: 2}, {Op: "add", In: []int{2, 3}}}
	switch r.Intn(6) {
	case 1:
		g1 = append(g1, ref.Instr{Op: "sin", In: []int{4}}, ref.Instr{Op: "mul", In: []int{5, 1}})
	case 2:
		g1 = append(g1, ref.Instr{Op: "scale", In: []int{4}, F: -1.5})
	case 3: // graphs whose rules involve no operand value: every gradient is computed from the seed alone
		g1 = append(g1[:2], ref.Instr{Op: "scale", In: []int{0}, F: 3}, ref.Instr{Op: "add", In: []int{2, 1}})
	case 4:
		g1 = append(g1[:2], ref.Instr{Op: "scale", In: []int{1}, F: -2}, ref.Instr{Op: "sub", In: []int{0, 2}}, ref.Instr{Op: "add", In: []int{3, 0}},
			ref.Instr{Op: "sumalong", In: []int{4}, Dim: r.Intn(len(shape))})
	case 5:
		g1 = append(g1[:2], ref.Instr{Op: "concat", In: []int{0, 1, 0}, Dim: r.Intn(len(shape))}, ref.Instr{Op: "scale", In: []int{2}, F: 0.5},
			ref.Instr{Op: "flatten", In: []int{3}, Dim: 0})
	}
	root1 := len(g1) - 1
	vals1, err := g1.Eval()
	if err != nil {
		k.Failf("harness: %v", err)
		return
	}
	var ts1 []tensor.Tensor
	if pn := call(func() {
		if ts1, err = rt.Run(g1); err == nil {
			err = tensor.BackPropagate(ts1[root1])
		}
	}); pn != nil || err != nil {
		k.Failf("graph 1: panic=%v err=%v", pn, err)
		return
	}
	want1, scale1 := g1.GradS(vals1, root1, nil, ref.RuleSum)
	if msg := checkGradsScaled(ts1, want1, scale1, "graph 1"); msg != "" {
		k.Failf("%s", msg)
		return
	}
	ga, gb := ts1[0].Gradient(), ts1[1].Gradient()
	// d: computed from the gradient tensors by the library, and from their reference values by the reference
	how := r.Intn(8)
	var chain []ref.Instr
	switch how {
	case 0: // the gradient tensor itself
	case 1:
		chain = []ref.Instr{{Op: "add", In: []int{0, 1}}}
	case 2:
		chain = []ref.Instr{{Op: "scale", In: []int{0}, F: 0.5}}
	case 3:
		chain = []ref.Instr{{Op: "reshape", In: []int{0}, Shape: append([]int(nil), shape...)}}
	case 4:
		if len(shape) >= 2 {
			chain = []ref.Instr{{Op: "transpose", In: []int{0}}, {Op: "transpose", In: []int{2}}}
		} else {
			chain = []ref.Instr{{Op: "sub", In: []int{0, 1}}}
		}
	case 5:
		chain = []ref.Instr{{Op: "concat", In: []int{0, 1}, Dim: r.Intn(len(shape))}}
	case 6:
		chain = []ref.Instr{{Op: "add", In: []int{0, 1}}, {Op: "scale", In: []int{2}, F: 2}, {Op: "sub", In: []int{3, 1}}}
	case 7:
		chain = []ref.Instr{{Op: "unsqueeze", In: []int{0}, Dim: 0}, {Op: "sumalong", In: []int{2}, Dim: 0}}
	}
	dts, dvs := []tensor.Tensor{ga, gb}, []*ref.T{want1[0], want1[1]}
	for _, in := range chain {
		xs, xv := make([]tensor.Tensor, len(in.In)), make([]*ref.T, len(in.In))
		for q, j := range in.In {
			xs[q], xv[q] = dts[j], dvs[j]
		}
		nv, err := ref.Apply(in, xv)
		if err != nil {
			k.Failf("harness: %s: %v", in.Op, err)
			return
		}
		var nt tensor.Tensor
		if pn := call(func() { nt, err = rt.Exec(in, xs) }); pn != nil || err != nil {
			k.Failf("%s over gradient tensors: panic=%v err=%v", in.Op, pn, err)
			return
		}
		dts, dvs = append(dts, nt), append(dvs, nv)
	}
	d, dv := dts[len(dts)-1], dvs[len(dvs)-1]
	cv := Shuffled(r, Unique(r, dv.Shape, 0.2, 1.2))
	g2 := ref.Prog{{Op: "leaf", Shape: dv.Shape, Data: cv.Data, Tracked: true}, {Op: "leaf", Shape: dv.Shape, Data: dv.Data}, {Op: "mul", In: []int{0, 1}}}
	if r.Intn(2) == 0 {
		g2 = append(g2, ref.Instr{Op: "add", In: []int{2, 1}}, ref.Instr{Op: "pow", In: []int{3}, F: 2})
	}
	root2 := len(g2) - 1
	vals2, err := g2.Eval()
	if err != nil {
		k.Failf("harness: %v", err)
		return
	}
	k.Case = map[string]any{"family": "a gradient of graph 1 used as data by graph 2", "graph1": g1, "derivation": chain, "graph2": g2}
	k.Key("gradient-as-data/%d/%s/%d-%d", how, shapeKey(shape), len(g1), len(g2))
	k.Count("gradient_as_data_cases", 1)
	// Anything computed from a gradient tensor is untracked (C08), so graph 2 as it stands has an untracked root: in half the
	// cases d is first made a fresh constant (ResetGradContext(false)) and graph 2 is an ordinary graph over c, whose gradient
	// is decided; in the other half only graph 1 is judged - whatever BackPropagate(root 2) does, it does not contain a or b.
	fresh := r.Intn(2) == 0
	if fresh {
		d.ResetGradContext(false)
	}
	k.Key("gradient-as-data/fresh-constant=%v", fresh)
	ts2 := make([]tensor.Tensor, len(g2))
	ts2[0], ts2[1] = rt.MustLeaf(cv, true), d
	if pn := call(func() {
		for i := 2; i < len(g2) && err == nil; i++ {
			xs := make([]tensor.Tensor, len(g2[i].In))
			for q, j := range g2[i].In {
				xs[q] = ts2[j]
			}
			ts2[i], err = rt.Exec(g2[i], xs)
		}
		if err == nil {
			err = tensor.BackPropagate(ts2[root2])
		}
	}); pn != nil || err != nil {
		k.Failf("graph 2 (a constant computed from gradients of graph 1): panic=%v err=%v", pn, err)
		return
	}
	want2, scale2 := g2.GradS(vals2, root2, nil, ref.RuleSum)
	if !(maxAbsAll(want2[0]) < 1e8) {
		k.Count("cases_skipped_ill_conditioned", 1)
		return
	}
	if fresh {
		if msg := checkGradsScaled(ts2, want2, scale2, "graph 2, whose constant (tensor 1) was computed from gradients of graph 1 and then made a fresh constant"); msg != "" {
			k.Failf("%s", msg)
			return
		}
	}
	if ts1[0].Gradient() != ga || ts1[1].Gradient() != gb {
		k.Failf("back-propagating graph 2 replaced a gradient of graph 1, which it does not contain")
		return
	}
	if msg := checkGradsScaled(ts1, want1, scale1, "graph 1 after graph 2, whose constant was computed from gradients of graph 1, was back-propagated"); msg != "" {
		k.Failf("%s", msg)
	}
}
