package props

import "qeepverif/internal/fw"

// Workload families added in rounds 9-19 (DESIGN.md, section 7), appended to the rule texts that the evidence files report.
func init() {
	for id, more := range map[string]string{
		"C01": "Rounds 9-15: interleaved construction and re-armed interior tensors; wide fan-in (one Concat over 33..130 interior tensors); selections between neighbouring doubles inside a graph; deep ladders run under a CPU-time bound (20 s for milliseconds of work) instead of a wall clock; operand provenances (13 of 16 leaf constructions go through Reshape / Slice / Concat / Patch / adopted gradients / reducers / MatMul with the identity / Scale(1) / Transpose / a back-propagated graph / a no-op BackPropagate); one long-lived Config object for two creations in three; abandoned consumers.",
		"C02": "Rounds 9-15: saturated arguments; extreme second operands (subnormal divisors, 1e300 factors); tiny scalar arguments (exponents 1e-17..1e-300, scalings 1e+-300); scale factors 1 and -1; results that overflow with a finite derivative; selections between neighbouring doubles; Concat over 33..130 operands; arbitrary index / dim / shape arguments on tracked operands (whatever is accepted must back-propagate); abandoned consumers and derived tracked operands in every gradient check.",
		"C03": "Rounds 9-15: special arguments; every broadcast-compatible pair inside the colliding shape groups (incl. polynomial-hash collisions); exponents of tiny non-zero magnitude over zero / negative bases; neighbouring doubles for all same-shape operations and Equals; one-element power-of-two operands down to 2^-1074.",
		"C04": "Rounds 9-15: every rank pair 2..6, A.A, zero rows, explicitly broadcast operands; mixed magnitudes inside one contraction (per-position scalings 2^+-1020, exact results); structured operands (identity plus skew part, unit triangular, permutation, stochastic, symmetric, rank one).",
		"C05": "Rounds 9-15: cancelling giants, huge offsets; the colliding shape groups (every reducer along every dimension, both orders, twice in one process); kept results (3..8 reductions of one square / cubic operand, all results read again at the end).",
		"C06": "Rounds 9-15: window rows at depth 2 and 3, large constructor shapes, Eye to 256 (1000), signed zeros; sibling results over one shared Concat result (all read after all were built); fresh Broadcast / Reshape / UnSqueeze results first read by each consumer kind.",
		"C07": "Rounds 9-15: non-finite operand values; NaN and +-Inf planted in an otherwise uniform upstream gradient; abandoned consumers of the expanded result; constants with a history.",
		"C08": "Rounds 9-15: histories draw from EVERY differentiable operation (wideOp) and all six comparisons; tracking independence of forward values on special data (NaN, signed zeros, infinities, subnormals, ties; untracked / tracked / half-tracked, bit for bit); the reused Config object.",
		"C09": "Rounds 9-15: device values, one index object across tensor sizes; deep chains of blocks that read their input twice (24..96 blocks) under a CPU-time bound; BackPropagate on tensors derived from a graph after its pass must return nil; NewFC size preconditions with explicit initializers and with a reused initializer map.",
		"C10": "Rounds 9-15: optimizer steps and non-finite constants inside histories; Zeros / Ones constructors; all six comparisons; held parameters (tensors the caller keeps, handed to NewFC through custom initializers).",
		"C11": "Rounds 9-15: the same data objects at every step, derived bias, large logits (forward side); monitoring read-outs before the back-propagation; shape-neutral glue before the loss; MSE arguments swapped; after an omitted reset every update must be refused.",
		"C12": "Rounds 9-15: paired-soft labels, structured CE rows, poison batches; the same prediction object evaluated again after its loss was back-propagated; a tensor evaluated against itself.",
		"C13": "Rounds 9-15: labels thresholded from a back-propagated stage; rounds on the re-armed prediction object of the previous round.",
		"C14": "Rounds 9-15: huge and subnormal value classes, zero-value structs, odd slopes; the colliding shape groups for every activation and every Softmax dimension; inputs of 16 384+ elements with leading sizes no small worker count divides (the child processes of a run differ in GOMAXPROCS: 1, 2, 3, 4, 5, 7, all).",
		"C15": "Rounds 9-15: tiny class, refused calls before the decided behaviour; two or three heads over one tracked input, one back-propagation per head; rounds on one re-armed input object through one layer object.",
		"C16": "Rounds 9-15: extreme scales, overflow of one unit, custom initializers of func / slice type; colliding [batch, outputs] shapes; all tracked / frozen combinations of W, B and the input with closed-form gradients.",
		"C17": "Rounds 9-15: gradient sources Scale-rule (whole factor), non-finite elements, operands with extra leading 1-dimensions; rates 3, 5, -7, -1, -2, -1e308 and the zero value of the SGD struct; one optimizer over the colliding shape groups; the element must be the IEEE value of w - lr*g or its fused form.",
		"C18": "Rounds 9-15: location / spread specs, sigma exactly 1 with a non-zero mean, first draws of fresh processes (independence tables), the nil spelling of the scalar shape, long histories (16 x 120 000 / 500 000 four-element draws, none may come back), Full constants that agree in their leading digits, the sign of zero constants.",
		"C19": "Rounds 9-15: the same object in both roles, value copies, neighbouring doubles, labels of tiny magnitude (0 against 1e-200), column / row / vector rank mixes among the rejected calls; same-length batches dropped after use with a garbage collection after every step.",
		"C20": "Rounds 9-15: shared optimizer, shared index, private constants, read-shared, first use, storms of 128 / 256 goroutines; shared loss objects over varying batch shapes; refused operations (error texts); private MatMul / Dot with real entries; rounding-sensitive shares; bursts of Transpose / Flatten alternating between shared tensors.",
	} {
		fw.ExtendRule(id, more)
	}
	for id, more := range map[string]string{
		"C01": "Round 16: a gradient of one back-propagated graph (or a sum / scaling / reshaping / transposition / Concat / reduction of gradients) is the constant of a later graph, as it is or after ResetGradContext(false); the earlier graph's gradients stay what they were.",
		"C04": "Round 16: contractions whose terms are 2^40..2^50 and cancel to a small integer (exact in every summation order); exact zeros of one operand against infinities / NaN of the other (0*Inf = NaN).",
		"C06": "Round 16: Concat of 5..65 operands along every dimension, with leading dimensions smaller than the operand count.",
		"C07": "Round 16: a result of the operand that is expanded is made a leaf of its own (ResetGradContext(true)) before use and feeds the same root.",
		"C08": "Round 16: constructors of constants (Eye(1..3), Full / Zeros / Ones of a few shapes) called over and over inside histories, tracked and untracked, next to resets of the tensors they returned earlier.",
		"C09": "Round 16: every MatMul geometry [m,n] x [n,q] with m, n, q in 1..9 (with batch dimensions on either side) and Dot [m,n], forward and backward.",
		"C10": "Round 16: the tensor list handed to Concat holds the same tensors in the same order after the call; one recycled dims buffer (and one recycled nested-data buffer) across 3..8 calls of Zeros / Ones / Full / RandU / RandN / TensorOf.",
		"C11": "Round 16: variants saturated-tanh (pre-activations of magnitude 19.5..24 under targets of 1e5..1e6; the gradient itself is compared, relatively) and non-finite-feature (zero weights meet an infinite feature: loss and parameters are NaN).",
		"C13": "Round 16: gradients of a batch read only after one or two later, unrelated batches were back-propagated.",
		"C16": "Round 16: a Forward (validation pass) between the back-propagation and the reading of the parameter gradients; one batch row holding an infinite feature (the other rows keep their finite outputs).",
		"C17": "Round 16: gradients whose entries are 0 or negative (a row's largest element exactly 0); the pointer holds a caller-side struct embedding the tensor.",
	} {
		fw.ExtendRule(id, more)
	}
	for id, more := range map[string]string{
		"C01": "Round 17: a reconverging block behind a saturated tanh (|x| = 9..15, weights 2^20..2^23).",
		"C02": "Round 17: operands of magnitude 1e-12..1e-5 through Log, Pow(-1), Pow(+-0.5) and Div by the operand, under a weighting of the operand's size.",
		"C05": "Round 17: evaluation loops over short-lived operands with a garbage collection after every reduction; 1 100..2 500 whole numbers of size 2^52 (total beyond 2^63, every partial sum exact); alternating giants +a, -a, ... next to ordinary rows.",
		"C11": "Round 17: variant confident-wrong (Sigmoid -> BCE, probabilities of the observed class 1e-12..1e-8).",
		"C12": "Round 17: batch shapes that collide under ad-hoc keys ([11,2] and [1,12], transposed pairs, equal element counts) evaluated one after the other in one process, on one loss object and on fresh ones.",
		"C13": "Round 17: BCE with labels 1 - 2e-10..1 - 5e-8 on samples predicted with 1 - p = 1e-11..1e-7 (and the mirror image near 0), compared at 1e-9 of the two terms.",
		"C17": "Round 17: the caller re-armed the gradient tensor and back-propagated a penalty graph over it before the step; its own gradient object and tracking state are unchanged afterwards.",
		"C20": "Round 17: focused runs (every goroutine does jobs of one kind at once: shared loss object over varying batch shapes, shape operations on one shared result, transposes, private products, gradient reads); the first Gradient() reads of a shared, already back-propagated parameter with three shares.",
	} {
		fw.ExtendRule(id, more)
	}
	for id, more := range map[string]string{
		"C01": "Round 18: Concat over 3..5 operands of differing extents (also summing to a multiple of the first) and Patch with full-length indexes mixing {0,0} and explicit ranges, sources smaller than the canvas; both weighted.",
		"C02": "Round 18: Sin and Cos at arguments of magnitude 1e6..1e15.",
		"C03": "Round 18: sequences of 3..8 unary operations on ONE tensor object (each function's sibling right after it); chains of 2..4 scalings, each step compared exactly with the rounded product of the previous result.",
		"C07": "Round 18: one tensor object at both operand positions of Dot / Mul / Add / Sub / Div / MatMul.",
		"C11": "Round 18: learning rates 1.5 and 4.",
		"C15": "Round 18: Log of a Sigmoid output of 1e-13..1e-18; a one-element activation output as the receiver of a product with an untracked tensor of many elements.",
		"C16": "Round 18: the layer output reaching the root along two additive paths (y + y, (y + c) + y); a second layer whose output is multiplied by an exact 0 (zero gradients, not nil).",
		"C18": "Round 18: Full constants +Inf, -Inf, NaN and MaxFloat64.",
		"C19": "Round 18: calls whose prediction or target is a caller-side struct embedding a tensor of the right rank and length (refused: counts unchanged; accepted: counted).",
		"C20": "Round 18: the shared layer has a history (one training step: forward, back-propagation, parameters replaced and re-armed) before it is shared; focused runs of layer jobs.",
	} {
		fw.ExtendRule(id, more)
	}
	for id, more := range map[string]string{
		"C02": "Round 19: the divisor of Div as the tracked operand under magnitudes that only fit together (g = 1e200, b = 1e-150, a = 1e-250); Tanh at |x| = 380..700 (derivative exactly 0).",
		"C04": "Round 19: batch / leading shapes that collide under ad-hoc keys and broadcast against each other ([1,11] x [11,1], [1,111] x [111,1] ...), for MatMul and Dot.",
		"C06": "Round 19: Reshape between every ordered pair of equal element count inside the colliding shape groups ([11,1] <-> [1,11], [1,2,12] <-> [12,1,2] ...).",
		"C10": "Round 19: Eye(1..3) called again and again inside histories, tracked and untracked.",
		"C11": "Round 19: units far beyond the plateau of Tanh (|z| = 400..650) next to ordinary saturated ones.",
		"C14": "Round 19: ONE layer object per configuration serves all shapes of a colliding group (permutations of equal rank and element count: [1,3,4] / [4,3,1], [2,3,4] / [4,3,2] ...).",
		"C15": "Round 19: weightings of 1..1.7e308 arriving at Relu / LeakyRelu(|m| <= 1); Sigmoid at |x| = 355.2..357.5 under weightings of the size of 1/derivative.",
		"C17": "Round 19: a second Update of the tensor the first Update left behind the pointer is refused and replaces nothing.",
		"C19": "Round 19: zero labels of either sign (-0 and +0 are the same label).",
		"C20": "Round 19: a shared pool tensor (tracked or untracked) as the TARGET of the shared loss objects; after every run each shared tracked tensor must still be a fresh tracked leaf.",
	} {
		fw.ExtendRule(id, more)
	}
}
