package props

import (
	"fmt"
	"math"
	"os"
	"sort"

	"github.com/sahandsafizadeh/qeep/component/optimizers"
	"github.com/sahandsafizadeh/qeep/tensor"

	"qeepverif/internal/fw"
	"qeepverif/internal/ref"
	"qeepverif/internal/rt"
)

// C08 — gradient tracking propagates, isolates and retires exactly as specified.
// A shadow state machine (written from the statement) runs next to the real
// tensors through seeded random API histories and is compared after every step.

func init() {
	fw.Register(&fw.Prop{
		ID: "C08",
		Rule: "shadow state-machine monitor: seeded random histories (5-120 steps) of leaf creation (tracked or not), unary / binary / Concat / comparison operations over existing tensors (including spent ones), BackPropagate(any existing tensor) and ResetGradContext(any existing tensor, true|false); the generator consults the model only to respect provisos (a) and (b) of the quantifier. After EVERY step, for EVERY tensor created so far: Gradient() nil-ness and identity (public API), hooked tracked / spent flags, and - where a back-propagation delivered something - the gradient value against the model's total derivative. Each history ends with destructive public-API probes (t.Scale(1) back-propagated) for every tensor, and is re-run with every leaf untracked to check that forward values are bit-identical. " +
			"Non-trivial: the history contains an operation on a spent tensor, a reset, or a repeated back-propagation; distinct = the set of (state, action, state') transitions of the history hashed together with its length class. states/transitions observed are reported separately. Later additions: same-shape Reshape / Flatten, Pow(0), Var/StdAlong (size-1 dimensions included) in the op mix; calls that must be REJECTED between existing tensors as an action (nothing may change); a gradient tensor adopted as a leaf of its own (x.Gradient().ResetGradContext(b)) and used like any tensor." +
			" Round 4: a third of the histories pair existing tensors of different broadcast-compatible shapes in Add/Sub/Mul/Div (states and the bit-for-bit untracked twin are decided, gradient values of expanded operands are left to C07) with the directed action 'reset one operand, apply the same operation again'; Sigmoid / Relu objects and the MSE component as operations.",
		Assumptions: []string{
			"binary operands have equal shapes (no expansion > 1, which is C07's subject)",
			"results of a comparison OF a spent tensor are checked themselves (untracked, no gradient) but never used as operands: what their descendants are is read differently by two sentences of the statement, so no verdict is given there",
			"the hooked flags are cross-checked by public-API behaviour (trackedness of later results, gradients delivered, end-of-history probes)",
		},
		FloorQuick: 5000, FloorThor: 100000,
		Run: runC08,
	})
}

type c08node struct {
	in         ref.Instr
	ops        []int // operand ids (cut by a reset)
	val        *ref.T
	tracked    bool
	spent      bool
	grad       *ref.T // expected accumulated gradient (nil = none)
	leaf       bool
	cmpOfSpent bool // terminal: never used as operand
	real       tensor.Tensor
	lastG      tensor.Tensor
}

type c08action struct {
	Kind   string    `json:"kind"` // "op" | "backprop" | "reset"
	Instr  ref.Instr `json:"instr,omitempty"`
	Target int       `json:"target,omitempty"`
	Flag   bool      `json:"flag,omitempty"`
}

type c08hist struct {
	k       *fw.K
	nodes   []*c08node
	actions []c08action
	trans   map[string]bool
	flags   map[string]bool

	// C10 re-uses the history machinery with its own executor and extra per-step monitors
	adopted      map[tensor.Tensor]bool // gradient tensors that the history turned into leaves of their own
	execFn       func(in ref.Instr, xs []tensor.Tensor) (tensor.Tensor, error, any)
	skipValues   bool // do not compare values with the model (C10 compares with a twin run instead)
	allowExpand  bool // binary operations may pair existing tensors of different, broadcast-compatible shapes
	expands      bool // such a pair occurred: gradient VALUES are left to C01/C07 (recorded finding on expanded operands), states are still decided
	afterObserve func(step int, changed map[int]bool) bool
}

func (n *c08node) state() string {
	s := "u"
	if n.tracked {
		s = "T"
	}
	if n.spent {
		s += "s"
	}
	if n.grad != nil {
		s += "g"
	}
	if n.leaf {
		s += "L"
	}
	return s
}

// reach: the root plus, transitively, the tracked operands of tracked results.
func (h *c08hist) reach(root int) []int {
	seen := map[int]bool{root: true}
	stack := []int{root}
	for len(stack) > 0 {
		i := stack[len(stack)-1]
		stack = stack[:len(stack)-1]
		for _, j := range h.nodes[i].ops {
			if h.nodes[j].tracked && !seen[j] {
				seen[j] = true
				stack = append(stack, j)
			}
		}
	}
	out := make([]int, 0, len(seen))
	for i := range seen {
		out = append(out, i)
	}
	sort.Sort(sort.Reverse(sort.IntSlice(out)))
	return out
}

// ancestorsAll: everything the node was computed from (through any operand).
func (h *c08hist) dependsOn(z, t int) bool {
	seen := map[int]bool{}
	stack := []int{z}
	for len(stack) > 0 {
		i := stack[len(stack)-1]
		stack = stack[:len(stack)-1]
		for _, j := range h.nodes[i].ops {
			if j == t {
				return true
			}
			if !seen[j] {
				seen[j] = true
				stack = append(stack, j)
			}
		}
	}
	return false
}

func (h *c08hist) backpropAllowed(root int) bool {
	if !h.nodes[root].tracked {
		return true
	}
	for _, i := range h.reach(root) {
		n := h.nodes[i]
		if !n.leaf && n.spent { // proviso (a): graphs are single-use apart from shared leaves
			return false
		}
	}
	return true
}

func (h *c08hist) resetAllowed(t int) bool {
	for z, n := range h.nodes {
		if z != t && n.tracked && !n.spent && !n.leaf && h.dependsOn(z, t) { // proviso (b)
			return false
		}
	}
	return true
}

// ---- model transitions ----

func (h *c08hist) modelOp(in ref.Instr) *c08node {
	xs := make([]*ref.T, len(in.In))
	anySpent, anyTracked := false, false
	for q, j := range in.In {
		xs[q] = h.nodes[j].val
		anySpent = anySpent || h.nodes[j].spent
		anyTracked = anyTracked || h.nodes[j].tracked
	}
	v, err := ref.Apply(in, xs)
	if err != nil {
		panic("c08 generator: " + err.Error())
	}
	n := &c08node{in: in, val: v}
	switch {
	case in.Op == "leaf" || in.Op == "full" || in.Op == "eye":
		n.leaf, n.tracked = true, in.Tracked
	case !ref.Differentiable[in.Op]: // comparison: fresh untracked
		n.cmpOfSpent = anySpent
		n.leaf = true
	case anySpent:
		n.spent = true // untracked and itself spent: nothing computed from it can be tracked
	case anyTracked:
		n.tracked = true
		n.ops = append([]int(nil), in.In...)
	default:
		n.leaf = true // plain untracked value
	}
	if !n.tracked {
		n.ops = append([]int(nil), in.In...) // kept for proviso (b) only
	}
	return n
}

// modelBackprop returns the set that received gradients in this pass.
func (h *c08hist) modelBackprop(root int) []int {
	if !h.nodes[root].tracked {
		return nil
	}
	S := h.reach(root)
	pass := map[int]*ref.T{root: ref.Full(h.nodes[root].val.Shape, 1)}
	for _, i := range S { // descending creation order = reverse topological
		n := h.nodes[i]
		g := pass[i]
		if g == nil || len(n.ops) == 0 || !n.tracked || n.leaf {
			continue
		}
		xs := make([]*ref.T, len(n.ops))
		for q, j := range n.ops {
			xs[q] = h.nodes[j].val
		}
		gs := ref.VJP(n.in, xs, n.val, g, ref.RuleSum)
		for q, j := range n.ops {
			if !h.nodes[j].tracked {
				continue
			}
			if pass[j] == nil {
				pass[j] = gs[q].Clone()
			} else {
				for e := range pass[j].Data {
					pass[j].Data[e] += gs[q].Data[e]
				}
			}
		}
	}
	for _, i := range S {
		n := h.nodes[i]
		if n.grad == nil {
			n.grad = pass[i].Clone()
		} else {
			for e := range n.grad.Data {
				n.grad.Data[e] += pass[i].Data[e]
			}
		}
		n.spent = true
	}
	return S
}

// ---- observation ----

func (h *c08hist) observe(step int, changed map[int]bool) bool {
	k := h.k
	for i, n := range h.nodes {
		g := n.real.Gradient()
		if (g != nil) != (n.grad != nil) {
			k.Failf("step %d (%s): tensor %d [%s]: Gradient() is %s, the state machine says %s", step, h.last(), i, n.state(), nilness(g != nil), nilness(n.grad != nil))
			return false
		}
		if st, ok := tensor.VerifGradState(n.real); ok {
			if st.Tracked != n.tracked {
				k.Failf("step %d (%s): tensor %d [%s]: tracked flag is %v, the state machine says %v", step, h.last(), i, n.state(), st.Tracked, n.tracked)
				return false
			}
			if st.BPDirty != n.spent {
				k.Failf("step %d (%s): tensor %d [%s]: spent flag is %v, the state machine says %v", step, h.last(), i, n.state(), st.BPDirty, n.spent)
				return false
			}
			if g != nil {
				if gs, ok := tensor.VerifGradState(g); ok && gs.Tracked && !h.adopted[g] {
					k.Failf("step %d (%s): the gradient tensor of tensor %d is tracked", step, h.last(), i)
					return false
				}
			}
		} else {
			k.Count("hook_readouts_unavailable", 1)
		}
		if changed[i] && g == nil {
			// reset: the gradient was just dropped
		} else if changed[i] && (h.skipValues || h.expands) {
			// value compared with the twin run instead
		} else if changed[i] {
			got, err := rt.Read(g)
			if err != nil {
				k.Failf("step %d: gradient of tensor %d unreadable: %v", step, i, err)
				return false
			}
			if e := gradClose(got, n.grad); e != nil {
				if os.Getenv("VERIF_DUMP") != "" {
					for j, m := range h.nodes {
						fmt.Fprintf(os.Stderr, "node %d %s%v F=%v dim=%d shape=%v val=%v tracked=%v spent=%v\n", j, m.in.Op, m.in.In, m.in.F, m.in.Dim, m.in.Shape, m.val.Data, m.tracked, m.spent)
					}
				}
				k.Failf("step %d (%s): gradient of tensor %d differs from the accumulated total derivative: %v", step, h.last(), i, e)
				return false
			}
		} else if g != n.lastG {
			k.Failf("step %d (%s): the gradient object of tensor %d [%s] changed although this step must not touch it", step, h.last(), i, n.state())
			return false
		}
		n.lastG = g
		k.Add("states", "%s", n.state())
	}
	k.Count("tensor_observations", int64(len(h.nodes)))
	if h.afterObserve != nil {
		return h.afterObserve(step, changed)
	}
	return true
}

func nilness(nonNil bool) string {
	if nonNil {
		return "non-nil"
	}
	return "nil"
}

func (h *c08hist) last() string {
	a := h.actions[len(h.actions)-1]
	switch a.Kind {
	case "op":
		return fmt.Sprintf("%s%v -> tensor %d", a.Instr.Op, a.Instr.In, len(h.nodes)-1)
	case "backprop":
		return fmt.Sprintf("BackPropagate(tensor %d)", a.Target)
	case "sgd":
		return fmt.Sprintf("SGD.Update(tensor %d)", a.Target)
	case "adopt-gradient":
		return fmt.Sprintf("tensor %d.Gradient().ResetGradContext(%v)", a.Target, a.Flag)
	case "reject":
		return fmt.Sprintf("a refused call on tensor %d", a.Target)
	}
	return fmt.Sprintf("tensor %d.ResetGradContext(%v)", a.Target, a.Flag)
}

// ---- real execution of one action ----

func (h *c08hist) doOp(in ref.Instr) bool {
	k := h.k
	n := h.modelOp(in)
	xs := make([]tensor.Tensor, len(in.In))
	before := make([]string, len(in.In))
	for q, j := range in.In {
		xs[q] = h.nodes[j].real
		before[q] = h.nodes[j].state()
		if h.nodes[j].spent {
			h.flags["op-on-spent"] = true
		}
	}
	h.actions = append(h.actions, c08action{Kind: "op", Instr: in})
	ex := exec
	if h.execFn != nil {
		ex = h.execFn
	}
	r, err, p := ex(in, xs)
	if p != nil || err != nil || r == nil {
		k.Failf("step %d: %s%v failed: panic=%v err=%v", len(h.actions), in.Op, in.In, p, err)
		return false
	}
	n.real = r
	h.nodes = append(h.nodes, n)
	if e := rt.Compare(r, n.val, 1e-12, 1e-12, nil, 0); e != nil && !h.skipValues {
		k.Failf("step %d: forward value of %s%v: %v", len(h.actions), in.Op, in.In, e)
		return false
	}
	class := "op"
	if !ref.Differentiable[in.Op] && in.Op != "leaf" && in.Op != "full" && in.Op != "eye" {
		class = "cmp"
	} else if in.Op == "leaf" || in.Op == "full" || in.Op == "eye" {
		class = "leaf"
	}
	h.trans[fmt.Sprintf("%v --%s--> %s", before, class, n.state())] = true
	return h.observe(len(h.actions), nil)
}

func (h *c08hist) doBackprop(root int) bool {
	k := h.k
	before := h.nodes[root].state()
	if h.nodes[root].grad != nil {
		h.flags["repeated-backprop"] = true
	}
	h.actions = append(h.actions, c08action{Kind: "backprop", Target: root})
	S := h.modelBackprop(root)
	var err error
	if p := call(func() { err = tensor.BackPropagate(h.nodes[root].real) }); p != nil || err != nil {
		k.Failf("step %d: BackPropagate(tensor %d) failed: panic=%v err=%v", len(h.actions), root, p, err)
		return false
	}
	changed := map[int]bool{}
	for _, i := range S {
		changed[i] = true
	}
	k.Count("backprops", 1)
	if len(S) == 0 {
		k.Count("backprops_from_untracked_root", 1)
	}
	h.trans[fmt.Sprintf("%s --backprop(%d reached)--> %s", before, min(len(S), 3), h.nodes[root].state())] = true
	return h.observe(len(h.actions), changed)
}

// doReject performs a call that must be REJECTED (invalid arguments) on existing tensors; nothing may change.
func (h *c08hist) doReject(kind int, a, b int) bool {
	k := h.k
	x, y := h.nodes[a].real, h.nodes[b].real
	sx, sy := h.nodes[a].val.Shape, h.nodes[b].val.Shape
	// kinds 0, 1, 6 use two EXISTING tensors whose shapes make the call invalid (if this pair happens to be valid, nothing is done)
	switch kind % 8 {
	case 0:
		if _, err := ref.ConcatShape([][]int{sx, sy}, kind/8%max(1, len(sx))); err == nil {
			return true
		}
	case 1:
		if _, _, _, _, err := ref.MatMulShapes(sx, sy); err == nil {
			return true
		}
	case 6:
		if ref.SameShape(sx, sy) {
			return true
		}
	case 5:
		if _, err := ref.BroadcastShape(sx, sy); err == nil {
			return true
		}
	}
	h.actions = append(h.actions, c08action{Kind: "reject", Target: a, Instr: ref.Instr{Op: "rejected-call", In: []int{a, b}, Dim: kind}})
	var err error
	var res tensor.Tensor
	what := ""
	p := call(func() {
		switch kind % 8 {
		case 0:
			what = "Concat of two existing tensors whose shapes do not fit"
			res, err = tensor.Concat([]tensor.Tensor{x, y}, kind/8%max(1, len(sx)))
		case 1:
			what = "MatMul of two existing tensors with incompatible inner or batch sizes"
			res, err = x.MatMul(y)
		case 2:
			what = "Reshape to a different element count"
			res, err = x.Reshape(append(ref.CopyInts(sx), 2, 3, 5))
		case 3:
			what = "Slice beyond the extent"
			res, err = x.Slice(append(make([]tensor.Range, len(sx)), tensor.Range{From: 0, To: 9}))
		case 4:
			what = "Patch with an oversized source"
			bad, _ := tensor.Ones(append(ref.CopyInts(sx), 2), nil)
			res, err = x.Patch(nil, bad)
		case 5:
			what = "Add / Div of two existing tensors whose shapes are not broadcast-compatible, Broadcast to an incompatible shape"
			res, err = x.Add(y)
			if err == nil {
				res, err = y.Div(x)
			}
			if err == nil {
				res, err = x.Broadcast([]int{7, 5})
			}
		case 6:
			what = "ElMax / Eq / Equals of two existing tensors of different shapes"
			res, err = x.ElMax(y)
			if err == nil {
				res, err = y.Eq(x)
			}
			if err == nil {
				_, err = x.Equals(y)
			}
		default:
			what = "At / UnSqueeze / Squeeze / reducers with bad arguments"
			_, err = x.At(append(make([]int, len(sx)), 1)...)
			if err == nil {
				res, err = x.UnSqueeze(len(sx) + 2)
			}
			if err == nil {
				res, err = x.SumAlong(-1)
			}
		}
	})
	if p != nil {
		k.Failf("step %d: a call that must be rejected (%s) panicked: %v", len(h.actions), what, p)
		return false
	}
	if err == nil {
		k.Failf("step %d: a call that must be rejected (%s) on shape %v was accepted (result %v)", len(h.actions), what, sx, res != nil)
		return false
	}
	k.Count("rejected_calls", 1)
	return h.observe(len(h.actions), nil)
}

// doAdopt turns the current gradient tensor of node x into a leaf of its own (g.ResetGradContext(flag)) and
// registers it as a new tensor of the history: from then on it is an ordinary value whose state only the
// actions of the history may change.
func (h *c08hist) doAdopt(x int, flag bool) bool {
	k := h.k
	g := h.nodes[x].real.Gradient()
	if g == nil || h.adopted[g] {
		return true
	}
	val, err := rt.Read(g)
	if err != nil {
		k.Failf("gradient of tensor %d unreadable: %v", x, err)
		return false
	}
	if h.adopted == nil {
		h.adopted = map[tensor.Tensor]bool{}
	}
	h.adopted[g] = true
	h.actions = append(h.actions, c08action{Kind: "adopt-gradient", Target: x, Flag: flag})
	if p := call(func() { g.ResetGradContext(flag) }); p != nil {
		k.Failf("ResetGradContext on a gradient tensor panicked: %v", p)
		return false
	}
	h.nodes = append(h.nodes, &c08node{in: ref.Instr{Op: "leaf", Shape: val.Shape, Data: val.Data, Tracked: flag}, val: val, tracked: flag, leaf: true, real: g})
	k.Count("adopted_gradient_tensors", 1)
	h.flags["reset"] = true
	return h.observe(len(h.actions), nil)
}

// doSGD: an optimizer step on an existing tensor that holds a gradient. The step yields a NEW tensor (registered as a tensor of
// the history: computed from a spent tensor, hence untracked and spent); the stepped tensor, its gradient and every other tensor
// stay exactly as they were - observe() and the registry re-read decide that.
func (h *c08hist) doSGD(x int, zeroRate bool) bool {
	k := h.k
	n := h.nodes[x]
	if n.grad == nil || n.real.Gradient() == nil {
		return true
	}
	lr := 0.125
	if zeroRate {
		lr = 0
	}
	opt := optimizers.NewSGD(&optimizers.SGDConfig{LearningRate: lr})
	h.actions = append(h.actions, c08action{Kind: "sgd", Target: x, Flag: zeroRate})
	w := n.real
	var err error
	if p := call(func() { err = opt.Update(&w) }); p != nil || err != nil {
		k.Failf("step %d: SGD.Update(tensor %d): panic=%v err=%v", len(h.actions), x, p, err)
		return false
	}
	if w == nil {
		k.Failf("step %d: SGD.Update(tensor %d) put nil behind the pointer", len(h.actions), x)
		return false
	}
	if w == n.real { // allowed when lr*g is zero everywhere (nothing says the tensor must be a new object): then nothing at all may have changed
		k.Count("optimizer_steps_that_kept_the_same_object", 1)
		return h.observe(len(h.actions), nil)
	}
	val, err := rt.Read(w)
	if err != nil || !ref.SameShape(val.Shape, n.val.Shape) {
		k.Failf("step %d: the tensor produced by SGD.Update(tensor %d) is unreadable or of shape %v (%v)", len(h.actions), x, val, err)
		return false
	}
	h.nodes = append(h.nodes, &c08node{in: ref.Instr{Op: "leaf", Shape: val.Shape, Data: val.Data}, val: val, spent: n.spent, leaf: !n.spent, real: w})
	k.Count("optimizer_steps_on_existing_tensors", 1)
	return h.observe(len(h.actions), nil)
}

func (h *c08hist) doReset(t int, flag bool) bool {
	n := h.nodes[t]
	before := n.state()
	h.flags["reset"] = true
	h.actions = append(h.actions, c08action{Kind: "reset", Target: t, Flag: flag})
	n.tracked, n.spent, n.grad, n.ops, n.leaf, n.cmpOfSpent = flag, false, nil, nil, true, false
	if p := call(func() { n.real.ResetGradContext(flag) }); p != nil {
		h.k.Failf("step %d: ResetGradContext panicked: %v", len(h.actions), p)
		return false
	}
	h.k.Count("resets", 1)
	h.trans[fmt.Sprintf("%s --reset(%v)--> %s", before, flag, n.state())] = true
	return h.observe(len(h.actions), map[int]bool{t: true})
}

// ---- generator ----

var c08Shapes = [][]int{{}, {2}, {3}, {2, 2}, {2, 3}, {1}, {2, 1}, {1, 3}}

// doResetAndRepeat: pick an earlier binary operation over two tensors of different shapes, give one of its operands a
// fresh context with the opposite tracking (if the provisos allow a reset there) and apply the very same operation again.
func (h *c08hist) doResetAndRepeat() bool {
	r := h.k.Rng
	var c []int
	for i, n := range h.nodes {
		if len(n.in.In) == 2 && ref.Differentiable[n.in.Op] && !ref.SameShape(h.nodes[n.in.In[0]].val.Shape, h.nodes[n.in.In[1]].val.Shape) {
			c = append(c, i)
		}
	}
	if len(c) == 0 {
		return true
	}
	in := h.nodes[c[r.Intn(len(c))]].in
	j := in.In[r.Intn(2)]
	for tries := 0; tries < 4 && !h.resetAllowed(j); tries++ { // first back-propagate what was computed from it (newest first)
		done := false
		for z := len(h.nodes) - 1; z > j && !done; z-- {
			if n := h.nodes[z]; n.tracked && !n.spent && !n.leaf && h.dependsOn(z, j) && h.backpropAllowed(z) {
				if !h.doBackprop(z) {
					return false
				}
				done = true
			}
		}
		if !done {
			break
		}
	}
	if !h.resetAllowed(j) {
		return true
	}
	h.k.Count("reset_then_same_mixed_shape_operation", 1)
	if !h.doReset(j, !h.nodes[j].tracked) {
		return false
	}
	for _, o := range in.In {
		if h.nodes[o].cmpOfSpent {
			return true
		}
	}
	again := in
	again.In = append([]int(nil), in.In...)
	return h.doOp(again)
}

func (h *c08hist) usable() []int {
	var out []int
	lo := 0
	if len(h.nodes) > 14 { // bias towards recent tensors, keep some old ones
		lo = len(h.nodes) - 14
	}
	for i, n := range h.nodes {
		if n.cmpOfSpent {
			continue
		}
		if i >= lo || h.k.Rng.Intn(6) == 0 {
			out = append(out, i)
		}
	}
	return out
}

func (h *c08hist) genOp() (ref.Instr, bool) {
	r := h.k.Rng
	us := h.usable()
	if len(us) == 0 || r.Intn(7) == 0 {
		shape := c08Shapes[r.Intn(len(c08Shapes))]
		if q := r.Intn(8); q == 0 {
			// the constructors of constants, over and over with the same few arguments: every call returns a tensor of its own with
			// exactly the requested tracking, whatever happened to earlier tensors built from the same arguments
			h.k.Count("constant_constructor_steps", 1)
			if r.Intn(2) == 0 {
				return ref.Instr{Op: "eye", Dim: 1 + r.Intn(3), Tracked: r.Intn(3) == 0}, true
			}
			return ref.Instr{Op: "full", Shape: c08Shapes[r.Intn(3)], F: []float64{0, 1, 0.5}[r.Intn(3)], Tracked: r.Intn(3) == 0}, true
		}
		t := Shuffled(r, Unique(r, shape, 0.2, 1.5))
		return ref.Instr{Op: "leaf", Shape: shape, Data: t.Data, Tracked: r.Intn(3) > 0}, true
	}
	x := us[r.Intn(len(us))]
	v := h.nodes[x].val
	same := func() int {
		var c []int
		for _, j := range us {
			if ref.SameShape(h.nodes[j].val.Shape, v.Shape) {
				c = append(c, j)
			}
		}
		return c[r.Intn(len(c))]
	}
	rank := len(v.Shape)
	nops := 12
	if h.allowExpand {
		nops = 14
	}
	if r.Intn(5) == 0 { // every remaining differentiable operation of the library takes part in histories too
		if in, ok := h.wideOp(x, same); ok {
			return in, true
		}
	}
	switch r.Intn(nops) {
	case 12, 13: // a binary operation over two existing tensors of different, broadcast-compatible shapes (implicit expansion)
		var c []int
		for _, j := range us {
			w := h.nodes[j].val
			if _, err := ref.BroadcastShape(v.Shape, w.Shape); err == nil && !ref.SameShape(v.Shape, w.Shape) {
				c = append(c, j)
			}
		}
		if len(c) == 0 || r.Intn(6) == 0 { // no partner yet: create one (scalar, a suffix of the shape, some sizes collapsed to 1, or a leading dimension added)
			shape := ref.CopyInts(v.Shape)
			switch q := r.Intn(4); {
			case q == 0 || rank == 0:
				shape = []int{}
				if rank == 0 {
					shape = [][]int{{2}, {1, 3}, {2, 2}}[r.Intn(3)]
				}
			case q == 1:
				shape = shape[1+r.Intn(rank):]
			case q == 2:
				shape = append([]int{2}, shape...)
			default:
				for d := range shape {
					if r.Intn(2) == 0 {
						shape[d] = 1
					}
				}
				if ref.SameShape(shape, v.Shape) {
					shape = []int{}
				}
			}
			if ref.Prod(shape) > 64 {
				shape = []int{}
			}
			t := Shuffled(r, Unique(r, shape, 0.2, 1.5))
			return ref.Instr{Op: "leaf", Shape: shape, Data: t.Data, Tracked: r.Intn(2) == 0}, true
		}
		y := c[r.Intn(len(c))]
		w := h.nodes[y].val
		if out, _ := ref.BroadcastShape(v.Shape, w.Shape); ref.Prod(out) > 200 {
			return ref.Instr{Op: "tanh", In: []int{x}}, true
		}
		a, b := x, y
		if r.Intn(2) == 0 {
			a, b = y, x
		}
		op := []string{"add", "sub", "mul", "div"}[r.Intn(4)]
		if op == "div" {
			for _, e := range h.nodes[b].val.Data {
				if math.Abs(e) < 0.1 {
					op = "sub"
				}
			}
		}
		if (op == "mul" || op == "div") && maxAbs(v)*maxAbs(w) > 50 || op == "div" && maxAbs(h.nodes[a].val) > 20 {
			op = "add"
		}
		h.expands = true
		return ref.Instr{Op: op, In: []int{a, b}}, true
	case 11: // operations whose backward rule is computed from the operand alone: Pow(0), Var/StdAlong over a size-1 dimension
		if rank >= 1 && r.Intn(2) == 0 {
			dim := r.Intn(rank)
			if v.Shape[dim] == 1 || fibresSeparated(v, dim, 1e-2) {
				return ref.Instr{Op: []string{"varalong", "stdalong"}[r.Intn(2)], In: []int{x}, Dim: dim}, true
			}
		}
		return ref.Instr{Op: "pow", In: []int{x}, F: 0}, true
	case 10: // shape-preserving or shape-changing views (the identical target shape is a deliberate candidate)
		switch {
		case r.Intn(2) == 0:
			ts := shapesWithProduct(len(v.Data), 3)
			ts = append(ts, v.Shape, v.Shape)
			return ref.Instr{Op: "reshape", In: []int{x}, Shape: ts[r.Intn(len(ts))]}, true
		case rank >= 1:
			return ref.Instr{Op: "flatten", In: []int{x}, Dim: r.Intn(rank)}, true
		}
		return ref.Instr{Op: "unsqueeze", In: []int{x}, Dim: 0}, true
	case 0:
		return ref.Instr{Op: "scale", In: []int{x}, F: []float64{-1.2, 0.5, 1, 0.8}[r.Intn(4)]}, true
	case 1: // element-wise functions, among them component calls (activation objects)
		op := []string{"sin", "tanh", "cos", "sigmoid", "relu"}[r.Intn(5)]
		if op == "sigmoid" && !(maxAbs(v) <= 30) {
			// Sigmoid is specified for inputs of magnitude up to 700 (C14 / C15); far beyond that its rule meets e^-x = +Inf and 0 * Inf is not a
			// number - chains of Pow can reach such values, and the gradient VALUES this history monitor compares are only decided inside the
			// domain of the operations' own properties
			op = "tanh"
		}
		return ref.Instr{Op: op, In: []int{x}}, true
	case 2, 3:
		y := same()
		if rank == 1 && r.Intn(4) == 0 { // a loss component over two existing tensors (either may be tracked, spent, or the same object)
			return ref.Instr{Op: "mse", In: []int{x, y}}, true
		}
		op := []string{"add", "sub", "mul"}[r.Intn(3)]
		if op == "mul" && maxAbs(v)*maxAbs(h.nodes[y].val) > 50 {
			op = "sub"
		}
		return ref.Instr{Op: op, In: []int{x, y}}, true
	case 4:
		y := same()
		for e := range v.Data {
			if math.Abs(v.Data[e]-h.nodes[y].val.Data[e]) < 1e-2 {
				return ref.Instr{Op: "tanh", In: []int{x}}, true // would be a tie: not differentiable there
			}
		}
		return ref.Instr{Op: []string{"elmax", "elmin"}[r.Intn(2)], In: []int{x, y}}, true
	case 5:
		if rank >= 1 {
			return ref.Instr{Op: []string{"sumalong", "meanalong"}[r.Intn(2)], In: []int{x}, Dim: r.Intn(rank)}, true
		}
		return ref.Instr{Op: "unsqueeze", In: []int{x}, Dim: 0}, true
	case 6:
		if r.Intn(3) == 0 { // Patch: x completely overwritten by a same-shape tensor (nil or explicit full index)
			var idx []ref.Range
			if r.Intn(2) == 0 {
				for _, d := range v.Shape {
					idx = append(idx, ref.Range{From: 0, To: d})
				}
			}
			return ref.Instr{Op: "patch", In: []int{x, same()}, Index: idx}, true
		}
		if rank >= 1 && len(v.Data) <= 12 {
			// a partner whose extent along the concat dimension DIFFERS, when there is one (blocks of unequal size)
			for _, j := range us {
				w := h.nodes[j].val
				if len(w.Shape) != rank || len(w.Data) > 24 {
					continue
				}
				diff := -1
				for d := range w.Shape {
					if w.Shape[d] != v.Shape[d] {
						if diff >= 0 {
							diff = -2
							break
						}
						diff = d
					}
				}
				if diff >= 0 && r.Intn(2) == 0 {
					if r.Intn(2) == 0 {
						return ref.Instr{Op: "concat", In: []int{j, x}, Dim: diff}, true
					}
					return ref.Instr{Op: "concat", In: []int{x, j}, Dim: diff}, true
				}
			}
			return ref.Instr{Op: "concat", In: []int{x, same()}, Dim: r.Intn(rank)}, true
		}
		return ref.Instr{Op: "exp", In: []int{x}}, maxAbs(v) < 3
	case 7:
		if rank == 2 {
			return ref.Instr{Op: "transpose", In: []int{x}}, true
		}
		if rank >= 1 {
			switch r.Intn(4) {
			case 0:
				return ref.Instr{Op: "slice", In: []int{x}}, true // Slice(nil): the copy idiom
			case 1:
				return ref.Instr{Op: "slice", In: []int{x}, Index: []ref.Range{{From: 0, To: 0}}}, true // the whole first dimension, spelled {0,0}
			}
			return ref.Instr{Op: "slice", In: []int{x}, Index: []ref.Range{{From: 0, To: 1 + r.Intn(v.Shape[0])}}}, true
		}
		return ref.Instr{Op: "pow", In: []int{x}, F: 2}, true
	case 8:
		return ref.Instr{Op: []string{"gt", "le", "eq", "ne", "ge", "lt"}[r.Intn(6)], In: []int{x, same()}}, true
	default:
		if rank >= 1 && maxAbs(v) < 10 {
			y := same()
			if maxAbs(h.nodes[y].val) < 10 {
				return ref.Instr{Op: "dot", In: []int{x, y}}, true
			}
		}
		return ref.Instr{Op: "sin", In: []int{x}}, true
	}
}

// wideOp draws from the differentiable operations the main table above does not use, each at a point of its
// domain where it is differentiable and well-conditioned; ok is false when the chosen one does not fit tensor x.
func (h *c08hist) wideOp(x int, same func() int) (ref.Instr, bool) {
	r := h.k.Rng
	v := h.nodes[x].val
	rank := len(v.Shape)
	mx, mn := maxAbs(v), math.Inf(1)
	allPos := true
	for _, e := range v.Data {
		mn = math.Min(mn, math.Abs(e))
		allPos = allPos && e > 0.2
	}
	un := func(op string, ok bool) (ref.Instr, bool) { return ref.Instr{Op: op, In: []int{x}}, ok }
	switch r.Intn(16) {
	case 0:
		return un("tan", mx < 1.2)
	case 1:
		return un("sinh", mx < 3)
	case 2:
		return un("cosh", mx < 3)
	case 3:
		return un("log", allPos && mx < 50)
	case 4:
		return ref.Instr{Op: "pow", In: []int{x}, F: 3}, mx < 3
	case 5:
		return ref.Instr{Op: "pow", In: []int{x}, F: -1}, mn > 0.2
	case 6:
		return ref.Instr{Op: "pow", In: []int{x}, F: 0.5}, allPos && mx < 50
	case 7:
		y := same()
		for _, e := range h.nodes[y].val.Data {
			if math.Abs(e) < 0.2 {
				return ref.Instr{}, false
			}
		}
		return ref.Instr{Op: "div", In: []int{x, y}}, mx < 20
	case 8:
		for d, sz := range v.Shape {
			if sz == 1 {
				return ref.Instr{Op: "squeeze", In: []int{x}, Dim: d}, true
			}
		}
		return ref.Instr{Op: "unsqueeze", In: []int{x}, Dim: r.Intn(rank + 1)}, true
	case 9:
		if rank >= 2 && v.Shape[rank-1] == v.Shape[rank-2] && mx < 10 {
			y := same()
			return ref.Instr{Op: "matmul", In: []int{x, y}}, maxAbs(h.nodes[y].val) < 10
		}
		return ref.Instr{}, false
	case 10:
		if rank >= 1 {
			dim := r.Intn(rank)
			return ref.Instr{Op: []string{"maxalong", "minalong"}[r.Intn(2)], In: []int{x}, Dim: dim}, fibresSeparated(v, dim, 1e-2)
		}
	case 11:
		if rank >= 1 {
			return ref.Instr{Op: "avgalong", In: []int{x}, Dim: r.Intn(rank)}, true
		}
	case 12:
		return ref.Instr{Op: "leakyrelu", In: []int{x}, F: []float64{0.1, 0.01, 0.5}[r.Intn(3)]}, mn > 1e-3
	case 13:
		if h.allowExpand && rank >= 1 && mx < 30 { // Softmax broadcasts its normaliser: gradient values are left to the twin run (known finding D9)
			h.expands = true
			return ref.Instr{Op: "softmax", In: []int{x}, Dim: r.Intn(rank)}, true
		}
	case 14:
		if r.Intn(2) == 0 { // an explicit Broadcast to the tensor's OWN shape: nothing is expanded, it is an operation like any other
			return ref.Instr{Op: "broadcast", In: []int{x}, Shape: ref.CopyInts(v.Shape)}, true
		}
		if h.allowExpand && len(v.Data) <= 32 {
			h.expands = true
			return ref.Instr{Op: "broadcast", In: []int{x}, Shape: append([]int{2}, v.Shape...)}, true
		}
	case 15:
		if rank >= 1 {
			return ref.Instr{Op: "transpose", In: []int{x}}, rank >= 2
		}
	}
	return ref.Instr{}, false
}

func runC08(c *fw.Ctx) {
	for i := 0; i < c.Pick(10000, 300000); i++ {
		c.Case(func(k *fw.K) { c08History(k) })
	}
	for i := 0; i < c.Pick(3000, 60000); i++ {
		c.Case(func(k *fw.K) { c08TrackingIndependence(k) })
	}
}

func c08History(k *fw.K) {
	h := &c08hist{k: k, trans: map[string]bool{}, flags: map[string]bool{}, allowExpand: k.Index%3 == 1}
	defer func() { k.Case = map[string]any{"history": h.actions} }()
	steps := 5 + k.Rng.Intn(116)
	if k.Index%500 == 3 { // a few very long histories
		steps = 300 + k.Rng.Intn(300)
	}
	if k.Rng.Intn(3) == 0 {
		steps = 5 + k.Rng.Intn(20)
	}
	ok := true
	for s := 0; s < steps && ok && (len(h.nodes) < 70 || steps >= 300 && len(h.nodes) < 220); s++ {
		switch q := k.Rng.Intn(10); {
		case len(h.nodes) >= 2 && q == 9 && k.Rng.Intn(2) == 0: // a call that must be rejected, on existing tensors
			ok = h.doReject(k.Rng.Intn(64), k.Rng.Intn(len(h.nodes)), k.Rng.Intn(len(h.nodes)))
		case len(h.nodes) >= 2 && q == 9: // a gradient tensor becomes a leaf of its own
			ok = h.doAdopt(k.Rng.Intn(len(h.nodes)), k.Rng.Intn(2) == 0)
		case len(h.nodes) >= 2 && q < 2: // BackPropagate(any)
			t := k.Rng.Intn(len(h.nodes))
			if h.backpropAllowed(t) {
				ok = h.doBackprop(t)
			}
		case h.expands && q == 3 && k.Rng.Intn(2) == 0: // an operand of an earlier mixed-shape operation is reset (tracking flipped) and the same operation is applied again
			ok = h.doResetAndRepeat()
		case len(h.nodes) >= 2 && q == 2: // ResetGradContext(any, bool)
			t := k.Rng.Intn(len(h.nodes))
			if h.resetAllowed(t) {
				ok = h.doReset(t, k.Rng.Intn(2) == 0)
			}
		default:
			if in, good := h.genOp(); good {
				ok = h.doOp(in)
			}
		}
	}
	// end-of-history destructive probes through the public API: is each tensor still a live, tracked value?
	if ok {
		for _, t := range k.Rng.Perm(len(h.nodes)) {
			if h.nodes[t].cmpOfSpent {
				continue
			}
			if !h.doOp(ref.Instr{Op: "scale", In: []int{t}, F: 1}) {
				ok = false
				break
			}
			p := len(h.nodes) - 1
			if h.backpropAllowed(p) {
				k.Count("end_probes", 1)
				if !h.doBackprop(p) {
					ok = false
					break
				}
			}
		}
	}
	k.Count("steps", int64(len(h.actions)))
	if h.expands {
		k.Count("histories_with_implicit_expansion(states_only)", 1)
	}
	for t := range h.trans {
		k.Add("transitions", "%s", t)
	}
	if len(h.flags) > 0 {
		fl := ""
		for _, f := range []string{"op-on-spent", "reset", "repeated-backprop"} {
			if h.flags[f] {
				fl += f + "+"
				k.Count("histories_with_"+f, 1)
			}
		}
		ts := make([]string, 0, len(h.trans))
		for t := range h.trans {
			ts = append(ts, t)
		}
		sort.Strings(ts)
		k.Key("%s/len%d/%x", fl, len(h.actions)/10, hashStrings(ts))
	}
	if k.Index%50 == 0 {
		k.Sample()
	}
	if ok && !k.Failed() {
		c08UntrackedTwin(h)
	}
}

func hashStrings(ss []string) uint32 {
	var x uint32 = 2166136261
	for _, s := range ss {
		for i := 0; i < len(s); i++ {
			x = (x ^ uint32(s[i])) * 16777619
		}
	}
	return x
}

// c08TrackingIndependence: "tracking never changes forward values" on SPECIAL data - operands holding NaN, zeros of either sign,
// infinities, subnormals and ties next to ordinary numbers. One operation is applied to the same values three times: all
// operands untracked, all tracked, only the first tracked; the results must agree bit for bit (a NaN with a NaN).
func c08TrackingIndependence(k *fw.K) {
	r := k.Rng
	shape := RandShape(r, 0, 3, 3)
	special := func(shape []int) *ref.T {
		t := Shuffled(r, Unique(r, shape, 0.2, 2.5))
		for i := range t.Data {
			switch r.Intn(9) {
			case 0:
				t.Data[i] = math.NaN()
			case 1:
				t.Data[i] = 0
			case 2:
				t.Data[i] = math.Copysign(0, -1)
			case 3:
				t.Data[i] = []float64{math.Inf(1), math.Inf(-1)}[r.Intn(2)]
			case 4:
				t.Data[i] = []float64{5e-324, -3e-310, 1e-300}[r.Intn(3)]
			case 5:
				t.Data[i] = float64(r.Intn(3) - 1) // ties between operands
			}
		}
		return t
	}
	x := special(shape)
	in := ref.Instr{}
	xs := []*ref.T{x}
	rank := len(shape)
	switch q := r.Intn(6); {
	case q == 0:
		in.Op = []string{"exp", "log", "sin", "cos", "tan", "sinh", "cosh", "tanh", "relu", "sigmoid", "leakyrelu"}[r.Intn(11)]
		in.F = 0.1
	case q == 1:
		in.Op = []string{"scale", "pow"}[r.Intn(2)]
		in.F = []float64{0, 1, -1, 2, 0.5, -2, 3}[r.Intn(7)]
	case q == 2 && rank >= 1:
		in.Op = []string{"sumalong", "maxalong", "minalong", "avgalong", "varalong", "stdalong", "meanalong", "flatten", "unsqueeze", "softmax"}[r.Intn(10)]
		in.Dim = r.Intn(rank)
	case q == 3 && rank >= 2:
		in.Op = []string{"transpose", "matmul"}[r.Intn(2)]
		if in.Op == "matmul" {
			ys := ref.CopyInts(shape)
			ys[rank-2], ys[rank-1] = shape[rank-1], 1+r.Intn(3)
			xs = append(xs, special(ys))
		}
	default:
		in.Op = []string{"add", "sub", "mul", "div", "elmax", "elmin", "elmax", "elmin", "dot", "concat", "patch"}[r.Intn(11)]
		if in.Op == "dot" && rank == 0 {
			in.Op = "mul"
		}
		if in.Op == "concat" && rank == 0 {
			in.Op = "elmin"
		}
		xs = append(xs, special(shape))
	}
	k.Case = gcase{In: in, Ops: xs}
	k.Key("tracking-independence/%s/%s", in.Op, shapeKey(shape))
	k.Count("tracking_independence_cases", 1)
	var results []*ref.T
	for _, mask := range [][]bool{{false, false}, {true, true}, {true, false}} {
		ts := make([]tensor.Tensor, len(xs))
		for i, v := range xs {
			ts[i] = rt.MustLeaf(v, mask[i])
		}
		y, err, p := exec(in, ts)
		if p != nil {
			k.Failf("%s%v on special values (tracked %v): panic %v", in.Op, shapesOf(xs), mask[:len(xs)], p)
			return
		}
		if err != nil || y == nil {
			if len(results) > 0 {
				k.Failf("%s%v on special values: accepted with untracked operands, refused with tracked %v: %v", in.Op, shapesOf(xs), mask[:len(xs)], err)
			}
			return
		}
		v, err := rt.Read(y)
		if err != nil {
			k.Failf("%s%v on special values: result unreadable: %v", in.Op, shapesOf(xs), err)
			return
		}
		results = append(results, v)
	}
	for q := 1; q < len(results); q++ {
		a, b := results[0], results[q]
		if !ref.SameShape(a.Shape, b.Shape) {
			k.Failf("tracking changed the SHAPE of %s%v: %v untracked, %v tracked", in.Op, shapesOf(xs), a.Shape, b.Shape)
			return
		}
		for e := range a.Data {
			u, w := a.Data[e], b.Data[e]
			if (u != u) != (w != w) || (u == u && math.Float64bits(u) != math.Float64bits(w)) {
				k.Failf("tracking changed a forward value: %s%v element %d is %v with untracked operands and %v with tracked ones (operands %v)", in.Op, shapesOf(xs), e, u, w, func() [][]float64 {
					var o [][]float64
					for _, x := range xs {
						o = append(o, x.Data)
					}
					return o
				}())
				return
			}
		}
	}
}

// c08UntrackedTwin re-runs the operations of the history with every leaf
// untracked and no back-propagation / reset: forward values must be
// bit-identical ("tracking never changes forward values").
func c08UntrackedTwin(h *c08hist) {
	k := h.k
	twin := make([]tensor.Tensor, 0, len(h.nodes))
	for _, n := range h.nodes {
		in := n.in
		in.Tracked = false
		xs := make([]tensor.Tensor, len(in.In))
		for q, j := range in.In {
			xs[q] = twin[j]
		}
		r, err, p := exec(in, xs)
		if p != nil || err != nil {
			k.Failf("untracked twin: %s%v failed: panic=%v err=%v", in.Op, in.In, p, err)
			return
		}
		twin = append(twin, r)
		a, e1 := rt.Read(r)
		b, e2 := rt.Read(n.real)
		if e1 != nil || e2 != nil || !ref.SameShape(a.Shape, b.Shape) {
			k.Failf("untracked twin: tensor %d unreadable or differently shaped: %v %v", len(twin)-1, e1, e2)
			return
		}
		for e := range a.Data {
			if math.Float64bits(a.Data[e]) != math.Float64bits(b.Data[e]) {
				k.Failf("tracking changed a forward value: tensor %d (%s%v) element %d is %v in the tracked history and %v with all leaves untracked", len(twin)-1, in.Op, in.In, e, b.Data[e], a.Data[e])
				return
			}
		}
	}
	k.Count("untracked_twin_histories", 1)
}
