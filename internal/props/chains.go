package props

import (
	"fmt"
	"math"
	"math/rand"

	"github.com/sahandsafizadeh/qeep/tensor"

	"qeepverif/internal/fw"
	"qeepverif/internal/ref"
	"qeepverif/internal/rt"
)

// Forward chains: short random programs whose operands have a *history* (they come from
// Full / Zeros / Ones / TensorOf and from earlier operations of the same chain), so that state
// an implementation might attach to a tensor (caches, flags, shared slices) and carry from one
// operation to the next is exercised. Every node is compared with the reference right after it is
// produced, the whole-tensor reducers are evaluated on every node, and at the end every earlier node
// is re-read: nothing produced earlier may have changed.

func genChain(r *rand.Rand, steps int) ref.Prog {
	b := &progBuilder{r: r}
	nl := 1 + r.Intn(3)
	var allowed []int
	for i := 0; i < nl; i++ {
		shape := RandShape(r, 0, 3, 4)
		if i > 0 && r.Intn(2) == 0 {
			shape = b.vals[r.Intn(i)].Shape
		}
		switch r.Intn(4) {
		case 0:
			allowed = append(allowed, b.add(ref.Instr{Op: "full", Shape: shape, F: []float64{0, 1, -2.5, 0.75}[r.Intn(4)]}))
		default:
			allowed = append(allowed, b.leaf(shape, false))
		}
	}
	for len(b.p)-nl < steps {
		x := allowed[r.Intn(len(allowed))]
		if r.Intn(2) == 0 {
			x = allowed[len(allowed)-1] // keep chaining on the latest result
		}
		v := b.vals[x]
		rank := len(v.Shape)
		before := len(b.p)
		switch r.Intn(14) {
		case 0:
			ts := shapesWithProduct(len(v.Data), 4)
			ts = append(ts, v.Shape)
			b.add(ref.Instr{Op: "reshape", In: []int{x}, Shape: ts[r.Intn(len(ts))]})
		case 1:
			if rank >= 1 {
				b.add(ref.Instr{Op: "flatten", In: []int{x}, Dim: r.Intn(rank)})
			}
		case 2:
			b.add(ref.Instr{Op: "unsqueeze", In: []int{x}, Dim: r.Intn(rank + 1)})
		case 3:
			for d := 0; d < rank; d++ {
				if v.Shape[d] == 1 {
					b.add(ref.Instr{Op: "squeeze", In: []int{x}, Dim: d})
					break
				}
			}
		case 4:
			if rank >= 1 {
				idx := make([]ref.Range, r.Intn(rank+1))
				for q := range idx {
					rs := allRanges(v.Shape[q])
					idx[q] = rs[r.Intn(len(rs))]
				}
				b.add(ref.Instr{Op: "slice", In: []int{x}, Index: idx})
			}
		case 5, 6: // patch a block (a constant block, a slice of another node, or the node itself) into x
			if rank >= 1 {
				src := make([]int, rank)
				for q := range src {
					src[q] = 1 + r.Intn(v.Shape[q])
				}
				var s int
				if r.Intn(2) == 0 {
					s = b.add(ref.Instr{Op: "full", Shape: src, F: float64(10 + r.Intn(80))})
				} else {
					t := Shuffled(r, Unique(r, src, 20, 30))
					s = b.add(ref.Instr{Op: "leaf", Shape: src, Data: t.Data})
				}
				idx := make([]ref.Range, r.Intn(rank+1))
				for q := range idx {
					if r.Intn(3) == 0 {
						continue
					}
					off := r.Intn(v.Shape[q] - src[q] + 1)
					idx[q] = ref.Range{From: off, To: off + src[q]}
				}
				b.add(ref.Instr{Op: "patch", In: []int{x, s}, Index: idx})
			}
		case 7:
			if rank >= 1 && len(v.Data) <= 40 {
				cands := b.sameShape(allowed, v.Shape, -1)
				b.add(ref.Instr{Op: "concat", In: []int{x, cands[r.Intn(len(cands))]}, Dim: r.Intn(rank)})
			}
		case 8:
			if rank >= 2 {
				b.add(ref.Instr{Op: "transpose", In: []int{x}})
			}
		case 9:
			if len(v.Data) <= 16 && rank <= 3 {
				ts := BroadcastTargets(v.Shape, 1)
				b.add(ref.Instr{Op: "broadcast", In: []int{x}, Shape: ts[r.Intn(len(ts))]})
			}
		case 10:
			b.add(ref.Instr{Op: []string{"scale", "tanh", "sin"}[r.Intn(3)], In: []int{x}, F: 1.5})
		case 11:
			cands := b.sameShape(allowed, v.Shape, -1)
			b.add(ref.Instr{Op: []string{"add", "sub", "mul", "elmax"}[r.Intn(4)], In: []int{x, cands[r.Intn(len(cands))]}})
		case 12: // MatMul with a freshly made right operand whose trailing sizes differ from x's, then x is used again later
			if rank >= 2 && len(v.Data) <= 48 {
				n := v.Shape[rank-1]
				w := b.leaf([]int{n, 1 + r.Intn(3)}, false)
				b.add(ref.Instr{Op: "matmul", In: []int{x, w}})
				b.add(ref.Instr{Op: "scale", In: []int{x}, F: 2}) // the receiver of the MatMul is used again
			}
		case 13:
			if rank >= 1 {
				b.add(ref.Instr{Op: []string{"sumalong", "maxalong", "meanalong", "varalong"}[r.Intn(4)], In: []int{x}, Dim: r.Intn(rank)})
			}
		}
		for i := before; i < len(b.p); i++ {
			if maxAbs(b.vals[i]) < 1e6 {
				allowed = append(allowed, i)
			}
		}
	}
	return b.p
}

// runChain executes a chain on the real library with the monitors described above.
// exact = compare element values bit-exactly (only valid when the chain has no arithmetic).
func runChain(k *fw.K, p ref.Prog) {
	vals, err := p.Eval()
	if err != nil {
		k.Failf("harness: reference rejects a generated chain: %v", err)
		return
	}
	ts := make([]tensor.Tensor, len(p))
	for i, in := range p {
		xs := make([]tensor.Tensor, len(in.In))
		for q, j := range in.In {
			xs[q] = ts[j]
		}
		t, err, pn := exec(in, xs)
		if pn != nil || err != nil || t == nil {
			k.Failf("chain step %d (%s%v): panic=%v err=%v", i, in.Op, in.In, pn, err)
			return
		}
		ts[i] = t
		if e := rt.Compare(t, vals[i], 1e-12, 1e-12, nil, 0); e != nil {
			k.Failf("chain step %d (%s%v of operands with a history): %v", i, in.Op, in.In, e)
			return
		}
		// whole-tensor reducers on a tensor with a history
		var got [7]float64
		if pn := call(func() { got = [7]float64{t.Sum(), t.Max(), t.Min(), t.Avg(), t.Var(), t.Std(), t.Mean()} }); pn != nil {
			k.Failf("chain step %d: reducers panicked on the result of %s: %v", i, in.Op, pn)
			return
		}
		for kind := ref.SSum; kind <= ref.SMean; kind++ {
			want := vals[i].Reduce(kind)
			if !ref.Close(got[kind], want, statTol(kind, vals[i].Data), 1e-10) {
				k.Failf("chain step %d: %s() of the result of %s%v = %v, expected %v", i, ref.StatNames[kind], in.Op, in.In, got[kind], want)
				return
			}
		}
		if t.NElems() != len(vals[i].Data) {
			k.Failf("chain step %d: NElems() = %d, expected %d", i, t.NElems(), len(vals[i].Data))
			return
		}
	}
	for i := range p { // nothing produced earlier may have changed
		if e := rt.Compare(ts[i], vals[i], 1e-12, 1e-12, nil, 0); e != nil {
			k.Failf("after the chain, tensor %d (%s) no longer holds what it held when it was produced: %v", i, p[i].Op, e)
			return
		}
	}
	k.Count("chain_steps", int64(len(p)))
}

func chainKey(p ref.Prog) string {
	s := ""
	for _, in := range p {
		if in.Op != "leaf" {
			s += in.Op[:min(3, len(in.Op))] + ">"
		}
	}
	return fmt.Sprintf("chain/%d/%s", len(p), s)
}

var _ = math.Abs
