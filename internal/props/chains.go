package props

import (
	"fmt"
	"math"
	"math/rand"

	"github.com/sahandsafizadeh/qeep/tensor"

	"qeepverif/internal/fw"
	"qeepverif/internal/ref"
	"qeepverif/internal/rt"
)

// Forward chains: short random programs whose operands have a *history* (they come from
// Full / Zeros / Ones / TensorOf and from earlier operations of the same chain), so that state
// an implementation might attach to a tensor (caches, flags, shared slices) and carry from one
// operation to the next is exercised. Every node is compared with the reference right after it is
// produced, the whole-tensor reducers are evaluated on every node, and at the end every earlier node
// is re-read: nothing produced earlier may have changed.

func genChain(r *rand.Rand, steps int) ref.Prog {
	b := &progBuilder{r: r}
	nl := 1 + r.Intn(3)
	var allowed []int
	for i := 0; i < nl; i++ {
		shape := RandShape(r, 0, 3, 4)
		if i > 0 && r.Intn(2) == 0 {
			shape = b.vals[r.Intn(i)].Shape
		}
		switch r.Intn(4) {
		case 0:
			allowed = append(allowed, b.add(ref.Instr{Op: "full", Shape: shape, F: []float64{0, 1, -2.5, 0.75}[r.Intn(4)]}))
		default:
			allowed = append(allowed, b.leaf(shape, false))
		}
	}
	for len(b.p)-nl < steps {
		x := allowed[r.Intn(len(allowed))]
		if r.Intn(2) == 0 {
			x = allowed[len(allowed)-1] // keep chaining on the latest result
		}
		v := b.vals[x]
		rank := len(v.Shape)
		before := len(b.p)
		switch r.Intn(14) {
		case 0:
			ts := shapesWithProduct(len(v.Data), 4)
			ts = append(ts, v.Shape)
			b.add(ref.Instr{Op: "reshape", In: []int{x}, Shape: ts[r.Intn(len(ts))]})
		case 1:
			if rank >= 1 {
				b.add(ref.Instr{Op: "flatten", In: []int{x}, Dim: r.Intn(rank)})
			}
		case 2:
			b.add(ref.Instr{Op: "unsqueeze", In: []int{x}, Dim: r.Intn(rank + 1)})
		case 3:
			for d := 0; d < rank; d++ {
				if v.Shape[d] == 1 {
					b.add(ref.Instr{Op: "squeeze", In: []int{x}, Dim: d})
					break
				}
			}
		case 4:
			if rank >= 1 {
				idx := make([]ref.Range, r.Intn(rank+1))
				for q := range idx {
					rs := allRanges(v.Shape[q])
					idx[q] = rs[r.Intn(len(rs))]
				}
				b.add(ref.Instr{Op: "slice", In: []int{x}, Index: idx})
			}
		case 5, 6: // patch a block (a constant block, a slice of another node, or the node itself) into x
			if rank >= 1 {
				src := make([]int, rank)
				for q := range src {
					src[q] = 1 + r.Intn(v.Shape[q])
				}
				var s int
				if r.Intn(2) == 0 {
					s = b.add(ref.Instr{Op: "full", Shape: src, F: float64(10 + r.Intn(80))})
				} else {
					t := Shuffled(r, Unique(r, src, 20, 30))
					s = b.add(ref.Instr{Op: "leaf", Shape: src, Data: t.Data})
				}
				idx := make([]ref.Range, r.Intn(rank+1))
				for q := range idx {
					if r.Intn(3) == 0 {
						continue
					}
					off := r.Intn(v.Shape[q] - src[q] + 1)
					idx[q] = ref.Range{From: off, To: off + src[q]}
				}
				b.add(ref.Instr{Op: "patch", In: []int{x, s}, Index: idx})
			}
		case 7:
			if rank >= 1 && len(v.Data) <= 40 {
				cands := b.sameShape(allowed, v.Shape, -1)
				b.add(ref.Instr{Op: "concat", In: []int{x, cands[r.Intn(len(cands))]}, Dim: r.Intn(rank)})
			}
		case 8:
			if rank >= 2 {
				b.add(ref.Instr{Op: "transpose", In: []int{x}})
			}
		case 9:
			if len(v.Data) <= 16 && rank <= 3 {
				ts := BroadcastTargets(v.Shape, 1)
				b.add(ref.Instr{Op: "broadcast", In: []int{x}, Shape: ts[r.Intn(len(ts))]})
			}
		case 10:
			b.add(ref.Instr{Op: []string{"scale", "tanh", "sin", "scale"}[r.Intn(4)], In: []int{x}, F: []float64{1.5, -2, -1, 1, -0.5, 0}[r.Intn(6)]})
		case 11:
			cands := b.sameShape(allowed, v.Shape, -1)
			b.add(ref.Instr{Op: []string{"add", "sub", "mul", "elmax"}[r.Intn(4)], In: []int{x, cands[r.Intn(len(cands))]}})
		case 12: // MatMul with a freshly made right operand whose trailing sizes differ from x's, then x is used again later
			if rank >= 2 && len(v.Data) <= 48 {
				n := v.Shape[rank-1]
				w := b.leaf([]int{n, 1 + r.Intn(3)}, false)
				b.add(ref.Instr{Op: "matmul", In: []int{x, w}})
				b.add(ref.Instr{Op: "scale", In: []int{x}, F: 2}) // the receiver of the MatMul is used again
			}
		case 13:
			if rank >= 1 {
				b.add(ref.Instr{Op: []string{"sumalong", "maxalong", "meanalong", "varalong"}[r.Intn(4)], In: []int{x}, Dim: r.Intn(rank)})
			}
		}
		for i := before; i < len(b.p); i++ {
			if maxAbs(b.vals[i]) < 1e6 {
				allowed = append(allowed, i)
			}
		}
	}
	return b.p
}

// runChain executes a chain on the real library with the monitors described above.
// exact = compare element values bit-exactly (only valid when the chain has no arithmetic).
func runChain(k *fw.K, p ref.Prog) {
	vals, err := p.Eval()
	if err != nil {
		k.Failf("harness: reference rejects a generated chain: %v", err)
		return
	}
	ts := make([]tensor.Tensor, len(p))
	for i, in := range p {
		xs := make([]tensor.Tensor, len(in.In))
		for q, j := range in.In {
			xs[q] = ts[j]
		}
		t, err, pn := exec(in, xs)
		if pn != nil || err != nil || t == nil {
			k.Failf("chain step %d (%s%v): panic=%v err=%v", i, in.Op, in.In, pn, err)
			return
		}
		ts[i] = t
		if e := rt.Compare(t, vals[i], 1e-12, 1e-12, nil, 0); e != nil {
			k.Failf("chain step %d (%s%v of operands with a history): %v", i, in.Op, in.In, e)
			return
		}
		// whole-tensor reducers on a tensor with a history
		var got [7]float64
		if pn := call(func() { got = [7]float64{t.Sum(), t.Max(), t.Min(), t.Avg(), t.Var(), t.Std(), t.Mean()} }); pn != nil {
			k.Failf("chain step %d: reducers panicked on the result of %s: %v", i, in.Op, pn)
			return
		}
		for kind := ref.SSum; kind <= ref.SMean; kind++ {
			want := vals[i].Reduce(kind)
			if !ref.Close(got[kind], want, statTol(kind, vals[i].Data), 1e-10) {
				k.Failf("chain step %d: %s() of the result of %s%v = %v, expected %v", i, ref.StatNames[kind], in.Op, in.In, got[kind], want)
				return
			}
		}
		if t.NElems() != len(vals[i].Data) {
			k.Failf("chain step %d: NElems() = %d, expected %d", i, t.NElems(), len(vals[i].Data))
			return
		}
	}
	for i := range p { // nothing produced earlier may have changed
		if e := rt.Compare(ts[i], vals[i], 1e-12, 1e-12, nil, 0); e != nil {
			k.Failf("after the chain, tensor %d (%s) no longer holds what it held when it was produced: %v", i, p[i].Op, e)
			return
		}
	}
	k.Count("chain_steps", int64(len(p)))
}

func chainKey(p ref.Prog) string {
	s := ""
	for _, in := range p {
		if in.Op != "leaf" {
			s += in.Op[:min(3, len(in.Op))] + ">"
		}
	}
	return fmt.Sprintf("chain/%d/%s", len(p), s)
}

var _ = math.Abs

// rejectThenReuse: a tensor takes part (as receiver or as argument) in calls that must be REJECTED, and is then
// used again: it must still hold its shape and elements and valid operations on it must give the defined result.
func rejectThenReuse(k *fw.K, shape []int) {
	r := k.Rng
	x := Shuffled(r, Unique(r, shape, 0.2, 2))
	rx := rt.MustLeaf(x, r.Intn(2) == 0)
	// a partner whose shape is incompatible with x's for broadcasting, Concat, MatMul and same-shape operations
	var ps []int
	switch v := r.Intn(4); {
	case v == 0 && len(shape) >= 1: // same rank, every size different
		ps = ref.CopyInts(shape)
		for i := range ps {
			ps[i] += 1 + i%2
		}
	case v == 1 && len(shape) >= 3: // same rank, only the leading (batch) size differs, matrices fit for MatMul
		ps = ref.CopyInts(shape)
		ps[0]++
		n := len(ps)
		ps[n-1], ps[n-2] = shape[n-2], shape[n-1]
	case v == 2 && len(shape) >= 2: // same rank, two sizes differ
		ps = ref.CopyInts(shape)
		ps[0] += 2
		ps[len(ps)-1]++
	default: // higher rank, all sizes different
		ps = append(ref.CopyInts(shape), 5)
		for i := range ps {
			ps[i] += 3 + i
		}
		if r.Intn(2) == 0 {
			ps = append([]int{2}, ps...)
		}
	}
	w := Shuffled(r, Unique(r, ps, 0.2, 2))
	rw := rt.MustLeaf(w, false)
	k.Case = map[string]any{"scenario": "rejected calls, then the same tensors are used again", "shape": shape, "partner": ps}
	k.Count("reject_then_reuse_cases", 1)
	type rc struct {
		name    string
		invalid bool // decided by the reference precondition predicates; valid combinations are skipped
		f       func() (tensor.Tensor, error)
	}
	bad := func(err error) bool { return err != nil }
	_, eBro := ref.BroadcastShape(shape, ps)
	_, eDot1 := ref.DotShape(shape, ps)
	_, _, _, _, eMM1 := ref.MatMulShapes(shape, ps)
	_, _, _, _, eMM2 := ref.MatMulShapes(ps, shape)
	_, eCat1 := ref.ConcatShape([][]int{shape, ps}, 0)
	_, eCat2 := ref.ConcatShape([][]int{ps, shape}, len(ps)-1)
	_, ePat1 := ref.PatchRegion(nil, ps, shape)
	_, ePat2 := ref.PatchRegion(nil, shape, ps)
	calls := []rc{
		{"x.Add(w)", bad(eBro), func() (tensor.Tensor, error) { return rx.Add(rw) }}, {"w.Sub(x)", bad(eBro), func() (tensor.Tensor, error) { return rw.Sub(rx) }},
		{"x.Mul(w)", bad(eBro), func() (tensor.Tensor, error) { return rx.Mul(rw) }}, {"w.Div(x)", bad(eBro), func() (tensor.Tensor, error) { return rw.Div(rx) }},
		{"x.Dot(w)", bad(eDot1), func() (tensor.Tensor, error) { return rx.Dot(rw) }}, {"w.MatMul(x)", bad(eMM2), func() (tensor.Tensor, error) { return rw.MatMul(rx) }},
		{"x.MatMul(w)", bad(eMM1), func() (tensor.Tensor, error) { return rx.MatMul(rw) }}, {"x.ElMax(w)", !ref.SameShape(shape, ps), func() (tensor.Tensor, error) { return rx.ElMax(rw) }},
		{"x.Gt(w)", !ref.SameShape(shape, ps), func() (tensor.Tensor, error) { return rx.Gt(rw) }}, {"Concat(x,w)", bad(eCat1), func() (tensor.Tensor, error) { return tensor.Concat([]tensor.Tensor{rx, rw}, 0) }},
		{"Concat(w,x)", bad(eCat2), func() (tensor.Tensor, error) { return tensor.Concat([]tensor.Tensor{rw, rx}, len(ps)-1) }},
		{"x.Broadcast(bad)", bad(ref.CanBroadcastTo(shape, ps)), func() (tensor.Tensor, error) { return rx.Broadcast(ps) }},
		{"x.Reshape(bad)", ref.Prod(shape) != ref.Prod(ps), func() (tensor.Tensor, error) { return rx.Reshape(ps) }},
		{"x.Patch(w)", bad(ePat1), func() (tensor.Tensor, error) { return rx.Patch(nil, rw) }}, {"w.Patch(x)", bad(ePat2), func() (tensor.Tensor, error) { return rw.Patch(nil, rx) }},
		{"x.Slice(bad)", true, func() (tensor.Tensor, error) {
			return rx.Slice(append(make([]tensor.Range, len(shape)), tensor.Range{From: 0, To: 1}))
		}},
		{"x.SumAlong(bad)", true, func() (tensor.Tensor, error) { return rx.SumAlong(len(shape)) }}, {"x.UnSqueeze(bad)", true, func() (tensor.Tensor, error) { return rx.UnSqueeze(-1) }},
		{"x.Flatten(bad)", true, func() (tensor.Tensor, error) { return rx.Flatten(len(shape)) }},
		{"x.Transpose() of rank < 2", len(shape) < 2, func() (tensor.Tensor, error) { return rx.Transpose() }},
	}
	n := 1 + r.Intn(3)
	names := ""
	for i := 0; i < n; i++ {
		c := calls[r.Intn(len(calls))]
		if !c.invalid {
			continue
		}
		var res tensor.Tensor
		var err error
		if p := call(func() { res, err = c.f() }); p != nil {
			k.Failf("%s on shapes %v, %v must be rejected but panicked: %v", c.name, shape, ps, p)
			return
		}
		if err == nil {
			k.Failf("%s on shapes %v, %v must be rejected but was accepted (result %v)", c.name, shape, ps, res != nil)
			return
		}
		names += c.name + "; "
	}
	k.Key("reject-then-reuse/%s/%s", shapeKey(shape), names)
	for _, chk := range []struct {
		t    tensor.Tensor
		want *ref.T
		what string
	}{{rx, x, "x"}, {rw, w, "the partner"}} {
		if e := rt.Compare(chk.t, chk.want, 0, 0, nil, 0); e != nil {
			k.Failf("after the rejected calls (%s) %s no longer holds its shape / elements: %v", names, chk.what, e)
			return
		}
	}
	// valid operations on x afterwards
	for _, in := range []ref.Instr{{Op: "scale", F: 2}, {Op: "exp"}, {Op: "unsqueeze", Dim: 0}, {Op: "add", In: []int{0, 0}}, {Op: "flatten", Dim: 0}} {
		if in.Op == "flatten" && len(shape) == 0 {
			continue
		}
		xs, rs := []*ref.T{x}, []tensor.Tensor{rx}
		if in.Op == "add" {
			xs, rs = []*ref.T{x, x}, []tensor.Tensor{rx, rx}
		}
		want, _ := ref.Apply(in, xs)
		got, err, p := exec(in, rs)
		if p != nil || err != nil {
			k.Failf("after the rejected calls (%s), %s on x failed: panic=%v err=%v", names, in.Op, p, err)
			return
		}
		if e := rt.Compare(got, want, 0, 1e-12, nil, 0); e != nil {
			k.Failf("after the rejected calls (%s), %s on x: %v", names, in.Op, e)
			return
		}
	}
}
