package props

import (
	"math"

	"github.com/sahandsafizadeh/qeep/component/optimizers"
	"github.com/sahandsafizadeh/qeep/tensor"

	"qeepverif/internal/fw"
	"qeepverif/internal/ref"
	"qeepverif/internal/rt"
)

// C17 — an SGD update subtracts exactly learning-rate times gradient, element-wise.

func init() {
	fw.Register(&fw.Prop{
		ID: "C17",
		Rule: "SGD.Update monitor: weights of every shape of rank 0..R (sizes 1..3) get their gradient from a back-propagated graph - a random C01 program, a product with a constant whose gradient entries sum to exactly 0, or several accumulated back-propagations - so gradients are non-uniform; learning rates {nil config (0.01), zero-value config, 0, 1e-3, -1e-3, 0.5, -0.5, 2}; after Update the tensor behind the pointer must have the same shape and elements w - lr*g (tolerance 4 ulp-scale), the previous tensor object, its elements and its gradient object/elements must be unchanged, and one optimizer object is used for two consecutive updates of different tensors. Invalid inputs (nil pointer, pointer to nil, tracked tensor without gradient, untracked tensor, tensor whose context was reset) must return an error and leave the pointer target identical. " +
			"Non-trivial: >= 2 elements and lr != 0, or an invalid input; distinct = (shape, learning rate, gradient source). Later additions: tensors of 16 384..72 900 elements and one long dimension (127..4097); the same tensor object stepped twice by one optimizer with a gradient that grew in between; gradients of magnitude 1e+-200; the config overwritten after construction.",
		Assumptions: []string{"the gradient used by the oracle is the one read back from the tensor before the update (its own correctness is C01/C02's subject)"},
		FloorQuick:  1500, FloorThor: 15000,
		Run: runC17,
	})
}

const zeroValueSGD = "zero value of the SGD struct"

func sgdOf(lr lrSpec) *optimizers.SGD {
	if lr.name == zeroValueSGD {
		return new(optimizers.SGD)
	}
	return optimizers.NewSGD(lr.conf)
}

type lrSpec struct {
	name string
	conf *optimizers.SGDConfig
	lr   float64
}

var c17LRs = []lrSpec{
	{"nil-config", nil, 0.01}, {"zero-value-config", &optimizers.SGDConfig{}, 0}, {"0", &optimizers.SGDConfig{LearningRate: 0}, 0},
	{"1e-3", &optimizers.SGDConfig{LearningRate: 1e-3}, 1e-3}, {"-1e-3", &optimizers.SGDConfig{LearningRate: -1e-3}, -1e-3},
	{"0.5", &optimizers.SGDConfig{LearningRate: 0.5}, 0.5}, {"-0.5", &optimizers.SGDConfig{LearningRate: -0.5}, -0.5}, {"2", &optimizers.SGDConfig{LearningRate: 2}, 2},
	{"1e-200", &optimizers.SGDConfig{LearningRate: 1e-200}, 1e-200}, {"1e150", &optimizers.SGDConfig{LearningRate: 1e150}, 1e150},
	{"1e-155", &optimizers.SGDConfig{LearningRate: 1e-155}, 1e-155},
	{"0.01 (the default, given explicitly)", &optimizers.SGDConfig{LearningRate: 0.01}, 0.01}, {"1", &optimizers.SGDConfig{LearningRate: 1}, 1},
	{zeroValueSGD, nil, 0},
	{"1e-250", &optimizers.SGDConfig{LearningRate: 1e-250}, 1e-250}, {"-1e-300", &optimizers.SGDConfig{LearningRate: -1e-300}, -1e-300}, {"1e-241", &optimizers.SGDConfig{LearningRate: 1e-241}, 1e-241},
	{"-1", &optimizers.SGDConfig{LearningRate: -1}, -1}, {"-2", &optimizers.SGDConfig{LearningRate: -2}, -2}, {"-1e308", &optimizers.SGDConfig{LearningRate: -1e308}, -1e308},
	{"5", &optimizers.SGDConfig{LearningRate: 5}, 5}, {"-7", &optimizers.SGDConfig{LearningRate: -7}, -7}, {"3", &optimizers.SGDConfig{LearningRate: 3}, 3},
}

func runC17(c *fw.Ctx) {
	deeperBounds(!c.Quick())
	for _, shape := range Shapes(0, c.Pick(4, 6), 3) {
		for _, lr := range c17LRs {
			for src := 0; src < 11; src++ {
				shape, lr, src := shape, lr, src
				c.Case(func(k *fw.K) { c17Case(k, shape, lr, src) })
			}
		}
	}
	for i := 0; i < c.Pick(1500, 100000); i++ {
		c.Case(func(k *fw.K) { c17Invalid(k) })
	}
	for i := 0; i < c.Pick(600, 30000); i++ {
		c.Case(func(k *fw.K) { c17SameObjectTwice(k) })
	}
	for i := 0; i < c.Pick(400, 8000); i++ {
		c.Case(func(k *fw.K) { c17SharedGradient(k) })
	}
	// ONE optimizer steps a parameter of every shape of a group whose shapes collide under ad-hoc cache keys (digits run
	// together, equal element counts, shared prefixes), in both orders
	for gi, group := range CollidingShapes {
		for rev := 0; rev < 2; rev++ {
			gi, group, rev := gi, group, rev
			c.Case(func(k *fw.K) { c17Colliding(k, gi, group, rev == 1) })
		}
	}
	huge := [][]int{{100, 700}, {70001}, {33, 500}, {4097, 4}, {9, 90, 90}, {129, 128}}
	if c.Quick() {
		huge = huge[:4]
	}
	for _, shape := range huge { // >= 16384 / >= 65536 elements, leading sizes that are not multiples of 8 or 32
		shape := shape
		c.Case(func(k *fw.K) { c17Case(k, shape, c17LRs[3+k.Rng.Intn(5)], 1) })
	}
	for _, n := range LongSizes {
		n := n
		c.Case(func(k *fw.K) {
			c17Case(k, [][]int{{n}, {2, n}, {n, 3}}[k.Rng.Intn(3)], c17LRs[3+k.Rng.Intn(5)], k.Rng.Intn(3))
		})
	}
}

// c17Weight builds a tracked weight of the given shape and gives it a gradient; src selects how.
func c17Weight(k *fw.K, shape []int, src int) (w tensor.Tensor, what string, err error) {
	wv := Shuffled(k.Rng, Unique(k.Rng, shape, 0.2, 2))
	w = rt.MustLeaf(wv, true)
	prov := ""
	if k.Rng.Intn(3) == 0 { // the weight comes from a constant constructor instead (values all equal)
		var e error
		switch k.Rng.Intn(3) {
		case 0:
			w, e = tensor.Full(ref.CopyInts(shape), 0.75, rt.Conf(true))
			prov = " (weight built by Full)"
		case 1:
			w, e = tensor.Ones(ref.CopyInts(shape), rt.Conf(true))
			prov = " (weight built by Ones)"
		default:
			w, e = tensor.Zeros(ref.CopyInts(shape), rt.Conf(true))
			prov = " (weight built by Zeros)"
		}
		if e != nil {
			return nil, "", e
		}
	}
	defer func() { what += prov }()
	switch src {
	case 10: // a gradient behind a mask: entries that are exactly 0 or negative (y = -(w * m) for a 0/1.. mask m), so that whole rows / blocks
		// have a largest element of exactly 0 next to negative ones; and blocks that are zero throughout
		cv := ref.Zeros(shape)
		for i := range cv.Data {
			if k.Rng.Intn(3) > 0 {
				cv.Data[i] = -float64(1 + k.Rng.Intn(4))
			}
		}
		if n := len(cv.Data); n >= 2 {
			cv.Data[k.Rng.Intn(n)] = 0
			cv.Data[k.Rng.Intn(n)] = -2
		}
		y, e := w.Mul(rt.MustLeaf(cv, false))
		if e != nil {
			return nil, "", e
		}
		return w, "gradient entries that are 0 or negative (largest element of a row exactly 0)", tensor.BackPropagate(y)
	case 9: // a HUGE gradient (elements around 1e252): with a rate of 1e-250 the step is an ordinary number although the rate is far below
		// every "is it zero" tolerance; with ordinary rates the step is huge but finite, with 1e150 it overflows - IEEE decides each
		cv := Shuffled(k.Rng, Unique(k.Rng, shape, 0.5, 4))
		for i := range cv.Data {
			cv.Data[i] *= 1e252
		}
		y, e := w.Mul(rt.MustLeaf(cv, false))
		if e != nil {
			return nil, "", e
		}
		return w, "gradient elements around 1e252", tensor.BackPropagate(y)
	case 8: // the parameter is the LOWER-RANK operand of a product whose other operand only has extra leading dimensions of size 1
		// (w:[3] times x:[1,1,3]): nothing is expanded, the gradient has the parameter's own shape
		cs := append([]int{1}, shape...)
		if k.Rng.Intn(2) == 0 {
			cs = append([]int{1}, cs...)
		}
		cv := Shuffled(k.Rng, Unique(k.Rng, cs, 0.5, 2))
		y, e := w.Mul(rt.MustLeaf(cv, false))
		if e != nil {
			return nil, "", e
		}
		return w, "gradient through a product with an operand that has extra leading dimensions of size 1", tensor.BackPropagate(y)
	case 7: // the gradient was produced by the Scale rule with a whole factor (y = (w*3) . c): a chain of scalings that the step extends
		cv := Shuffled(k.Rng, Unique(k.Rng, shape, 0.1, 0.9))
		for i := range cv.Data {
			cv.Data[i] += 1.0 / 3
		}
		y, e := w.Scale([]float64{3, 5, 7, -3, 6}[k.Rng.Intn(5)]).Mul(rt.MustLeaf(cv, false))
		if e != nil {
			return nil, "", e
		}
		return w, "gradient produced by the Scale rule with a whole factor", tensor.BackPropagate(y)
	case 6: // a gradient holding +Inf, -Inf or NaN in some elements (a diverged step): the update is still w - lr*g element by element
		cv := Shuffled(k.Rng, Unique(k.Rng, shape, 0.5, 2))
		for i := range cv.Data {
			if i == 0 || k.Rng.Intn(3) == 0 {
				cv.Data[i] = []float64{math.Inf(1), math.Inf(-1), math.NaN()}[k.Rng.Intn(3)]
			}
		}
		y, e := w.Mul(rt.MustLeaf(cv, false))
		if e != nil {
			return nil, "", e
		}
		return w, "gradient with non-finite elements", tensor.BackPropagate(y)
	case 5: // a gradient that is exactly zero everywhere (all units dead): the step still replaces the tensor and leaves the old one alone
		y, e := w.Mul(rt.MustLeaf(ref.Zeros(shape), false))
		if e != nil {
			return nil, "", e
		}
		return w, "gradient exactly zero in every element", tensor.BackPropagate(y)
	case 4: // the tensor being stepped is itself the RESULT of an operation on a tracked leaf (h = x * a), with a gradient of its own
		x := rt.MustLeaf(Shuffled(k.Rng, Unique(k.Rng, shape, 0.5, 1.5)), true)
		h, e := x.Mul(rt.MustLeaf(Shuffled(k.Rng, Unique(k.Rng, shape, 0.5, 1.5)), false))
		if e != nil {
			return nil, "", e
		}
		y, e := h.Mul(rt.MustLeaf(Shuffled(k.Rng, Unique(k.Rng, shape, 1, 4)), false))
		if e != nil {
			return nil, "", e
		}
		prov = ""
		return h, "a derived (non-leaf) tensor holding a gradient", tensor.BackPropagate(y)
	case 3: // only a part of the weight is used: y = w[first row ...] * c, the gradient is zero elsewhere
		if len(shape) == 0 {
			break
		}
		cut := 1 + k.Rng.Intn(shape[0])
		part, e := w.Slice([]tensor.Range{{From: 0, To: cut}})
		if e != nil {
			return nil, "", e
		}
		ps := ref.CopyInts(shape)
		ps[0] = cut
		y, e := part.Mul(rt.MustLeaf(Shuffled(k.Rng, Unique(k.Rng, ps, 1, 5)), false))
		if e != nil {
			return nil, "", e
		}
		return w, "gradient through a Slice of the weight", tensor.BackPropagate(y)
	case 0: // y = w * c with integer c whose entries sum to exactly 0 (where possible): dy/dw = c
		cv := ref.Zeros(shape)
		s := 0.
		for i := range cv.Data {
			cv.Data[i] = float64(1 + k.Rng.Intn(4))
			if i%2 == 1 {
				cv.Data[i] = -cv.Data[i]
			}
			s += cv.Data[i]
		}
		if len(cv.Data) >= 2 {
			cv.Data[len(cv.Data)-1] -= s
			if cv.Data[len(cv.Data)-1] == 0 {
				cv.Data[0] += 1
				cv.Data[len(cv.Data)-1] -= 1
			}
		}
		y, e := w.Mul(rt.MustLeaf(cv, false))
		if e != nil {
			return nil, "", e
		}
		return w, "gradient entries summing to exactly 0", tensor.BackPropagate(y)
	case 1: // a small reconvergent graph
		h := w.Sin()
		h2, e := h.Mul(w)
		if e != nil {
			return nil, "", e
		}
		y, e := h2.Add(w.Scale(0.3))
		if e != nil {
			return nil, "", e
		}
		return w, "reconvergent graph", tensor.BackPropagate(y)
	}
	// two accumulated back-propagations
	if e := tensor.BackPropagate(w.Tanh()); e != nil {
		return nil, "", e
	}
	return w, "two accumulated back-propagations", tensor.BackPropagate(w.Pow(2))
}

func c17Case(k *fw.K, shape []int, lr lrSpec, src int) {
	k.Case = map[string]any{"shape": shape, "learning_rate": lr.name, "gradient_source": src}
	if ref.Prod(shape) >= 2 && lr.lr != 0 {
		k.Key("%s/%s/%d", shapeKey(shape), lr.name, src)
	}
	k.Count("update_cases", 1)
	k.Sample()
	var opt *optimizers.SGD
	if p := call(func() {
		if lr.name == zeroValueSGD {
			opt = new(optimizers.SGD) // the zero value of the exported struct: a learning rate of 0
			return
		}
		if lr.conf == nil {
			opt = optimizers.NewSGD(nil)
			return
		}
		conf := *lr.conf
		opt = optimizers.NewSGD(&conf)
		conf.LearningRate = 123 // the caller's config is overwritten after construction
	}); p != nil || opt == nil {
		k.Failf("NewSGD(%s): panic=%v", lr.name, p)
		return
	}
	// a second optimizer with another learning rate is built AFTER the one under test and steps a tensor in between
	disturber := optimizers.NewSGD(&optimizers.SGDConfig{LearningRate: 3.25})
	var slot tensor.Tensor // ONE variable (one address) holds the tensor of every round
	shape0 := shape
	for round := 0; round < 2; round++ { // the same optimizer updates two different tensors
		shape := shape0
		if round == 1 && k.Index%2 == 0 { // ... of a different shape that would broadcast against the first
			switch {
			case len(shape0) >= 2:
				shape = shape0[1+k.Rng.Intn(len(shape0)-1):]
			case len(shape0) == 1:
				shape = [][]int{{}, {1}, {2, shape0[0]}}[k.Rng.Intn(3)]
			default:
				shape = [][]int{{2}, {1, 3}}[k.Rng.Intn(2)]
			}
		}
		if (k.Index+round)%4 == 0 { // ... after stepping a tensor whose gradient is not finite (a diverged step; outcome ignored)
			call(func() {
				bw, _, berr := c17Weight(k, shape, 0)
				if berr != nil {
					return
				}
				inf := rt.MustLeaf(ref.Full(shape, math.Inf(1)), false)
				if y, e := bw.Mul(inf); e == nil && tensor.BackPropagate(y) == nil {
					bw.ResetGradContext(true)
				}
				nan := rt.MustLeaf(ref.Full(shape, math.NaN()), false)
				if y, e := bw.Mul(nan); e == nil && tensor.BackPropagate(y) == nil {
					_ = opt.Update(&bw)
					k.Count("non_finite_updates_before_a_finite_one", 1)
				}
			})
		}
		if k.Rng.Intn(3) == 0 { // a REFUSED call on the optimizer under test (no gradient / nil tensor): it must not affect the calls that follow
			var bad tensor.Tensor = rt.MustLeaf(ref.Full(shape, 1), true)
			if k.Rng.Intn(2) == 0 {
				bad = nil
			}
			var berr error
			if p := call(func() { berr = opt.Update(&bad) }); p != nil || berr == nil {
				k.Failf("Update of a tensor without a gradient / a nil tensor: panic=%v err=%v (an error is required)", p, berr)
				return
			}
			k.Count("refused_updates_before_a_valid_one", 1)
		}
		if k.Rng.Intn(2) == 0 {
			call(func() {
				if dw, _, e := c17Weight(k, shape, 1); e == nil {
					_ = disturber.Update(&dw)
					k.Count("updates_by_a_second_optimizer_in_between", 1)
				}
			})
		}
		var w tensor.Tensor
		var what string
		var err error
		if p := call(func() { w, what, err = c17Weight(k, shape, (src+round)%11) }); p != nil || err != nil {
			k.Failf("building a weight with a gradient failed: panic=%v err=%v", p, err)
			return
		}
		old := w
		oldG := old.Gradient()
		if oldG == nil {
			k.Failf("weight has no gradient after back-propagation (%s)", what)
			return
		}
		wv, e1 := rt.Read(old)
		gv, e2 := rt.Read(oldG)
		if e1 != nil || e2 != nil || !ref.SameShape(gv.Shape, shape) {
			k.Failf("weight / gradient unreadable or gradient of shape %v for weight %v (%v %v)", gv, shape, e1, e2)
			return
		}
		var penaltyG tensor.Tensor
		if k.Rng.Intn(6) == 0 && src != 6 {
			// the caller re-arms the GRADIENT tensor (gradient clipping / logging code that wants to differentiate through it later): it is
			// still w's current gradient with the same values, and no operand of a graph awaiting its backward pass
			oldG.ResetGradContext(true)
			k.Count("updates_after_the_gradient_tensor_was_re_armed_by_the_caller", 1)
			if k.Rng.Intn(2) == 0 {
				// ... and has differentiated through it already (a gradient penalty |g|^2 back-propagated before the step): the gradient
				// tensor now holds a gradient of its own, which the step leaves alone like everything else about that tensor
				var perr error
				if p := call(func() { perr = tensor.BackPropagate(oldG.Pow(2)) }); p != nil || perr != nil {
					k.Failf("gradient penalty over the re-armed gradient tensor: panic=%v err=%v", p, perr)
					return
				}
				penaltyG = oldG.Gradient()
				if penaltyG == nil {
					k.Failf("the re-armed gradient tensor received no gradient from the penalty graph")
					return
				}
				k.Count("updates_after_a_penalty_graph_over_the_gradient_tensor", 1)
			}
		}
		slot = w
		if k.Index%5 == 1 {
			// the caller's own tensor type: a struct that embeds the library tensor (a named parameter). Every method is the embedded
			// tensor's, so it is that tensor which is stepped; what Update leaves behind the pointer is the stepped tensor
			slot = namedTensor{Tensor: w, name: "layer1.weight"}
			k.Count("updates_of_a_caller_side_struct_embedding_the_tensor", 1)
		}
		ptr := &slot
		stepper := opt
		if round == 1 && k.Index%3 == 0 { // the second step goes through a VALUE COPY of the optimizer struct
			cp := *opt
			stepper = &cp
			k.Count("steps_through_a_value_copy_of_the_optimizer", 1)
		}
		if p := call(func() { err = stepper.Update(ptr) }); p != nil || err != nil {
			k.Failf("Update(lr %s, shape %v, %s): panic=%v err=%v", lr.name, shape, what, p, err)
			return
		}
		if *ptr == nil {
			k.Failf("Update replaced the tensor by nil")
			return
		}
		nv, err := rt.Read(*ptr)
		if err != nil || !ref.SameShape(nv.Shape, shape) {
			k.Failf("updated tensor unreadable or of shape %v, expected %v (%v)", nv, shape, err)
			return
		}
		for i := range nv.Data {
			want := wv.Data[i] - lr.lr*gv.Data[i]
			if !sgdStepValue(nv.Data[i], wv.Data[i], lr.lr, gv.Data[i]) {
				k.Failf("Update(lr %s, shape %v, %s): element %d = %v, expected w - lr*g = %v - %v*%v = %v", lr.name, shape, what, i, nv.Data[i], wv.Data[i], lr.lr, gv.Data[i], want)
				return
			}
		}
		// the tensor now behind the pointer has no gradient: stepping it again - a second sweep over the parameter list without a backward
		// pass in between - is refused and replaces nothing, whatever the optimizer stepped before
		if k.Rng.Intn(3) == 0 {
			stepped := *ptr
			var err2 error
			if p := call(func() { err2 = stepper.Update(ptr) }); p != nil || err2 == nil || *ptr != stepped {
				k.Failf("a second Update of the tensor that the first Update left behind the pointer (no gradient): panic=%v err=%v replaced=%v (an error is required and nothing may be replaced)", p, err2, *ptr != stepped)
				return
			}
			k.Count("second_updates_without_a_gradient_refused", 1)
		}
		// the previous tensor object and its gradient are left unchanged
		if old.Gradient() != oldG {
			k.Failf("Update changed the gradient object of the previous tensor")
			return
		}
		if e := rt.Compare(old, wv, 0, 0, nil, 0); e != nil {
			k.Failf("Update changed the previous tensor: %v", e)
			return
		}
		if e := rt.Compare(oldG, gv, 0, 0, nil, 0); e != nil {
			k.Failf("Update changed the previous tensor's gradient: %v", e)
			return
		}
		if penaltyG != nil {
			if oldG.Gradient() != penaltyG {
				k.Failf("Update changed the gradient tensor of the previous tensor: before the step it held a gradient of its own (from a penalty graph the caller back-propagated), afterwards Gradient() of it is nil=%v", oldG.Gradient() == nil)
				return
			}
			if st, ok := tensor.VerifGradState(oldG); ok && (!st.Tracked || !st.BPDirty) {
				k.Failf("Update changed the tracking state of the previous tensor's gradient tensor: tracked=%v spent=%v (it was a tracked, back-propagated leaf)", st.Tracked, st.BPDirty)
				return
			}
		}
	}
}

// namedTensor is a caller-side decoration of a library tensor.
type namedTensor struct {
	tensor.Tensor
	name string
}

// sgdStepValue: got is w - lr*g as IEEE arithmetic gives it - the product rounded, then the difference rounded, or the
// difference of the exact product rounded once (a fused multiply-add); anything else (a product formed from other factors,
// a reassociated chain of scalings) is a different number even when it is only an ulp away.
func sgdStepValue(got, w, lr, g float64) bool {
	p := lr * g
	two := w - p
	fused := math.FMA(-lr, g, w)
	same := func(a, b float64) bool { return a == b || (a != a && b != b) }
	return same(got, two) || same(got, fused)
}

func c17Colliding(k *fw.K, gi int, group [][]int, reverse bool) {
	k.Key("colliding/%d/%v", gi, reverse)
	k.Count("colliding_shape_group_cases", 1)
	lr := c17LRs[3+k.Rng.Intn(len(c17LRs)-3)]
	opt := sgdOf(lr)
	order := append([][]int(nil), group...)
	if reverse {
		for i, j := 0, len(order)-1; i < j; i, j = i+1, j-1 {
			order[i], order[j] = order[j], order[i]
		}
	}
	k.Case = map[string]any{"shapes": order, "learning_rate": lr.name}
	for pass := 0; pass < 2; pass++ { // every shape twice: a cache filled by one shape is consulted by the other and again by the first
		for _, shape := range order {
			var w tensor.Tensor
			var what string
			var err error
			if p := call(func() { w, what, err = c17Weight(k, shape, []int{0, 1, 2}[k.Rng.Intn(3)]) }); p != nil || err != nil || w.Gradient() == nil {
				k.Failf("building a weight with a gradient failed: panic=%v err=%v", p, err)
				return
			}
			wv, e1 := rt.Read(w)
			gv, e2 := rt.Read(w.Gradient())
			if e1 != nil || e2 != nil {
				k.Failf("weight / gradient unreadable (%v %v)", e1, e2)
				return
			}
			if p := call(func() { err = opt.Update(&w) }); p != nil || err != nil || w == nil {
				k.Failf("one optimizer stepping shapes %v in turn: Update(lr %s, shape %v, %s): panic=%v err=%v", order, lr.name, shape, what, p, err)
				return
			}
			nv, err := rt.Read(w)
			if err != nil || !ref.SameShape(nv.Shape, shape) {
				k.Failf("one optimizer stepping shapes %v in turn: the updated tensor of shape %v is unreadable or has shape %v (%v)", order, shape, nv, err)
				return
			}
			for i := range nv.Data {
				if !sgdStepValue(nv.Data[i], wv.Data[i], lr.lr, gv.Data[i]) {
					k.Failf("one optimizer stepping shapes %v in turn: Update(lr %s, shape %v, %s): element %d = %v, expected w - lr*g = %v - %v*%v", order, lr.name, shape, what, i, nv.Data[i], wv.Data[i], lr.lr, gv.Data[i])
					return
				}
			}
		}
	}
}

func c17Invalid(k *fw.K) {
	lr := c17LRs[k.Rng.Intn(len(c17LRs))]
	opt := sgdOf(lr)
	shape := RandShape(k.Rng, 0, 3, 3)
	kind := k.Rng.Intn(5)
	names := []string{"nil pointer", "pointer to nil", "tracked tensor without gradient", "untracked tensor", "tensor whose context was reset after back-propagation"}
	k.Case = map[string]any{"invalid": names[kind], "shape": shape, "learning_rate": lr.name}
	k.Key("invalid/%d/%s", kind, lr.name)
	k.Count("invalid_update_cases", 1)
	var ptr *tensor.Tensor
	var t tensor.Tensor
	switch kind {
	case 1:
		ptr = &t
	case 2:
		t = rt.MustLeaf(Unique(k.Rng, shape, 0.2, 2), true)
		ptr = &t
	case 3:
		t = rt.MustLeaf(Unique(k.Rng, shape, 0.2, 2), false)
		if err := tensor.BackPropagate(t.Scale(2)); err != nil {
			k.Failf("BackPropagate: %v", err)
			return
		}
		ptr = &t
	case 4:
		t = rt.MustLeaf(Unique(k.Rng, shape, 0.2, 2), true)
		if err := tensor.BackPropagate(t.Scale(2)); err != nil {
			k.Failf("BackPropagate: %v", err)
			return
		}
		t.ResetGradContext(k.Rng.Intn(2) == 0)
		ptr = &t
	}
	before := t
	var err error
	if p := call(func() { err = opt.Update(ptr) }); p != nil {
		k.Failf("Update(%s): PANIC: %v", names[kind], p)
		return
	}
	if err == nil {
		k.Failf("Update(%s) returned no error", names[kind])
		return
	}
	if ptr != nil && *ptr != before {
		k.Failf("Update(%s) returned an error but replaced the tensor behind the pointer", names[kind])
	}
}

// c17SameObjectTwice: one optimizer steps the SAME tensor object twice - the caller keeps the old tensor (a rejected
// trial step) and its gradient has grown in between through a second back-propagation - and gradients of very large
// or very small magnitude (all finite, w - lr*g representable).
func c17SameObjectTwice(k *fw.K) {
	shape := RandShape(k.Rng, 0, 3, 3)
	lr := c17LRs[3+k.Rng.Intn(5)]
	scale := []float64{1, 1, 1e200, 1e-200, 1e160, -1}[k.Rng.Intn(6)]
	wscale := 1.
	if scale == -1 { // the step lr*g is a SUBNORMAL number although lr and g are ordinary normal floats; weights small enough for it to show
		scale, wscale = 1e-312/math.Abs(lr.lr), 1e-310
	}
	k.Case = map[string]any{"scenario": "same tensor object stepped twice, gradient accumulated in between", "shape": shape, "learning_rate": lr.name, "gradient_scale": scale}
	k.Key("same-object/%s/%s/%g", shapeKey(shape), lr.name, scale)
	k.Count("same_object_twice_cases", 1)
	conf := *lr.conf
	opt := optimizers.NewSGD(&conf)
	wv := Shuffled(k.Rng, Unique(k.Rng, shape, 0.2, 2))
	c1, c2 := Shuffled(k.Rng, Unique(k.Rng, shape, 0.5, 3)), Shuffled(k.Rng, Unique(k.Rng, shape, 0.5, 3))
	for i := range c1.Data {
		c1.Data[i] *= scale
		c2.Data[i] *= scale
		wv.Data[i] *= wscale
	}
	w0 := rt.MustLeaf(wv, true)
	var y1, y2 tensor.Tensor
	var err error
	if p := call(func() {
		if y1, err = w0.Mul(rt.MustLeaf(c1, false)); err != nil {
			return
		}
		if y2, err = w0.Mul(rt.MustLeaf(c2, false)); err != nil {
			return
		}
		err = tensor.BackPropagate(y1)
	}); p != nil || err != nil {
		k.Failf("building the graphs failed: panic=%v err=%v", p, err)
		return
	}
	check := func(step int, g *ref.T) bool {
		w := w0 // the pointer is pointed back at the original tensor object before every step
		if p := call(func() { err = opt.Update(&w) }); p != nil || err != nil {
			k.Failf("step %d: Update failed: panic=%v err=%v", step, p, err)
			return false
		}
		nv, err := rt.Read(w)
		if err != nil || !ref.SameShape(nv.Shape, shape) {
			k.Failf("step %d: updated tensor unreadable / wrong shape: %v", step, err)
			return false
		}
		for i := range nv.Data {
			want := wv.Data[i] - lr.lr*g.Data[i]
			if math.IsInf(want, 0) {
				continue
			}
			tol := 4e-16 * (math.Abs(wv.Data[i]) + math.Abs(lr.lr*g.Data[i]))
			if !(math.Abs(nv.Data[i]-want) <= tol) {
				k.Failf("step %d of the same tensor object (gradient scale %g): element %d = %v, expected w - lr*g = %v - %v*%v = %v", step, scale, i, nv.Data[i], wv.Data[i], lr.lr, g.Data[i], want)
				return false
			}
		}
		return true
	}
	if !check(1, c1) {
		return
	}
	if p := call(func() { err = tensor.BackPropagate(y2) }); p != nil || err != nil {
		k.Failf("second back-propagation failed: panic=%v err=%v", p, err)
		return
	}
	g2 := c1.Clone()
	for i := range g2.Data {
		g2.Data[i] += c2.Data[i]
	}
	check(2, g2)
}

// c17SharedGradient: two (or three) DIFFERENT parameters of equal shape are operands of one Add, so back-propagation may hand
// them the very same gradient tensor object; one optimizer steps them one after the other. Each must become its own w - lr*g.
func c17SharedGradient(k *fw.K) {
	shape := RandShape(k.Rng, 0, 3, 3)
	lr := c17LRs[3+k.Rng.Intn(5)]
	n := 2 + k.Rng.Intn(2)
	k.Case = map[string]any{"scenario": "parameters that are operands of one Add, stepped consecutively by one optimizer", "shape": shape, "learning_rate": lr.name, "parameters": n}
	k.Key("shared-gradient/%s/%s/%d", shapeKey(shape), lr.name, n)
	k.Count("shared_gradient_cases", 1)
	conf := *lr.conf
	opt := optimizers.NewSGD(&conf)
	ws := make([]tensor.Tensor, n)
	wvs := make([]*ref.T, n)
	var sum tensor.Tensor
	var err error
	if p := call(func() {
		for i := range ws {
			wvs[i] = Shuffled(k.Rng, Unique(k.Rng, shape, 0.2, 9))
			ws[i] = rt.MustLeaf(wvs[i], true)
			if i == 0 {
				sum = ws[0]
			} else if sum, err = sum.Add(ws[i]); err != nil {
				return
			}
		}
		var y tensor.Tensor
		if y, err = sum.Mul(rt.MustLeaf(Shuffled(k.Rng, Unique(k.Rng, shape, 1, 4)), false)); err == nil {
			err = tensor.BackPropagate(y)
		}
	}); p != nil || err != nil {
		k.Failf("building the graph failed: panic=%v err=%v", p, err)
		return
	}
	for i := range ws {
		g := ws[i].Gradient()
		if g == nil {
			k.Failf("parameter %d has no gradient", i)
			return
		}
		gv, e1 := rt.Read(g)
		w := ws[i]
		if p := call(func() { err = opt.Update(&w) }); p != nil || err != nil || e1 != nil {
			k.Failf("Update(parameter %d of %d): panic=%v err=%v %v", i, n, p, err, e1)
			return
		}
		nv, err := rt.Read(w)
		if err != nil || !ref.SameShape(nv.Shape, shape) {
			k.Failf("parameter %d after the step is unreadable or of shape %v (%v)", i, nv, err)
			return
		}
		for e := range nv.Data {
			want := wvs[i].Data[e] - lr.lr*gv.Data[e]
			if math.Abs(nv.Data[e]-want) > 4e-16*(math.Abs(wvs[i].Data[e])+math.Abs(lr.lr*gv.Data[e])) {
				k.Failf("parameter %d of %d (all operands of one Add, stepped one after the other): element %d = %v, expected its own w - lr*g = %v - %v*%v = %v", i, n, e, nv.Data[e], wvs[i].Data[e], lr.lr, gv.Data[e], want)
				return
			}
		}
	}
}
