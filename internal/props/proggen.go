package props

import (
	"math"
	"math/rand"

	"qeepverif/internal/ref"
)

// Value-aware generator of random straight-line programs over the smooth
// differentiable operations. It runs the REFERENCE interpreter while it builds
// the program, so it knows every intermediate shape and value: it only emits
// valid arguments, keeps operands inside the differentiable region with a
// margin, keeps magnitudes bounded, and biases operand choice towards results
// that already have a consumer (fan-out and reconvergence are the norm).
// The real library is never consulted.

type progOpts struct {
	MinInstr, MaxInstr int
	MaxLeaves          int
	MaxRank, MaxDim    int
	AllTracked         bool
	OnlyLeaves         []int // if non-nil: operands may only be these leaves or nodes created after index From
	From               int
}

type progBuilder struct {
	r    *rand.Rand
	p    ref.Prog
	vals []*ref.T
	uses []int
}

func (b *progBuilder) add(in ref.Instr) int {
	xs := make([]*ref.T, len(in.In))
	for k, j := range in.In {
		xs[k] = b.vals[j]
	}
	v, err := ref.Apply(in, xs)
	if err != nil {
		panic("proggen: " + err.Error())
	}
	b.p = append(b.p, in)
	b.vals = append(b.vals, v)
	b.uses = append(b.uses, 0)
	for _, j := range in.In {
		b.uses[j]++
	}
	return len(b.p) - 1
}

func (b *progBuilder) leaf(shape []int, tracked bool) int {
	t := Shuffled(b.r, Unique(b.r, shape, 0.2, 1.5))
	return b.add(ref.Instr{Op: "leaf", Shape: shape, Data: t.Data, Tracked: tracked})
}

func minAbs(t *ref.T) float64 {
	m := math.Inf(1)
	for _, v := range t.Data {
		if a := math.Abs(v); a < m {
			m = a
		}
	}
	return m
}

// pick chooses an operand among the allowed nodes, biased towards nodes that already have consumers.
func (b *progBuilder) pick(allowed []int) int {
	if b.r.Intn(3) > 0 {
		var used []int
		for _, i := range allowed {
			if b.uses[i] > 0 && b.p[i].Op != "leaf" {
				used = append(used, i)
			}
		}
		if len(used) > 0 {
			return used[b.r.Intn(len(used))]
		}
	}
	// otherwise prefer recent nodes
	if b.r.Intn(2) == 0 && len(allowed) > 3 {
		return allowed[len(allowed)-1-b.r.Intn(3)]
	}
	return allowed[b.r.Intn(len(allowed))]
}

func (b *progBuilder) sameShape(allowed []int, shape []int, not int) []int {
	var out []int
	for _, i := range allowed {
		if i != not && ref.SameShape(b.vals[i].Shape, shape) {
			out = append(out, i)
		}
	}
	return out
}

// step appends one random operation (possibly preceded by helper operations) over the allowed operand set
// and returns the new node indexes.
func (b *progBuilder) step(allowed []int) []int {
	start := len(b.p)
	x := b.pick(allowed)
	v := b.vals[x]
	rank := len(v.Shape)
	switch b.r.Intn(19) {
	case 0:
		b.add(ref.Instr{Op: "scale", In: []int{x}, F: []float64{-1.3, 0.5, 0.9, 1.2, -0.7, 1, 1, -1, 0}[b.r.Intn(9)]})
	case 1:
		b.add(ref.Instr{Op: []string{"sin", "cos", "tanh"}[b.r.Intn(3)], In: []int{x}})
	case 2:
		if maxAbs(v) < 3 {
			b.add(ref.Instr{Op: "exp", In: []int{x}})
		} else {
			b.add(ref.Instr{Op: "tanh", In: []int{x}})
		}
	case 3:
		if maxAbs(v) < 3 {
			b.add(ref.Instr{Op: "pow", In: []int{x}, F: float64(2 + b.r.Intn(2))})
		} else {
			b.add(ref.Instr{Op: "sin", In: []int{x}})
		}
	case 4, 5, 6: // binary same-shape, often reusing the same node or a node derived from it
		var y int
		cands := b.sameShape(allowed, v.Shape, -1)
		if b.r.Intn(4) == 0 {
			y = x // h op h
		} else {
			y = cands[b.r.Intn(len(cands))]
		}
		op := []string{"add", "sub", "mul", "div"}[b.r.Intn(4)]
		if op == "div" && minAbs(b.vals[y]) < 0.2 {
			op = "mul"
		}
		if op == "mul" && maxAbs(v)*maxAbs(b.vals[y]) > 1e3 {
			op = "add"
		}
		b.add(ref.Instr{Op: op, In: []int{x, y}})
	case 7:
		if rank >= 1 {
			b.add(ref.Instr{Op: []string{"sumalong", "meanalong"}[b.r.Intn(2)], In: []int{x}, Dim: b.r.Intn(rank)})
		} else {
			b.add(ref.Instr{Op: "unsqueeze", In: []int{x}, Dim: 0})
		}
	case 8:
		ts := shapesWithProduct(len(v.Data), 4)
		b.add(ref.Instr{Op: "reshape", In: []int{x}, Shape: ts[b.r.Intn(len(ts))]})
	case 9:
		if rank >= 2 {
			b.add(ref.Instr{Op: "transpose", In: []int{x}})
		} else {
			b.add(ref.Instr{Op: "unsqueeze", In: []int{x}, Dim: b.r.Intn(rank + 1)})
		}
	case 10:
		if rank >= 1 {
			b.add(ref.Instr{Op: "flatten", In: []int{x}, Dim: b.r.Intn(rank)})
		} else {
			b.add(ref.Instr{Op: "cos", In: []int{x}})
		}
	case 11:
		if rank >= 1 {
			idx := make([]ref.Range, b.r.Intn(rank+1))
			for q := range idx {
				rs := allRanges(v.Shape[q])
				idx[q] = rs[b.r.Intn(len(rs))]
			}
			b.add(ref.Instr{Op: "slice", In: []int{x}, Index: idx})
		} else {
			b.add(ref.Instr{Op: "sin", In: []int{x}})
		}
	case 12: // concat of same-shape nodes (x itself may appear twice)
		if rank >= 1 {
			cands := b.sameShape(allowed, v.Shape, -1)
			ins := []int{x}
			for q := 0; q < 1+b.r.Intn(2); q++ {
				ins = append(ins, cands[b.r.Intn(len(cands))])
			}
			if len(v.Data)*len(ins) <= 64 {
				b.add(ref.Instr{Op: "concat", In: ins, Dim: b.r.Intn(rank)})
			} else {
				b.add(ref.Instr{Op: "meanalong", In: []int{x}, Dim: 0})
			}
		} else {
			b.add(ref.Instr{Op: "unsqueeze", In: []int{x}, Dim: 0})
		}
	case 13: // matmul with the transpose of a same-shape node: A @ B^T (reconverges when B is A)
		if rank >= 2 && len(v.Data) <= 27 && maxAbs(v) < 30 {
			cands := b.sameShape(allowed, v.Shape, -1)
			y := cands[b.r.Intn(len(cands))]
			if maxAbs(b.vals[y]) < 30 {
				t := b.add(ref.Instr{Op: "transpose", In: []int{y}})
				b.add(ref.Instr{Op: "matmul", In: []int{x, t}})
				break
			}
		}
		b.add(ref.Instr{Op: "tanh", In: []int{x}})
	case 14: // dot of same-shape nodes
		if rank >= 1 && maxAbs(v) < 30 {
			cands := b.sameShape(allowed, v.Shape, -1)
			y := cands[b.r.Intn(len(cands))]
			if maxAbs(b.vals[y]) < 30 {
				b.add(ref.Instr{Op: "dot", In: []int{x, y}})
				break
			}
		}
		b.add(ref.Instr{Op: "cos", In: []int{x}})
	case 18: // explicit Broadcast to the same shape or with new leading 1s (expansion factor 1): an ordinary node that later steps may use twice
		shape := ref.CopyInts(v.Shape)
		for q := b.r.Intn(3); q > 0 && len(shape) < 4; q-- {
			shape = append([]int{1}, shape...)
		}
		b.add(ref.Instr{Op: "broadcast", In: []int{x}, Shape: shape})
	case 15:
		cands := b.sameShape(allowed, v.Shape, x)
		switch q := b.r.Intn(3); {
		case q == 0 && len(cands) > 0: // x completely overwritten by a different same-shape node (x's share is all zeros), nil or explicit full index
			var idx []ref.Range
			if b.r.Intn(2) == 0 {
				for _, d := range v.Shape {
					idx = append(idx, ref.Range{From: 0, To: d})
				}
			}
			b.add(ref.Instr{Op: "patch", In: []int{x, cands[b.r.Intn(len(cands))]}, Index: idx})
		case q == 1 && rank >= 1: // a block cut out of a same-shape node (or of x itself) patched back in at another offset
			src := x
			if len(cands) > 0 && b.r.Intn(2) == 0 {
				src = cands[b.r.Intn(len(cands))]
			}
			cut := make([]ref.Range, rank)
			at := make([]ref.Range, rank)
			for d, n := range v.Shape {
				w := 1 + b.r.Intn(n)
				o1, o2 := b.r.Intn(n-w+1), b.r.Intn(n-w+1)
				cut[d], at[d] = ref.Range{From: o1, To: o1 + w}, ref.Range{From: o2, To: o2 + w}
			}
			blk := b.add(ref.Instr{Op: "slice", In: []int{src}, Index: cut})
			b.add(ref.Instr{Op: "patch", In: []int{x, blk}, Index: at})
		default:
			b.add(ref.Instr{Op: "patch", In: []int{x, x}, Index: nil}) // whole-tensor patch of a node into itself (2 edges to one target)
		}
	case 16: // order statistics and spread along a dimension, only where they are differentiable with a margin
		if rank >= 1 {
			dim := b.r.Intn(rank)
			op := []string{"maxalong", "minalong", "varalong", "stdalong", "avgalong"}[b.r.Intn(5)]
			if fibresSeparated(v, dim, 1e-2) {
				b.add(ref.Instr{Op: op, In: []int{x}, Dim: dim})
				break
			}
		}
		b.add(ref.Instr{Op: "sinh", In: []int{x}, F: 0})
		if maxAbs(b.vals[len(b.p)-1]) > 50 {
			b.add(ref.Instr{Op: "tanh", In: []int{len(b.p) - 1}})
		}
	case 17: // element-wise extrema of two same-shape nodes (no ties), Log of a positive node, Cosh, Squeeze
		cands := b.sameShape(allowed, v.Shape, x)
		switch {
		case len(cands) > 0 && b.r.Intn(2) == 0:
			y := cands[b.r.Intn(len(cands))]
			tie := false
			for i := range v.Data {
				tie = tie || math.Abs(v.Data[i]-b.vals[y].Data[i]) < 1e-2
			}
			if !tie {
				b.add(ref.Instr{Op: []string{"elmax", "elmin"}[b.r.Intn(2)], In: []int{x, y}})
				break
			}
			fallthrough
		default:
			mn := math.Inf(1)
			for _, e := range v.Data {
				mn = math.Min(mn, e)
			}
			switch {
			case mn > 0.05:
				b.add(ref.Instr{Op: "log", In: []int{x}})
			case rank >= 1 && v.Shape[rank-1] == 1:
				b.add(ref.Instr{Op: "squeeze", In: []int{x}, Dim: rank - 1})
			case maxAbs(v) < 4:
				b.add(ref.Instr{Op: "cosh", In: []int{x}})
			default:
				b.add(ref.Instr{Op: "tan", In: []int{b.add(ref.Instr{Op: "tanh", In: []int{x}})}})
			}
		}
	}
	// keep magnitudes bounded
	last := len(b.p) - 1
	if m := maxAbs(b.vals[last]); m > 50 {
		b.add(ref.Instr{Op: "scale", In: []int{last}, F: 1 / m})
	}
	out := make([]int, 0, len(b.p)-start)
	for i := start; i < len(b.p); i++ {
		out = append(out, i)
	}
	return out
}

// genProgram builds one random program.
func genProgram(r *rand.Rand, o progOpts) (ref.Prog, []*ref.T) {
	b := &progBuilder{r: r}
	nl := 1 + r.Intn(o.MaxLeaves)
	anyTracked := false
	var allowed []int
	for i := 0; i < nl; i++ {
		tr := o.AllTracked || r.Intn(3) > 0
		if i == nl-1 && !anyTracked {
			tr = true
		}
		anyTracked = anyTracked || tr
		shape := RandShape(r, 0, o.MaxRank, o.MaxDim)
		if i > 0 && r.Intn(2) == 0 {
			shape = b.vals[r.Intn(i)].Shape // same-shape leaves make binary ops between leaves possible
		}
		allowed = append(allowed, b.leaf(shape, tr))
	}
	n := o.MinInstr + r.Intn(o.MaxInstr-o.MinInstr+1)
	for len(b.p)-nl < n {
		allowed = append(allowed, b.step(allowed)...)
	}
	return b.p, b.vals
}

// progStats: maximum fan-out of an interior node and number of nodes with >= 2 consumers, restricted to ancestors of root.
func progStats(p ref.Prog, root int) (maxFan, reconv, depth int) {
	reach := make([]bool, len(p))
	reach[root] = true
	cons := make([]int, len(p))
	dep := make([]int, len(p))
	for i := root; i >= 0; i-- {
		if !reach[i] {
			continue
		}
		for _, j := range p[i].In {
			reach[j] = true
			cons[j]++
		}
	}
	for i := 0; i <= root; i++ {
		for _, j := range p[i].In {
			if dep[j]+1 > dep[i] {
				dep[i] = dep[j] + 1
			}
		}
		if reach[i] && p[i].Op != "leaf" {
			if cons[i] > maxFan {
				maxFan = cons[i]
			}
			if cons[i] >= 2 {
				reconv++
			}
		}
	}
	return maxFan, reconv, dep[root]
}

// fibresSeparated: every fibre along dim has pairwise distinct values (gap > eps) - so Max/Min have a unique
// arg-extremum - and a standard deviation well away from 0 (or a single element).
func fibresSeparated(v *ref.T, dim int, eps float64) bool {
	n := v.Shape[dim]
	inner := 1
	for _, d := range v.Shape[dim+1:] {
		inner *= d
	}
	outer := len(v.Data) / (n * inner)
	for o := 0; o < outer; o++ {
		for in := 0; in < inner; in++ {
			for a := 0; a < n; a++ {
				for c := a + 1; c < n; c++ {
					if math.Abs(v.Data[(o*n+a)*inner+in]-v.Data[(o*n+c)*inner+in]) < eps {
						return false
					}
				}
			}
		}
	}
	return true
}
