package props

import (
	"fmt"
	"math"
	"regexp"
	"time"

	"github.com/sahandsafizadeh/qeep/component/initializers"
	"github.com/sahandsafizadeh/qeep/component/layers"
	"github.com/sahandsafizadeh/qeep/component/layers/activations"
	"github.com/sahandsafizadeh/qeep/component/losses"
	"github.com/sahandsafizadeh/qeep/component/metrics"
	"github.com/sahandsafizadeh/qeep/component/optimizers"
	"github.com/sahandsafizadeh/qeep/tensor"

	"qeepverif/internal/fw"
	"qeepverif/internal/ref"
	"qeepverif/internal/rt"
)

// C09 — every public call is total: a well-formed result or an error, never a panic.

func init() {
	fw.Register(&fw.Prop{
		ID: "C09",
		Rule: "hostile-argument monitor: every public entry point (7 constructors, Concat, BackPropagate, all Tensor methods; component constructors and Forward/Compute/Accumulate/Result/Update/Init/Weights) is called under recover() with: every integer of [-2,6] for each dim/n/size argument against a pool of 60 receiver shapes of rank 0..5; dims/shape lists of length 0..5 over [-2,6] (exhaustive to length 2, sampled above) and nil; At indexes of length 0..rank+1; Slice/Patch ranges with From,To in [-2,6] (all 81 per dimension for rank <= 2, sampled above), nil and over-long indexes; nil / foreign / every-other-pool-shape tensor operands; rectangular, ragged-at-every-level, empty-at-every-level and nil nested data of depth 1..4; nil / zero / negative / NaN configuration values; initializers returning nil, errors or wrongly shaped tensors. " +
			"Oracle: a panic is a violation; the reference precondition predicate decides whether an error (with a nil result) or a result (nil error, Shape = the defined shape, NElems = its product) is required. Non-trivial: every call is (the space is the argument space); distinct = (entry point, argument class, outcome class). Later addition: BackPropagate called again over graphs that were already back-propagated (root twice, interior then root then leaf, two heads then the first again) for 50+ single-operation graphs (binary operations with the trunk as both operands, as the first, as the second; also after ResetGradContext on a tensor in the middle of the graph, on the leaf or on the result): any outcome but a panic; BackPropagate over graphs from the C01 program generator: nil error and no panic from the root, no panic from a second random node.",
		Assumptions: []string{
			"where the documentation fixes no outcome (foreign Tensor implementations handed to component entry points) only 'no panic' is demanded",
			"a child process logs the case index before executing it, so a fatal runtime error still names its witness",
		},
		FloorQuick: 400, FloorThor: 600,
		Run: runC09,
		Finish: func(c *fw.Ctx, m *fw.Report, cov map[string]any) {
			cov["evaluations"] = m.Counters["calls"] // one evaluation = one call of a public entry point
			cov["case_groups"] = m.Evaluations
		},
	})
}

type expect struct {
	ok    bool
	shape []int
	any   bool // only "no panic" is specified
}

func okShape(s []int) expect { return expect{ok: true, shape: s} }

var reDigits = regexp.MustCompile(`-?[0-9]+(\.[0-9]+)?`)

type c09call struct {
	Entry string `json:"entry"`
	Args  string `json:"args"`
	Want  string `json:"expected"`
}

// chk runs one call and applies the oracle.
func chk(k *fw.K, entry, argClass string, args string, exp expect, f func() (tensor.Tensor, error)) {
	k.Count("calls", 1)
	k.Count("calls_"+entry, 1)
	var t tensor.Tensor
	var err error
	p := call(func() { t, err = f() })
	wantTxt := "error"
	if exp.ok {
		wantTxt = fmt.Sprintf("result of shape %v", exp.shape)
	}
	if exp.any {
		wantTxt = "no panic"
	}
	fail := func(format string, a ...any) {
		k.Case = c09call{Entry: entry, Args: args, Want: wantTxt}
		k.Failf("%s(%s): %s", entry, args, fmt.Sprintf(format, a...))
	}
	if p != nil {
		fail("PANIC: %v (expected %s)", p, wantTxt)
		return
	}
	outcome := "ok"
	if err != nil {
		outcome = "error"
		k.Add("error_messages", "%s", reDigits.ReplaceAllString(err.Error(), "#"))
	}
	k.Key("%s/%s/%s", entry, argClass, outcome)
	if calls, ok := k.Case.([]c09call); (ok || k.Case == nil) && len(calls) < 6 && !k.Failed() {
		k.Case = append(calls, c09call{Entry: entry, Args: args, Want: wantTxt + " -> observed " + outcome})
	}
	if exp.any {
		return
	}
	switch {
	case exp.ok && err != nil:
		fail("unexpected error for valid arguments: %v", err)
	case exp.ok && t == nil:
		fail("nil result without error")
	case !exp.ok && err == nil:
		sh := any("?")
		if t != nil {
			sh = t.Shape()
		}
		fail("accepted although the precondition is violated (returned a tensor of shape %v)", sh)
	case !exp.ok && t != nil:
		fail("returned an error AND a result")
	case exp.ok:
		var got []int
		var n int
		if p := call(func() { got, n = t.Shape(), t.NElems() }); p != nil {
			fail("PANIC in Shape()/NElems() of the result: %v", p)
			return
		}
		if !ref.SameShape(got, exp.shape) {
			fail("result shape %v, expected %v", got, exp.shape)
		} else if n != ref.Prod(exp.shape) {
			fail("NElems() = %d for shape %v", n, got)
		}
	}
}

func wantFrom(shape []int, err error) expect {
	if err != nil {
		return expect{}
	}
	return okShape(shape)
}

// foreign is a Tensor implementation the library does not know (every method
// is implemented explicitly: errors for fallible methods, itself otherwise).
type foreign struct{}

var errForeign = fmt.Errorf("foreign tensor")

func (foreign) NElems() int                                                { return 1 }
func (foreign) Shape() []int                                               { return []int{1} }
func (foreign) At(...int) (float64, error)                                 { return 0, errForeign }
func (foreign) Slice([]tensor.Range) (tensor.Tensor, error)                { return nil, errForeign }
func (foreign) Patch([]tensor.Range, tensor.Tensor) (tensor.Tensor, error) { return nil, errForeign }
func (foreign) Transpose() (tensor.Tensor, error)                          { return nil, errForeign }
func (foreign) Reshape([]int) (tensor.Tensor, error)                       { return nil, errForeign }
func (foreign) UnSqueeze(int) (tensor.Tensor, error)                       { return nil, errForeign }
func (foreign) Squeeze(int) (tensor.Tensor, error)                         { return nil, errForeign }
func (foreign) Flatten(int) (tensor.Tensor, error)                         { return nil, errForeign }
func (foreign) Broadcast([]int) (tensor.Tensor, error)                     { return nil, errForeign }
func (foreign) Sum() float64                                               { return 0 }
func (foreign) Max() float64                                               { return 0 }
func (foreign) Min() float64                                               { return 0 }
func (foreign) Avg() float64                                               { return 0 }
func (foreign) Var() float64                                               { return 0 }
func (foreign) Std() float64                                               { return 0 }
func (foreign) Mean() float64                                              { return 0 }
func (foreign) SumAlong(int) (tensor.Tensor, error)                        { return nil, errForeign }
func (foreign) MaxAlong(int) (tensor.Tensor, error)                        { return nil, errForeign }
func (foreign) MinAlong(int) (tensor.Tensor, error)                        { return nil, errForeign }
func (foreign) AvgAlong(int) (tensor.Tensor, error)                        { return nil, errForeign }
func (foreign) VarAlong(int) (tensor.Tensor, error)                        { return nil, errForeign }
func (foreign) StdAlong(int) (tensor.Tensor, error)                        { return nil, errForeign }
func (foreign) MeanAlong(int) (tensor.Tensor, error)                       { return nil, errForeign }
func (foreign) Scale(float64) tensor.Tensor                                { return foreign{} }
func (foreign) Pow(float64) tensor.Tensor                                  { return foreign{} }
func (foreign) Exp() tensor.Tensor                                         { return foreign{} }
func (foreign) Log() tensor.Tensor                                         { return foreign{} }
func (foreign) Sin() tensor.Tensor                                         { return foreign{} }
func (foreign) Cos() tensor.Tensor                                         { return foreign{} }
func (foreign) Tan() tensor.Tensor                                         { return foreign{} }
func (foreign) Sinh() tensor.Tensor                                        { return foreign{} }
func (foreign) Cosh() tensor.Tensor                                        { return foreign{} }
func (foreign) Tanh() tensor.Tensor                                        { return foreign{} }
func (foreign) Eq(tensor.Tensor) (tensor.Tensor, error)                    { return nil, errForeign }
func (foreign) Ne(tensor.Tensor) (tensor.Tensor, error)                    { return nil, errForeign }
func (foreign) Gt(tensor.Tensor) (tensor.Tensor, error)                    { return nil, errForeign }
func (foreign) Ge(tensor.Tensor) (tensor.Tensor, error)                    { return nil, errForeign }
func (foreign) Lt(tensor.Tensor) (tensor.Tensor, error)                    { return nil, errForeign }
func (foreign) Le(tensor.Tensor) (tensor.Tensor, error)                    { return nil, errForeign }
func (foreign) ElMax(tensor.Tensor) (tensor.Tensor, error)                 { return nil, errForeign }
func (foreign) ElMin(tensor.Tensor) (tensor.Tensor, error)                 { return nil, errForeign }
func (foreign) Add(tensor.Tensor) (tensor.Tensor, error)                   { return nil, errForeign }
func (foreign) Sub(tensor.Tensor) (tensor.Tensor, error)                   { return nil, errForeign }
func (foreign) Mul(tensor.Tensor) (tensor.Tensor, error)                   { return nil, errForeign }
func (foreign) Div(tensor.Tensor) (tensor.Tensor, error)                   { return nil, errForeign }
func (foreign) Dot(tensor.Tensor) (tensor.Tensor, error)                   { return nil, errForeign }
func (foreign) MatMul(tensor.Tensor) (tensor.Tensor, error)                { return nil, errForeign }
func (foreign) Equals(tensor.Tensor) (bool, error)                         { return false, errForeign }
func (foreign) GradContext() any                                           { return nil }
func (foreign) ResetGradContext(bool)                                      {}
func (foreign) Gradient() tensor.Tensor                                    { return nil }

var _ tensor.Tensor = foreign{}

var c09Pool = func() [][]int {
	pool := Shapes(0, 2, 3) // 13
	pool = append(pool, [][]int{
		{4}, {6}, {1, 4}, {4, 1}, {2, 6}, {5, 5}, {6, 6},
		{1, 1, 1}, {2, 1, 3}, {1, 2, 2}, {2, 2, 2}, {3, 2, 1}, {2, 3, 4}, {3, 3, 3}, {1, 3, 1}, {4, 2, 2}, {2, 2, 6},
		{1, 1, 1, 1}, {2, 1, 2, 1}, {1, 2, 1, 3}, {2, 2, 2, 2}, {3, 1, 2, 2}, {2, 3, 1, 2}, {1, 1, 2, 3}, {2, 2, 3, 3}, {3, 2, 2, 1},
		{1, 1, 1, 1, 1}, {2, 1, 1, 2, 1}, {1, 2, 2, 1, 2}, {2, 2, 2, 2, 2}, {1, 3, 1, 2, 2}, {2, 1, 3, 1, 2}, {3, 1, 1, 1, 3}, {1, 1, 2, 2, 3},
		{2, 2, 1, 1, 1}, {1, 2, 3, 2, 1}, {6, 1}, {1, 6}, {3, 4}, {4, 3}, {2, 4, 2}, {1, 5}, {5, 1, 1}, {5}, {2, 5}, {1, 1, 4}, {3, 1, 1, 2},
	}...)
	return pool
}()

var c09Ints = []int{-2, -1, 0, 1, 2, 3, 4, 5, 6}

func runC09(c *fw.Ctx) {
	pool := c09Pool
	if len(pool) != 60 {
		panic(fmt.Sprintf("c09: receiver pool has %d shapes", len(pool)))
	}
	mk := func(k *fw.K, s []int) (tensor.Tensor, *ref.T) {
		x := Shuffled(k.Rng, Unique(k.Rng, s, 0.2, 2))
		if k.Rng.Intn(2) == 0 { // an untracked receiver that is the RESULT of earlier operations; the 16 provenances are cycled through
			sel := k.Index + k.Rng.Intn(16)
			if len(s) >= 3 && k.Rng.Intn(2) == 0 {
				sel = 14 // reducer results of rank 3 and 4 are the ones whose shape slice has spare capacity
			}
			if t, err := rt.LeafProv(x, sel); err == nil && t != nil {
				return t, x
			}
		}
		return rt.MustLeaf(x, true), x
	}

	// ---------- constructors ----------
	c.Case(func(k *fw.K) { c09Constructors(k, c) })
	c.Case(func(k *fw.K) { c09TensorOf(k, c) })

	// ---------- per receiver: methods with integer / list / index arguments ----------
	for _, s := range pool {
		s := s
		c.Case(func(k *fw.K) {
			t, x := mk(k, s)
			sk := fmt.Sprintf("rank%d", len(s))
			for _, d := range c09Ints {
				d := d
				un := func(name string, kind ref.Stat, f func(int) (tensor.Tensor, error)) {
					w, err := x.Along(kind, d)
					_ = w
					var sh []int
					if err == nil {
						sh = w.Shape
					}
					chk(k, name, sk, fmt.Sprintf("recv %v, dim %d", s, d), wantFrom(sh, err), func() (tensor.Tensor, error) { return f(d) })
				}
				un("SumAlong", ref.SSum, t.SumAlong)
				un("MaxAlong", ref.SMax, t.MaxAlong)
				un("MinAlong", ref.SMin, t.MinAlong)
				un("AvgAlong", ref.SAvg, t.AvgAlong)
				un("VarAlong", ref.SVar, t.VarAlong)
				un("StdAlong", ref.SStd, t.StdAlong)
				un("MeanAlong", ref.SMean, t.MeanAlong)
				for _, m := range []struct {
					name string
					op   string
					f    func(int) (tensor.Tensor, error)
				}{{"UnSqueeze", "unsqueeze", t.UnSqueeze}, {"Squeeze", "squeeze", t.Squeeze}, {"Flatten", "flatten", t.Flatten}} {
					m := m
					w, err := ref.Apply(ref.Instr{Op: m.op, Dim: d}, []*ref.T{x})
					var sh []int
					if err == nil {
						sh = w.Shape
					}
					chk(k, m.name, sk, fmt.Sprintf("recv %v, dim %d", s, d), wantFrom(sh, err), func() (tensor.Tensor, error) { return m.f(d) })
				}
			}
			// Transpose
			{
				w, err := x.Transpose()
				var sh []int
				if err == nil {
					sh = w.Shape
				}
				chk(k, "Transpose", sk, fmt.Sprintf("recv %v", s), wantFrom(sh, err), t.Transpose)
			}
			// unary operators and scalar reducers: total, shape-preserving
			for name, f := range map[string]func() tensor.Tensor{
				"Scale": func() tensor.Tensor { return t.Scale(-2) }, "Pow": func() tensor.Tensor { return t.Pow(-0.5) }, "Exp": t.Exp, "Log": t.Log,
				"Sin": t.Sin, "Cos": t.Cos, "Tan": t.Tan, "Sinh": t.Sinh, "Cosh": t.Cosh, "Tanh": t.Tanh,
			} {
				f := f
				chk(k, name, sk, fmt.Sprintf("recv %v", s), okShape(s), func() (tensor.Tensor, error) { return f(), nil })
			}
			if p := call(func() {
				_, _, _, _, _, _, _ = t.Sum(), t.Max(), t.Min(), t.Avg(), t.Var(), t.Std(), t.Mean()
				_ = t.GradContext()
				_ = t.Gradient()
				_ = t.NElems()
			}); p != nil {
				k.Case = c09call{Entry: "Sum/Max/Min/Avg/Var/Std/Mean/GradContext/Gradient/NElems", Args: fmt.Sprint(s), Want: "no panic"}
				k.Failf("scalar reducers / accessors on shape %v: PANIC: %v", s, p)
			}
			k.Count("calls", 10)
			k.Key("scalar-reducers/%s/ok", sk)
			// Reshape / Broadcast with lists over [-2,6]
			lists := [][]int{nil, {}}
			for _, a := range c09Ints {
				lists = append(lists, []int{a})
				for _, b := range c09Ints {
					lists = append(lists, []int{a, b})
				}
			}
			for q := 0; q < c.Pick(60, 1200); q++ {
				l := make([]int, 3+k.Rng.Intn(3))
				for i := range l {
					l[i] = c09Ints[k.Rng.Intn(len(c09Ints))]
					if k.Rng.Intn(3) > 0 { // make valid targets likely
						l[i] = 1 + k.Rng.Intn(3)
					}
				}
				lists = append(lists, l)
			}
			lists = append(lists, s, append([]int{2}, s...), append([]int{1, 3}, s...))
			for _, l := range lists {
				l := l
				cls := fmt.Sprintf("%s/len%d", sk, len(l))
				w, err := x.Reshape(l)
				var sh []int
				if err == nil {
					sh = w.Shape
				}
				chk(k, "Reshape", cls, fmt.Sprintf("recv %v, shape %v", s, l), wantFrom(sh, err), func() (tensor.Tensor, error) { return t.Reshape(l) })
				w, err = x.Broadcast(l)
				sh = nil
				if err == nil {
					sh = w.Shape
				}
				chk(k, "Broadcast", cls, fmt.Sprintf("recv %v, shape %v", s, l), wantFrom(sh, err), func() (tensor.Tensor, error) { return t.Broadcast(l) })
			}
			// At with index lengths 0..rank+1 over [-2,6]
			var idxs [][]int
			for n := 0; n <= len(s)+1; n++ {
				if n <= 2 {
					var rec func(cur []int)
					rec = func(cur []int) {
						if len(cur) == n {
							idxs = append(idxs, append([]int(nil), cur...))
							return
						}
						for _, a := range c09Ints {
							rec(append(cur, a))
						}
					}
					rec(nil)
				} else {
					for q := 0; q < 40; q++ {
						l := make([]int, n)
						for i := range l {
							l[i] = c09Ints[k.Rng.Intn(len(c09Ints))]
							if k.Rng.Intn(3) > 0 && i < len(s) {
								l[i] = k.Rng.Intn(s[i])
							}
						}
						idxs = append(idxs, l)
					}
				}
			}
			for _, idx := range idxs {
				idx := idx
				_, err := x.At(idx)
				var v float64
				var gerr error
				k.Count("calls", 1)
				k.Count("calls_At", 1)
				if p := call(func() { v, gerr = t.At(idx...) }); p != nil {
					k.Case = c09call{Entry: "At", Args: fmt.Sprintf("recv %v, index %v", s, idx), Want: "no panic"}
					k.Failf("At(%v) on shape %v: PANIC: %v", idx, s, p)
				} else if (err == nil) != (gerr == nil) {
					k.Case = c09call{Entry: "At", Args: fmt.Sprintf("recv %v, index %v", s, idx)}
					k.Failf("At(%v) on shape %v: error = %v, the precondition says valid = %v", idx, s, gerr, err == nil)
				} else if gerr == nil {
					if want, _ := x.At(idx); v != want {
						k.Failf("At(%v) on shape %v = %v, expected %v", idx, s, v, want)
					}
					k.Key("At/%s/len%d/ok", sk, len(idx))
				} else {
					k.Key("At/%s/len%d/error", sk, len(idx))
					k.Add("error_messages", "%s", reDigits.ReplaceAllString(gerr.Error(), "#"))
				}
			}
			c09SlicePatch(k, c, t, x)
		})
	}

	// ---------- binary operations over all ordered pairs of pool shapes + nil + foreign ----------
	for i, sa := range pool {
		i, sa := i, sa
		c.Case(func(k *fw.K) {
			a, xa := mk(k, sa)
			ops := []struct {
				name, op string
				f        func(tensor.Tensor) (tensor.Tensor, error)
			}{
				{"Eq", "eq", a.Eq}, {"Ne", "ne", a.Ne}, {"Gt", "gt", a.Gt}, {"Ge", "ge", a.Ge}, {"Lt", "lt", a.Lt}, {"Le", "le", a.Le},
				{"ElMax", "elmax", a.ElMax}, {"ElMin", "elmin", a.ElMin}, {"Add", "add", a.Add}, {"Sub", "sub", a.Sub}, {"Mul", "mul", a.Mul}, {"Div", "div", a.Div},
				{"Dot", "dot", a.Dot}, {"MatMul", "matmul", a.MatMul},
			}
			for j, sb := range pool {
				if c.Quick() && (i+j)%3 != 0 && !ref.SameShape(sa, sb) {
					continue // quick: a third of the ordered pairs (+ all equal-shape pairs)
				}
				b, xb := mk(k, sb)
				cls := fmt.Sprintf("rank%d-rank%d", len(sa), len(sb))
				for _, o := range ops {
					o := o
					w, err := ref.Apply(ref.Instr{Op: o.op}, []*ref.T{xa, xb})
					var sh []int
					if err == nil {
						sh = w.Shape
					}
					chk(k, o.name, cls, fmt.Sprintf("recv %v, operand %v", sa, sb), wantFrom(sh, err), func() (tensor.Tensor, error) { return o.f(b) })
				}
				// Equals
				_, werr := ref.Equals(xa, xb)
				var gerr error
				k.Count("calls", 1)
				if p := call(func() { _, gerr = a.Equals(b) }); p != nil {
					k.Failf("Equals %v vs %v: PANIC: %v", sa, sb, p)
				} else if (werr == nil) != (gerr == nil) {
					k.Failf("Equals %v vs %v: error = %v, expected valid = %v", sa, sb, gerr, werr == nil)
				}
				// Patch with a pool-shaped source and no index
				_, perr := ref.PatchRegion(nil, sb, sa)
				chk(k, "Patch", cls+"/noindex", fmt.Sprintf("recv %v, source %v, index nil", sa, sb), wantFrom(sa, perr), func() (tensor.Tensor, error) { return a.Patch(nil, b) })
				// Concat of the pair along every dim of [-2,6]
				for _, d := range c09Ints {
					d := d
					sh, cerr := ref.ConcatShape([][]int{sa, sb}, d)
					chk(k, "Concat", cls, fmt.Sprintf("[%v %v], dim %d", sa, sb, d), wantFrom(sh, cerr), func() (tensor.Tensor, error) { return tensor.Concat([]tensor.Tensor{a, b}, d) })
				}
			}
			for _, o := range ops {
				o := o
				chk(k, o.name, "nil-operand", fmt.Sprintf("recv %v, operand nil", sa), expect{}, func() (tensor.Tensor, error) { return o.f(nil) })
				chk(k, o.name, "foreign-operand", fmt.Sprintf("recv %v, operand foreign", sa), expect{}, func() (tensor.Tensor, error) { return o.f(foreign{}) })
			}
			for _, other := range []tensor.Tensor{nil, foreign{}} {
				other := other
				var gerr error
				if p := call(func() { _, gerr = a.Equals(other) }); p != nil || gerr == nil {
					k.Failf("Equals(%T) on %v: panic=%v err=%v (an error is required)", other, sa, p, gerr)
				}
				chk(k, "Patch", "bad-source", fmt.Sprintf("recv %v, source %T", sa, other), expect{}, func() (tensor.Tensor, error) { return a.Patch(nil, other) })
				chk(k, "Concat", "bad-member", fmt.Sprintf("[%v %T]", sa, other), expect{}, func() (tensor.Tensor, error) { return tensor.Concat([]tensor.Tensor{a, other}, 0) })
				chk(k, "Concat", "bad-member", fmt.Sprintf("[%T %v]", other, sa), expect{}, func() (tensor.Tensor, error) { return tensor.Concat([]tensor.Tensor{other, a}, 0) })
				var berr error
				if p := call(func() { berr = tensor.BackPropagate(other) }); p != nil || berr == nil {
					k.Failf("BackPropagate(%T): panic=%v err=%v (an error is required)", other, p, berr)
				}
				k.Count("calls", 2)
			}
			chk(k, "Concat", "short-list", "nil list", expect{}, func() (tensor.Tensor, error) { return tensor.Concat(nil, 0) })
			chk(k, "Concat", "short-list", "one tensor", expect{}, func() (tensor.Tensor, error) { return tensor.Concat([]tensor.Tensor{a}, 0) })
			if len(sa) >= 1 { // 3 and 4 operands
				sh, cerr := ref.ConcatShape([][]int{sa, sa, sa}, 0)
				chk(k, "Concat", "three", fmt.Sprintf("3 x %v", sa), wantFrom(sh, cerr), func() (tensor.Tensor, error) { return tensor.Concat([]tensor.Tensor{a, a, a}, 0) })
			}
			var berr error
			if p := call(func() { berr = tensor.BackPropagate(a) }); p != nil || berr != nil {
				k.Failf("BackPropagate(valid tensor of shape %v): panic=%v err=%v", sa, p, berr)
			}
			if p := call(func() { a.ResetGradContext(true); a.ResetGradContext(false) }); p != nil {
				k.Failf("ResetGradContext: PANIC: %v", p)
			}
		})
	}

	// ---------- ONE index object (full length, with {0,0} "whole dimension" entries) used for calls on tensors of different sizes ----------
	c.Case(func(k *fw.K) {
		for _, sh := range [][2][]int{{{4, 3}, {2, 3}}, {{2, 3}, {4, 3}}, {{1, 3}, {3, 3}}, {{2, 2, 3}, {3, 2, 3}}, {{5}, {2}}} {
			for _, first := range [][]ref.Range{nil} {
				_ = first
				rank := len(sh[0])
				idx := make([]tensor.Range, rank) // {0,0} everywhere ...
				ridx := make([]ref.Range, rank)
				idx[rank-1], ridx[rank-1] = tensor.Range{From: 0, To: 1}, ref.Range{From: 0, To: 1} // ... except a window in the last dimension
				for n, s := range sh {
					x := Shuffled(k.Rng, Unique(k.Rng, s, 0.2, 2))
					want, werr := ref.Apply(ref.Instr{Op: "slice", Index: ridx}, []*ref.T{x})
					var wshape []int
					if werr == nil {
						wshape = want.Shape
					}
					t := rt.MustLeaf(x, n == 0)
					chk(k, "Slice", "index-object-reused", fmt.Sprintf("recv %v, the same []Range object as in the previous call: %v", s, ridx), wantFrom(wshape, werr), func() (tensor.Tensor, error) { return t.Slice(idx) })
					src := ref.Full(wshape, 7)
					chk(k, "Patch", "index-object-reused", fmt.Sprintf("recv %v, source %v, the same []Range object: %v", s, wshape, ridx), okShape(s), func() (tensor.Tensor, error) { return t.Patch(idx, rt.MustLeaf(src, false)) })
				}
			}
		}
	})

	// ---------- BackPropagate called again over a graph that was already back-propagated: any outcome but a panic ----------
	for _, s := range [][]int{{}, {3}, {2, 3}, {2, 1, 2}, {3, 3}} {
		s := s
		c.Case(func(k *fw.K) { c09RepeatedBackprop(k, s) })
	}

	// ---------- BackPropagate over generated VALID graphs (the C01 program generator): nil error, no panic, from the root and then from a random node ----------
	for i := 0; i < c.Pick(1500, 90000); i++ {
		c.Case(func(k *fw.K) {
			p, _ := genProgram(k.Rng, progOpts{MinInstr: 2, MaxInstr: 12, MaxLeaves: 3, MaxRank: 3, MaxDim: 3})
			root := len(p) - 1
			second := k.Rng.Intn(len(p))
			k.Case = map[string]any{"entry": "BackPropagate over a generated graph", "program": p, "then_from": second}
			k.Key("BackPropagate-graph/%s/%d", p[root].Op, len(p))
			k.Count("calls", 2)
			var err error
			stage := "building the graph"
			if pn := call(func() {
				var ts []tensor.Tensor
				ts, err = rt.Run(p)
				if err != nil {
					return
				}
				stage = "BackPropagate(root)"
				if err = tensor.BackPropagate(ts[root]); err != nil {
					return
				}
				stage = "a second BackPropagate from another node (any outcome but a panic)"
				_ = tensor.BackPropagate(ts[second])
			}); pn != nil {
				k.Failf("%s: PANIC: %v", stage, pn)
			} else if err != nil {
				k.Failf("%s failed on a valid graph: %v", stage, err)
			}
		})
	}

	// ---------- components ----------
	c.Case(func(k *fw.K) { c09Initializers(k) })
	// "never ... hanging": BackPropagate over DEEP graphs whose every block reads its input twice (residual blocks, gates) - the
	// number of paths doubles per block while the graph grows by two nodes; the work is bounded in CPU time (see fw.CPUGuard)
	for _, blocks := range []int{24, 40, 48, 64, 96} {
		blocks := blocks
		c.Case(func(k *fw.K) { c09DeepDiamonds(k, blocks) })
	}
	// totality does not depend on the VALUES either: every operation on operands holding NaN, infinities and signed zeros returns
	for i := 0; i < 40; i++ {
		c.Case(func(k *fw.K) { c09SpecialValues(k) })
	}
	c.Case(func(k *fw.K) { c09Layers(k, pool) })
	c.Case(func(k *fw.K) { c09LossesMetricsOptim(k, pool) })
	// every matrix-product geometry with extents 1..9 (kernels specialised by size have geometries of their own), forward and backward
	for m := 1; m <= 9; m++ {
		m := m
		c.Case(func(k *fw.K) { c09MatMulSweep(k, m) })
	}
}

// c09MatMulSweep: [m,n] x [n,q] for every n, q in 1..9 (with and without a batch dimension on either side), the Dot of two
// [m,n] operands, and a back-propagation through each with both operands tracked: valid calls, so each returns its result.
func c09MatMulSweep(k *fw.K, m int) {
	for n := 1; n <= 9; n++ {
		for q := 1; q <= 9; q++ {
			batch := [][2][]int{{{}, {}}, {{2}, {}}, {{}, {2}}, {{1}, {3}}}[(m+n+q)%4]
			sa, sb := append(ref.CopyInts(batch[0]), m, n), append(ref.CopyInts(batch[1]), n, q)
			a, b := rt.MustLeaf(RandT(k.Rng, sa, -2, 2), true), rt.MustLeaf(RandT(k.Rng, sb, -2, 2), true)
			bs, _ := ref.BroadcastShape(batch[0], batch[1])
			var y tensor.Tensor
			chk(k, "MatMul", "geometry-sweep", fmt.Sprintf("%v x %v", sa, sb), okShape(append(ref.CopyInts(bs), m, q)), func() (tensor.Tensor, error) {
				var err error
				y, err = a.MatMul(b)
				return y, err
			})
			if k.Failed() {
				return
			}
			var err error
			if p := call(func() { err = tensor.BackPropagate(y) }); p != nil || err != nil {
				k.Case = c09call{Entry: "BackPropagate", Args: fmt.Sprintf("MatMul %v x %v, both operands tracked", sa, sb), Want: "nil error"}
				k.Failf("BackPropagate over MatMul %v x %v (both operands tracked): panic=%v err=%v", sa, sb, p, err)
				return
			}
			k.Count("calls", 1)
			k.Count("calls_BackPropagate", 1)
			if a.Gradient() == nil || b.Gradient() == nil {
				k.Failf("BackPropagate over MatMul %v x %v returned nil but left an operand without gradient", sa, sb)
				return
			}
		}
		sa := []int{m, n}
		a, b := rt.MustLeaf(RandT(k.Rng, sa, -2, 2), true), rt.MustLeaf(RandT(k.Rng, sa, -2, 2), true)
		var y tensor.Tensor
		chk(k, "Dot", "geometry-sweep", fmt.Sprintf("%v . %v", sa, sa), okShape([]int{m}), func() (tensor.Tensor, error) {
			var err error
			y, err = a.Dot(b)
			return y, err
		})
		if k.Failed() {
			return
		}
		var err error
		if p := call(func() { err = tensor.BackPropagate(y) }); p != nil || err != nil {
			k.Failf("BackPropagate over Dot %v . %v (both operands tracked): panic=%v err=%v", sa, sa, p, err)
			return
		}
	}
}

func c09Constructors(k *fw.K, c *fw.Ctx) {
	lists := [][]int{nil, {}}
	for _, a := range c09Ints {
		lists = append(lists, []int{a})
		for _, b := range c09Ints {
			lists = append(lists, []int{a, b})
		}
	}
	for q := 0; q < c.Pick(400, 9000); q++ {
		l := make([]int, 3+k.Rng.Intn(3))
		for i := range l {
			l[i] = c09Ints[k.Rng.Intn(len(c09Ints))]
			if k.Rng.Intn(4) > 0 {
				l[i] = 1 + k.Rng.Intn(3)
			}
		}
		lists = append(lists, l)
	}
	confs := map[string]*tensor.Config{"nil": nil, "cpu": {Device: tensor.CPU}, "cpu-tracked": {Device: tensor.CPU, GradTrack: true}, "device0": {}, "device2": {Device: 2}, "device-1": {Device: -1}}
	for _, l := range lists {
		l := l
		for cn, conf := range confs {
			cn, conf := cn, conf
			e := wantFrom(l, ref.ValidDims(l))
			if len(cn) > 3 && cn[:6] == "device" {
				e = expect{}
			}
			if e.ok && l == nil {
				e.shape = []int{}
			}
			cls := fmt.Sprintf("len%d/%s", len(l), cn)
			args := fmt.Sprintf("dims %v, conf %s", l, cn)
			chk(k, "Full", cls, args, e, func() (tensor.Tensor, error) { return tensor.Full(l, 1.5, conf) })
			chk(k, "Zeros", cls, args, e, func() (tensor.Tensor, error) { return tensor.Zeros(l, conf) })
			chk(k, "Ones", cls, args, e, func() (tensor.Tensor, error) { return tensor.Ones(l, conf) })
			for _, pr := range [][2]float64{{0, 1}, {1, 0}, {1, 1}, {-2, -1}, {math.NaN(), 1}, {0, math.NaN()}} {
				pr := pr
				eu := e
				if !(pr[0] < pr[1]) {
					eu = expect{}
				}
				chk(k, "RandU", cls, fmt.Sprintf("%s, l=%v u=%v", args, pr[0], pr[1]), eu, func() (tensor.Tensor, error) { return tensor.RandU(l, pr[0], pr[1], conf) })
				en := e
				if !(pr[1] > 0) {
					en = expect{}
				}
				chk(k, "RandN", cls, fmt.Sprintf("%s, mu=%v sigma=%v", args, pr[0], pr[1]), en, func() (tensor.Tensor, error) { return tensor.RandN(l, pr[0], pr[1], conf) })
			}
		}
	}
	for _, n := range append([]int{-100, 7, 8}, c09Ints...) {
		n := n
		for cn, conf := range confs {
			conf := conf
			e := expect{}
			if n > 0 && !(len(cn) > 3 && cn[:6] == "device") {
				e = okShape([]int{n, n})
			}
			chk(k, "Eye", cn, fmt.Sprintf("n %d, conf %s", n, cn), e, func() (tensor.Tensor, error) { return tensor.Eye(n, conf) })
		}
	}
}

// nested data of depth 1..4: rectangular, ragged / empty / nil at every level.
func c09TensorOf(k *fw.K, c *fw.Ctx) {
	row := func(n int) []float64 {
		r := make([]float64, n)
		for i := range r {
			r[i] = float64(i + 1)
		}
		return r
	}
	chk(k, "TensorOf", "depth0", "scalar", okShape([]int{}), func() (tensor.Tensor, error) { return tensor.TensorOf(3.5, nil) })
	// every device value of [-2, 6] with valid data of every depth: only CPU is a device, everything else is an error (not a panic)
	for _, dev := range c09Ints {
		dev := dev
		conf := &tensor.Config{Device: tensor.Device(dev), GradTrack: dev%2 == 0}
		e := func(shape []int) expect {
			if tensor.Device(dev) == tensor.CPU {
				return okShape(shape)
			}
			return expect{}
		}
		cls := fmt.Sprintf("device%d", dev)
		chk(k, "TensorOf", cls, "scalar", e([]int{}), func() (tensor.Tensor, error) { return tensor.TensorOf(2.5, conf) })
		chk(k, "TensorOf", cls, "depth 1", e([]int{3}), func() (tensor.Tensor, error) { return tensor.TensorOf(row(3), conf) })
		chk(k, "TensorOf", cls, "depth 2", e([]int{2, 3}), func() (tensor.Tensor, error) { return tensor.TensorOf([][]float64{row(3), row(3)}, conf) })
		chk(k, "TensorOf", cls, "depth 3", e([]int{1, 2, 2}), func() (tensor.Tensor, error) { return tensor.TensorOf([][][]float64{{row(2), row(2)}}, conf) })
		chk(k, "TensorOf", cls, "depth 4", e([]int{1, 1, 2, 1}), func() (tensor.Tensor, error) {
			return tensor.TensorOf([][][][]float64{{{row(1), row(1)}}}, conf)
		})
		chk(k, "Full", cls, "dims [2 2]", e([]int{2, 2}), func() (tensor.Tensor, error) { return tensor.Full([]int{2, 2}, 1, conf) })
		chk(k, "Eye", cls, "n 2", e([]int{2, 2}), func() (tensor.Tensor, error) { return tensor.Eye(2, conf) })
		chk(k, "RandU", cls, "dims [2]", e([]int{2}), func() (tensor.Tensor, error) { return tensor.RandU([]int{2}, 0, 1, conf) })
		chk(k, "RandN", cls, "dims [2]", e([]int{2}), func() (tensor.Tensor, error) { return tensor.RandN([]int{2}, 0, 1, conf) })
	}
	// depth 1
	for _, d := range []struct {
		v []float64
		e expect
	}{{row(3), okShape([]int{3})}, {row(1), okShape([]int{1})}, {[]float64{}, expect{}}, {nil, expect{}}} {
		d := d
		chk(k, "TensorOf", "depth1", fmt.Sprintf("%v", d.v), d.e, func() (tensor.Tensor, error) { return tensor.TensorOf(d.v, nil) })
	}
	// ragged data whose blocks are each rectangular, equally long and equally populated but FACTOR differently (2x3 next to 3x2, 1x4
	// next to 2x2, rows 3,1 next to 2,2): not a tensor at any depth
	blk := func(rows ...int) [][]float64 {
		o := make([][]float64, len(rows))
		for i, n := range rows {
			o[i] = row(n)
		}
		return o
	}
	for i, d := range [][][][]float64{
		{blk(3, 3), blk(2, 2, 2)}, {blk(2, 2, 2), blk(3, 3)}, {blk(4), blk(2, 2)}, {blk(2, 2), blk(1, 1, 1, 1)}, {blk(3, 1), blk(2, 2)}, {blk(2, 2), blk(2, 2), blk(1, 3)},
	} {
		d := d
		chk(k, "TensorOf", "depth3", fmt.Sprintf("blocks with equal element counts that factor differently #%d", i), expect{}, func() (tensor.Tensor, error) { return tensor.TensorOf(d, nil) })
		last := d[len(d)-1]
		d4a, d4b := [][][][]float64{d, d}, [][][][]float64{{d[0], d[0]}, {last, last}}
		chk(k, "TensorOf", "depth4", fmt.Sprintf("ragged depth-3 blocks repeated #%d", i), expect{}, func() (tensor.Tensor, error) { return tensor.TensorOf(d4a, nil) })
		chk(k, "TensorOf", "depth4", fmt.Sprintf("top-level elements that are each rectangular, equally long and equally populated but factor differently #%d", i), expect{}, func() (tensor.Tensor, error) { return tensor.TensorOf(d4b, nil) })
	}
	// depth 2..4: describe data by a tree of lengths; mutate one node of a rectangular tree
	type tree struct {
		kids []*tree
		n    int // leaf row length (depth-1 level)
		nilS bool
	}
	var build func(shape []int) *tree
	build = func(shape []int) *tree {
		if len(shape) == 1 {
			return &tree{n: shape[0]}
		}
		t := &tree{}
		for i := 0; i < shape[0]; i++ {
			t.kids = append(t.kids, build(shape[1:]))
		}
		return t
	}
	var to2 func(t *tree) [][]float64
	to2 = func(t *tree) [][]float64 {
		if t.nilS {
			return nil
		}
		o := make([][]float64, len(t.kids))
		for i, c := range t.kids {
			if c.nilS {
				o[i] = nil
			} else {
				o[i] = row(c.n)
			}
		}
		return o
	}
	to3 := func(t *tree) [][][]float64 {
		if t.nilS {
			return nil
		}
		o := make([][][]float64, len(t.kids))
		for i, c := range t.kids {
			o[i] = to2(c)
		}
		return o
	}
	to4 := func(t *tree) [][][][]float64 {
		if t.nilS {
			return nil
		}
		o := make([][][][]float64, len(t.kids))
		for i, c := range t.kids {
			o[i] = to3(c)
		}
		return o
	}
	// all nodes of a tree with their depth
	var nodes func(t *tree, depth int, acc *[][2]any)
	nodes = func(t *tree, depth int, acc *[][2]any) {
		*acc = append(*acc, [2]any{t, depth})
		for _, c := range t.kids {
			nodes(c, depth+1, acc)
		}
	}
	run := func(depth int, t *tree, _ expect, what string) {
		cls := fmt.Sprintf("depth%d/%s", depth, what)
		var e expect
		switch depth {
		case 2:
			v := to2(t)
			e = wantFrom(rectShape(v))
			chk(k, "TensorOf", cls, fmt.Sprintf("%v", v), e, func() (tensor.Tensor, error) { return tensor.TensorOf(v, nil) })
		case 3:
			v := to3(t)
			e = wantFrom(rectShape(v))
			chk(k, "TensorOf", cls, fmt.Sprintf("%v", v), e, func() (tensor.Tensor, error) { return tensor.TensorOf(v, nil) })
		case 4:
			v := to4(t)
			e = wantFrom(rectShape(v))
			chk(k, "TensorOf", cls, fmt.Sprintf("%v", v), e, func() (tensor.Tensor, error) { return tensor.TensorOf(v, nil) })
		}
	}
	for depth := 2; depth <= 4; depth++ {
		for _, shape := range Shapes(depth, depth, 3) {
			run(depth, build(shape), okShape(shape), "rectangular")
			var acc [][2]any
			base := build(shape)
			nodes(base, 0, &acc)
			for ni := range acc {
				for mut := 0; mut < 4; mut++ {
					// rebuild, then mutate node ni
					t := build(shape)
					var acc2 [][2]any
					nodes(t, 0, &acc2)
					n := acc2[ni][0].(*tree)
					lvl := acc2[ni][1].(int)
					what := ""
					switch mut {
					case 0: // longer
						if n.kids != nil {
							n.kids = append(n.kids, build(shape[lvl+1:]))
						} else {
							n.n++
						}
						what = fmt.Sprintf("longer@level%d", lvl)
					case 1: // shorter (possibly empty)
						if n.kids != nil {
							n.kids = n.kids[:len(n.kids)-1]
						} else {
							n.n--
						}
						what = fmt.Sprintf("shorter@level%d", lvl)
					case 2: // empty
						n.kids, n.n = []*tree{}, 0
						if lvl == depth-1 {
							n.kids = nil
						}
						what = fmt.Sprintf("empty@level%d", lvl)
					case 3: // nil
						n.nilS = true
						what = fmt.Sprintf("nil@level%d", lvl)
					}
					e := expect{} // recomputed from the data itself inside run
					run(depth, t, e, what)
				}
			}
		}
	}
}

// rectShape is the reference precondition of TensorOf: the data must be
// rectangular and non-empty at every nesting level; it returns the shape.
func rectShape(v any) ([]int, error) {
	var walk func(v any) ([]int, error)
	walk = func(v any) ([]int, error) {
		var kids []any
		switch d := v.(type) {
		case []float64:
			if len(d) == 0 {
				return nil, fmt.Errorf("empty")
			}
			return []int{len(d)}, nil
		case [][]float64:
			for _, x := range d {
				kids = append(kids, x)
			}
		case [][][]float64:
			for _, x := range d {
				kids = append(kids, x)
			}
		case [][][][]float64:
			for _, x := range d {
				kids = append(kids, x)
			}
		}
		if len(kids) == 0 {
			return nil, fmt.Errorf("empty")
		}
		first, err := walk(kids[0])
		if err != nil {
			return nil, err
		}
		for _, c := range kids[1:] {
			s, err := walk(c)
			if err != nil {
				return nil, err
			}
			if !ref.SameShape(s, first) {
				return nil, fmt.Errorf("ragged")
			}
		}
		return append([]int{len(kids)}, first...), nil
	}
	return walk(v)
}

func c09SlicePatch(k *fw.K, c *fw.Ctx, t tensor.Tensor, x *ref.T) {
	s := x.Shape
	sk := fmt.Sprintf("rank%d", len(s))
	var all []ref.Range
	for _, f := range c09Ints {
		for _, to := range c09Ints {
			all = append(all, ref.Range{From: f, To: to})
		}
	}
	var lists [][]ref.Range
	lists = append(lists, nil, []ref.Range{})
	for n := 1; n <= len(s)+1; n++ {
		if n == 1 || (n == 2 && len(s) <= 2) {
			lists = append(lists, indexLists2(n, all)...)
		} else {
			for q := 0; q < c.Pick(150, 4500); q++ {
				l := make([]ref.Range, n)
				for i := range l {
					l[i] = all[k.Rng.Intn(len(all))]
					if k.Rng.Intn(3) > 0 && i < len(s) { // make valid ranges likely
						f := k.Rng.Intn(s[i])
						l[i] = ref.Range{From: f, To: f + 1 + k.Rng.Intn(s[i]-f)}
					}
				}
				lists = append(lists, l)
			}
		}
	}
	for _, idx := range lists {
		idx := idx
		w, err := x.Slice(idx)
		var sh []int
		if err == nil {
			sh = w.Shape
		}
		cls := fmt.Sprintf("%s/len%d", sk, len(idx))
		chk(k, "Slice", cls, fmt.Sprintf("recv %v, index %v", s, idx), wantFrom(sh, err), func() (tensor.Tensor, error) { return t.Slice(rt.Ranges(idx)) })
		// Patch with the same index and a source shaped like the slice (valid), one size off, or rank off
		if err == nil {
			src := rt.MustLeaf(ref.Full(sh, 7), false)
			_, perr := ref.PatchRegion(idx, sh, s)
			chk(k, "Patch", cls+"/fitting", fmt.Sprintf("recv %v, index %v, source %v", s, idx, sh), wantFrom(s, perr), func() (tensor.Tensor, error) { return t.Patch(rt.Ranges(idx), src) })
			if len(sh) > 0 {
				off := ref.CopyInts(sh)
				d := k.Rng.Intn(len(off))
				off[d]++
				src2 := rt.MustLeaf(ref.Full(off, 7), false)
				_, perr2 := ref.PatchRegion(idx, off, s)
				chk(k, "Patch", cls+"/oversized", fmt.Sprintf("recv %v, index %v, source %v", s, idx, off), wantFrom(s, perr2), func() (tensor.Tensor, error) { return t.Patch(rt.Ranges(idx), src2) })
				src3 := rt.MustLeaf(ref.Full(sh[1:], 7), false)
				_, perr3 := ref.PatchRegion(idx, sh[1:], s)
				chk(k, "Patch", cls+"/rank-off", fmt.Sprintf("recv %v, index %v, source %v", s, idx, sh[1:]), wantFrom(s, perr3), func() (tensor.Tensor, error) { return t.Patch(rt.Ranges(idx), src3) })
			}
		} else {
			src := rt.MustLeaf(ref.Full(s, 7), false)
			_, perr := ref.PatchRegion(idx, s, s)
			chk(k, "Patch", cls+"/bad-index", fmt.Sprintf("recv %v, index %v, source %v", s, idx, s), wantFrom(s, perr), func() (tensor.Tensor, error) { return t.Patch(rt.Ranges(idx), src) })
		}
	}
}

func indexLists2(n int, all []ref.Range) [][]ref.Range {
	if n == 1 {
		out := make([][]ref.Range, len(all))
		for i, r := range all {
			out[i] = []ref.Range{r}
		}
		return out
	}
	var out [][]ref.Range
	for _, a := range all {
		for _, b := range all {
			out = append(out, []ref.Range{a, b})
		}
	}
	return out
}

// ---------- components ----------

type badInit struct{ mode int }

func (b badInit) Init(shape []int) (tensor.Tensor, error) {
	switch b.mode {
	case 0:
		return nil, nil
	case 1:
		return nil, fmt.Errorf("initializer failed")
	case 2:
		return tensor.Zeros([]int{shape[0] + 1}, nil)
	case 3:
		return tensor.Zeros([]int{shape[0], 1}, nil)
	}
	return tensor.Zeros(nil, nil)
}

func c09Initializers(k *fw.K) {
	type ini interface {
		Init([]int) (tensor.Tensor, error)
	}
	try := func(name, cls string, valid bool, mk func() (ini, error)) ini {
		var in ini
		var err error
		k.Count("calls", 1)
		if p := call(func() { in, err = mk() }); p != nil {
			k.Case = c09call{Entry: name, Args: cls}
			k.Failf("%s(%s): PANIC: %v", name, cls, p)
			return nil
		}
		k.Key("%s/%s/%v", name, cls, err == nil)
		if valid != (err == nil) {
			k.Case = c09call{Entry: name, Args: cls}
			k.Failf("%s(%s): error = %v, expected valid = %v", name, cls, err, valid)
			return nil
		}
		if err != nil {
			k.Add("error_messages", "%s", reDigits.ReplaceAllString(err.Error(), "#"))
			return nil
		}
		return in
	}
	var good []struct {
		name string
		in   ini
	}
	add := func(name string, in ini) {
		if in != nil {
			good = append(good, struct {
				name string
				in   ini
			}{name, in})
		}
	}
	nan := math.NaN()
	add("Full", try("NewFull", "nil", true, func() (ini, error) { return initializers.NewFull(nil), nil }))
	add("Full", try("NewFull", "value", true, func() (ini, error) { return initializers.NewFull(&initializers.FullConfig{Value: -3}), nil }))
	add("Uniform", try("NewUniform", "nil", true, func() (ini, error) { return initializers.NewUniform(nil) }))
	for _, b := range [][2]float64{{-1, 2}, {0, 0}, {2, -1}, {nan, 1}, {0, nan}, {1, 1.0000001}} {
		b := b
		add("Uniform", try("NewUniform", fmt.Sprintf("lower=%v,upper=%v", b[0], b[1]), b[0] < b[1], func() (ini, error) {
			return initializers.NewUniform(&initializers.UniformConfig{Lower: b[0], Upper: b[1]})
		}))
	}
	add("Normal", try("NewNormal", "nil", true, func() (ini, error) { return initializers.NewNormal(nil) }))
	for _, b := range [][2]float64{{1, 2}, {0, 0}, {0, -1}, {nan, 1}, {0, nan}} {
		b := b
		add("Normal", try("NewNormal", fmt.Sprintf("mean=%v,std=%v", b[0], b[1]), b[1] > 0, func() (ini, error) {
			return initializers.NewNormal(&initializers.NormalConfig{Mean: b[0], StdDev: b[1]})
		}))
	}
	try("NewHeUniform", "nil", false, func() (ini, error) { return initializers.NewHeUniform(nil) })
	try("NewHeNormal", "nil", false, func() (ini, error) { return initializers.NewHeNormal(nil) })
	try("NewXavierUniform", "nil", false, func() (ini, error) { return initializers.NewXavierUniform(nil) })
	try("NewXavierNormal", "nil", false, func() (ini, error) { return initializers.NewXavierNormal(nil) })
	for _, a := range c09Ints {
		a := a
		add("HeUniform", try("NewHeUniform", fmt.Sprintf("fanIn=%d", a), a > 0, func() (ini, error) { return initializers.NewHeUniform(&initializers.HeUniformConfig{FanIn: a}) }))
		add("HeNormal", try("NewHeNormal", fmt.Sprintf("fanIn=%d", a), a > 0, func() (ini, error) { return initializers.NewHeNormal(&initializers.HeNormalConfig{FanIn: a}) }))
		for _, b := range c09Ints {
			b := b
			add("XavierUniform", try("NewXavierUniform", fmt.Sprintf("fanIn=%d,fanOut=%d", a, b), a > 0 && b > 0, func() (ini, error) {
				return initializers.NewXavierUniform(&initializers.XavierUniformConfig{FanIn: a, FanOut: b})
			}))
			add("XavierNormal", try("NewXavierNormal", fmt.Sprintf("fanIn=%d,fanOut=%d", a, b), a > 0 && b > 0, func() (ini, error) {
				return initializers.NewXavierNormal(&initializers.XavierNormalConfig{FanIn: a, FanOut: b})
			}))
		}
	}
	shapes := [][]int{nil, {}, {1}, {3}, {2, 3}, {2, 1, 2}, {0}, {-1}, {2, 0}, {2, -2, 2}, {1, 1, 1, 1, 1}}
	for _, g := range good {
		for _, s := range shapes {
			g, s := g, s
			e := wantFrom(s, ref.ValidDims(s))
			if e.ok && s == nil {
				e.shape = []int{}
			}
			chk(k, g.name+".Init", fmt.Sprintf("len%d", len(s)), fmt.Sprintf("shape %v", s), e, func() (tensor.Tensor, error) { return g.in.Init(s) })
		}
	}
}

func c09Layers(k *fw.K, pool [][]int) {
	// ---- FC construction ----
	tryFC := func(cls string, valid bool, conf *layers.FCConfig) *layers.FC {
		var l *layers.FC
		var err error
		k.Count("calls", 1)
		if p := call(func() { l, err = layers.NewFC(conf) }); p != nil {
			k.Case = c09call{Entry: "NewFC", Args: cls}
			k.Failf("NewFC(%s): PANIC: %v", cls, p)
			return nil
		}
		k.Key("NewFC/%s/%v", cls, err == nil)
		if valid != (err == nil) || (err != nil && l != nil) {
			k.Case = c09call{Entry: "NewFC", Args: cls}
			k.Failf("NewFC(%s): error = %v, layer = %v, expected valid = %v", cls, err, l != nil, valid)
			return nil
		}
		if err != nil {
			k.Add("error_messages", "%s", reDigits.ReplaceAllString(err.Error(), "#"))
		}
		return l
	}
	tryFC("nil", false, nil)
	for _, a := range c09Ints {
		for _, b := range c09Ints {
			tryFC(fmt.Sprintf("inputs=%d,outputs=%d", a, b), a > 0 && b > 0, &layers.FCConfig{Inputs: a, Outputs: b})
		}
	}
	full := initializers.NewFull(&initializers.FullConfig{Value: 2})
	// the size preconditions hold whatever initializers are configured, and for a map that an earlier construction has seen
	for _, ab := range [][2]int{{0, 2}, {-1, 3}, {2, 0}, {3, -2}, {0, 0}} {
		tryFC(fmt.Sprintf("inputs=%d,outputs=%d,explicit-weight-initializer", ab[0], ab[1]), false, &layers.FCConfig{Inputs: ab[0], Outputs: ab[1], Initializers: map[string]layers.Initializer{"Weight": full}})
		tryFC(fmt.Sprintf("inputs=%d,outputs=%d,explicit-initializers", ab[0], ab[1]), false, &layers.FCConfig{Inputs: ab[0], Outputs: ab[1], Initializers: map[string]layers.Initializer{"Weight": full, "Bias": full}})
		shared := map[string]layers.Initializer{}
		tryFC("2x2 with an empty initializer map (kept by the caller)", true, &layers.FCConfig{Inputs: 2, Outputs: 2, Initializers: shared})
		tryFC(fmt.Sprintf("inputs=%d,outputs=%d,the initializer map of an earlier construction", ab[0], ab[1]), false, &layers.FCConfig{Inputs: ab[0], Outputs: ab[1], Initializers: shared})
	}
	tryFC("nil-weight-initializer", false, &layers.FCConfig{Inputs: 2, Outputs: 2, Initializers: map[string]layers.Initializer{"Weight": nil}})
	tryFC("nil-bias-initializer", false, &layers.FCConfig{Inputs: 2, Outputs: 2, Initializers: map[string]layers.Initializer{"Bias": nil}})
	tryFC("custom-initializers", true, &layers.FCConfig{Inputs: 2, Outputs: 3, Initializers: map[string]layers.Initializer{"Weight": full, "Bias": full}})
	tryFC("unknown-key", true, &layers.FCConfig{Inputs: 2, Outputs: 3, Initializers: map[string]layers.Initializer{"Other": nil}})
	for mode := 0; mode < 5; mode++ {
		tryFC(fmt.Sprintf("bad-weight-initializer-%d", mode), false, &layers.FCConfig{Inputs: 2, Outputs: 2, Initializers: map[string]layers.Initializer{"Weight": badInit{mode}}})
		tryFC(fmt.Sprintf("bad-bias-initializer-%d", mode), false, &layers.FCConfig{Inputs: 2, Outputs: 2, Initializers: map[string]layers.Initializer{"Bias": badInit{mode}}})
	}
	// ---- Forward of FC and activations over the receiver pool, wrong arity, nil, foreign ----
	fc := tryFC("2x3", true, &layers.FCConfig{Inputs: 2, Outputs: 3})
	type fwd interface {
		Forward(...tensor.Tensor) (tensor.Tensor, error)
	}
	comps := map[string]fwd{"Relu": activations.NewRelu(), "LeakyRelu": activations.NewLeakyRelu(nil), "LeakyRelu(NaN)": activations.NewLeakyRelu(&activations.LeakyReluConfig{M: math.NaN()}),
		"Sigmoid": activations.NewSigmoid(), "Tanh": activations.NewTanh()}
	if fc != nil {
		comps["FC"] = fc
		if p := call(func() {
			ws := fc.Weights()
			if len(ws) != 2 || ws[0].Value == nil || ws[1].Value == nil {
				k.Failf("FC.Weights() returned %d weights / nil pointers", len(ws))
			}
		}); p != nil {
			k.Failf("FC.Weights(): PANIC: %v", p)
		}
	}
	for _, d := range append([]int{-100}, c09Ints...) {
		d := d
		var sm *activations.Softmax
		var err error
		if p := call(func() { sm, err = activations.NewSoftmax(&activations.SoftmaxConfig{Dim: d}) }); p != nil {
			k.Failf("NewSoftmax(Dim %d): PANIC: %v", d, p)
			continue
		}
		k.Count("calls", 1)
		k.Key("NewSoftmax/dim%d/%v", d, err == nil)
		if (d >= 0) != (err == nil) {
			k.Failf("NewSoftmax(Dim %d): error = %v", d, err)
			continue
		}
		if err == nil {
			comps[fmt.Sprintf("Softmax(%d)", d)] = sm
		}
	}
	if sm, err := activations.NewSoftmax(nil); err != nil {
		k.Failf("NewSoftmax(nil): %v", err)
	} else {
		comps["Softmax(nil)"] = sm
	}
	for name, comp := range comps {
		name, comp := name, comp
		for _, s := range pool {
			s := s
			x := rt.MustLeaf(Unique(k.Rng, s, 0.1, 1), false)
			e := okShape(s)
			switch {
			case name == "FC":
				if len(s) == 2 {
					e = okShape([]int{s[0], 3})
				} else {
					e = expect{}
				}
			case len(name) > 7 && name[:7] == "Softmax":
				dim := 0
				fmt.Sscanf(name, "Softmax(%d)", &dim)
				if len(s) <= dim {
					e = expect{}
				}
			}
			chk(k, name+".Forward", fmt.Sprintf("rank%d", len(s)), fmt.Sprintf("input %v", s), e, func() (tensor.Tensor, error) { return comp.Forward(x) })
		}
		x := rt.MustLeaf(ref.Full([]int{2, 2}, 1), false)
		chk(k, name+".Forward", "no-input", "()", expect{}, func() (tensor.Tensor, error) { return comp.Forward() })
		chk(k, name+".Forward", "two-inputs", "(x, x)", expect{}, func() (tensor.Tensor, error) { return comp.Forward(x, x) })
		chk(k, name+".Forward", "nil-input", "(nil)", expect{}, func() (tensor.Tensor, error) { return comp.Forward(nil) })
		chk(k, name+".Forward", "foreign-input", "(foreign)", expect{any: true}, func() (tensor.Tensor, error) { return comp.Forward(foreign{}) })
	}
	// ---- Input ----
	in := layers.NewInput()
	chk(k, "Input.Forward", "unset-seedfunc", "()", expect{any: true}, func() (tensor.Tensor, error) { return in.Forward() })
	x := rt.MustLeaf(ref.Full([]int{2}, 1), false)
	chk(k, "Input.Forward", "with-input", "(x)", expect{}, func() (tensor.Tensor, error) { return in.Forward(x) })
	in.SeedFunc = func() tensor.Tensor { return x }
	chk(k, "Input.Forward", "seeded", "()", okShape([]int{2}), func() (tensor.Tensor, error) { return in.Forward() })
	chk(k, "Input.Forward", "seeded-with-input", "(x)", expect{}, func() (tensor.Tensor, error) { return in.Forward(x) })
}

func c09LossesMetricsOptim(k *fw.K, pool [][]int) {
	type loss interface {
		Compute(tensor.Tensor, tensor.Tensor) (tensor.Tensor, error)
	}
	ls := map[string]loss{"MSE": losses.NewMSE(), "BCE": losses.NewBCE(), "CE": losses.NewCE()}
	acc := metrics.NewAccuracy()
	for _, sa := range pool {
		for _, sb := range pool {
			if len(sa) > 3 && len(sb) > 3 {
				continue
			}
			sa, sb := sa, sb
			a := rt.MustLeaf(RandT(k.Rng, sa, 0.1, 0.9), false)
			b := rt.MustLeaf(RandT(k.Rng, sb, 0.1, 0.9), false)
			for name, l := range ls {
				name, l := name, l
				want := 1
				if name == "CE" {
					want = 2
				}
				e := expect{}
				if len(sa) == want && ref.SameShape(sa, sb) {
					e = okShape([]int{})
				}
				chk(k, name+".Compute", fmt.Sprintf("rank%d-rank%d", len(sa), len(sb)), fmt.Sprintf("pred %v, target %v", sa, sb), e, func() (tensor.Tensor, error) { return l.Compute(a, b) })
			}
			// Accuracy
			var err error
			k.Count("calls", 1)
			if p := call(func() { err = acc.Accumulate(a, b) }); p != nil {
				k.Failf("Accuracy.Accumulate(%v, %v): PANIC: %v", sa, sb, p)
			} else if valid := len(sa) == 1 && ref.SameShape(sa, sb); valid != (err == nil) {
				k.Failf("Accuracy.Accumulate(%v, %v): error = %v, expected valid = %v", sa, sb, err, valid)
			}
			k.Key("Accuracy.Accumulate/rank%d-rank%d/%v", len(sa), len(sb), err == nil)
		}
	}
	v := rt.MustLeaf(ref.Full([]int{2}, 0.5), false)
	for name, l := range ls {
		name, l := name, l
		chk(k, name+".Compute", "nil-pred", "(nil, x)", expect{}, func() (tensor.Tensor, error) { return l.Compute(nil, v) })
		chk(k, name+".Compute", "nil-target", "(x, nil)", expect{}, func() (tensor.Tensor, error) { return l.Compute(v, nil) })
		chk(k, name+".Compute", "nil-both", "(nil, nil)", expect{}, func() (tensor.Tensor, error) { return l.Compute(nil, nil) })
		chk(k, name+".Compute", "foreign", "(foreign, foreign)", expect{any: true}, func() (tensor.Tensor, error) { return l.Compute(foreign{}, foreign{}) })
		chk(k, name+".Compute", "foreign-target", "(x, foreign)", expect{any: true}, func() (tensor.Tensor, error) { return l.Compute(v, foreign{}) })
	}
	for _, pr := range [][2]tensor.Tensor{{nil, v}, {v, nil}, {nil, nil}} {
		var err error
		if p := call(func() { err = acc.Accumulate(pr[0], pr[1]) }); p != nil || err == nil {
			k.Failf("Accuracy.Accumulate with a nil tensor: panic=%v err=%v (an error is required)", p, err)
		}
	}
	if p := call(func() { acc.Accumulate(foreign{}, foreign{}); acc.Accumulate(v, foreign{}); acc.Result() }); p != nil {
		k.Failf("Accuracy with a foreign tensor: PANIC: %v", p)
	}
	// ---- SGD ----
	for _, conf := range []*optimizers.SGDConfig{nil, {}, {LearningRate: -1}, {LearningRate: math.NaN()}, {LearningRate: 0.1}} {
		var o *optimizers.SGD
		if p := call(func() { o = optimizers.NewSGD(conf) }); p != nil || o == nil {
			k.Failf("NewSGD(%v): panic=%v", conf, p)
			continue
		}
		upd := func(cls string, ptr *tensor.Tensor, valid bool) {
			var before tensor.Tensor
			if ptr != nil {
				before = *ptr
			}
			var err error
			k.Count("calls", 1)
			if p := call(func() { err = o.Update(ptr) }); p != nil {
				k.Failf("SGD.Update(%s): PANIC: %v", cls, p)
				return
			}
			k.Key("SGD.Update/%s/%v", cls, err == nil)
			if valid != (err == nil) {
				k.Failf("SGD.Update(%s): error = %v, expected valid = %v", cls, err, valid)
			}
			if err != nil && ptr != nil && *ptr != before {
				k.Failf("SGD.Update(%s) returned an error but replaced the tensor", cls)
			}
		}
		upd("nil-pointer", nil, false)
		var nilT tensor.Tensor
		upd("pointer-to-nil", &nilT, false)
		noGrad := rt.MustLeaf(ref.Full([]int{2}, 1), true)
		upd("no-gradient", &noGrad, false)
		untracked := rt.MustLeaf(ref.Full([]int{2}, 1), false)
		upd("untracked", &untracked, false)
		w := rt.MustLeaf(ref.Full([]int{2, 2}, 1), true)
		if err := tensor.BackPropagate(w.Scale(3)); err != nil {
			k.Failf("BackPropagate: %v", err)
		}
		reset := w
		upd("with-gradient", &w, true)
		reset.ResetGradContext(true)
		upd("after-reset", &reset, false)
		var f tensor.Tensor = foreign{}
		upd("foreign-without-gradient", &f, false)
	}
}

func c09SpecialValues(k *fw.K) {
	r := k.Rng
	shape := [][]int{{2, 3}, {3}, {}, {2, 1, 2}}[r.Intn(4)]
	mk := func() *ref.T {
		t := Shuffled(r, Unique(r, shape, 0.2, 2))
		for i := range t.Data {
			if r.Intn(2) == 0 {
				t.Data[i] = []float64{math.NaN(), math.Inf(1), math.Inf(-1), 0, math.Copysign(0, -1), 5e-324, 1.7e308}[r.Intn(7)]
			}
		}
		return t
	}
	a, b := mk(), mk()
	rank := len(shape)
	ins := []ref.Instr{{Op: "exp"}, {Op: "log"}, {Op: "sin"}, {Op: "cos"}, {Op: "tan"}, {Op: "sinh"}, {Op: "cosh"}, {Op: "tanh"}, {Op: "scale", F: 0}, {Op: "scale", F: -2},
		{Op: "pow", F: 0}, {Op: "pow", F: 0.5}, {Op: "pow", F: -1}, {Op: "pow", F: 2}, {Op: "relu"}, {Op: "sigmoid"}, {Op: "leakyrelu", F: 0.1}}
	for _, op := range []string{"add", "sub", "mul", "div", "elmax", "elmin", "eq", "ne", "gt", "ge", "lt", "le"} {
		ins = append(ins, ref.Instr{Op: op, In: []int{0, 1}})
	}
	for d := 0; d < rank; d++ {
		for _, op := range c05Along {
			ins = append(ins, ref.Instr{Op: op, Dim: d})
		}
		ins = append(ins, ref.Instr{Op: "softmax", Dim: d}, ref.Instr{Op: "concat", In: []int{0, 1}, Dim: d})
	}
	if rank >= 1 {
		ins = append(ins, ref.Instr{Op: "dot", In: []int{0, 1}}, ref.Instr{Op: "patch", In: []int{0, 1}})
	}
	k.Key("special-values/%s", shapeKey(shape))
	for _, in := range ins {
		for _, tracked := range []bool{false, true} {
			xs := []tensor.Tensor{rt.MustLeaf(a, tracked)}
			if len(in.In) == 2 {
				xs = append(xs, rt.MustLeaf(b, false))
			}
			k.Count("calls", 1)
			y, err, p := exec(in, xs)
			if p != nil || err != nil || y == nil {
				k.Case = c09call{Entry: in.Op, Args: fmt.Sprintf("operands %v %v (tracked %v)", a.Data, b.Data, tracked), Want: "a result: the shapes and arguments are valid"}
				k.Failf("%s on valid shapes %v with operands holding NaN / infinities / signed zeros: panic=%v err=%v", in.Op, shape, p, err)
				return
			}
			if tracked {
				if p := call(func() { err = tensor.BackPropagate(y) }); p != nil || err != nil {
					k.Case = c09call{Entry: "BackPropagate after " + in.Op, Args: fmt.Sprintf("operands %v %v", a.Data, b.Data), Want: "no panic, no error"}
					k.Failf("BackPropagate through %s over operands holding NaN / infinities: panic=%v err=%v", in.Op, p, err)
					return
				}
			}
		}
	}
	for _, f := range []func() float64{rt.MustLeaf(a, false).Sum, rt.MustLeaf(a, false).Max, rt.MustLeaf(a, false).Min, rt.MustLeaf(a, false).Mean, rt.MustLeaf(a, false).Var, rt.MustLeaf(a, false).Std} {
		f := f
		k.Count("calls", 1)
		if p := call(func() { _ = f() }); p != nil {
			k.Failf("a whole-tensor reducer on operands holding NaN / infinities panicked: %v", p)
			return
		}
	}
	var eqv bool
	if p := call(func() { eqv, _ = rt.MustLeaf(a, false).Equals(rt.MustLeaf(b, false)) }); p != nil {
		k.Failf("Equals on operands holding NaN / infinities panicked: %v (%v)", p, eqv)
	}
}

func c09DeepDiamonds(k *fw.K, blocks int) {
	shape := [][]int{{}, {3}, {2, 2}}[k.Rng.Intn(3)]
	variant := k.Rng.Intn(3)
	k.Case = map[string]any{"entry": "BackPropagate", "graph": "chain of blocks that read their input twice", "blocks": blocks, "shape": shape, "variant": variant}
	k.Key("deep-diamonds/%d/%d/%s", blocks, variant, shapeKey(shape))
	k.Count("calls", 1)
	x := rt.MustLeaf(Shuffled(k.Rng, Unique(k.Rng, shape, 0.2, 0.9)), true)
	var err error
	var pn any
	k.CPUGuard(20*time.Second, fmt.Sprintf("BackPropagate over a chain of %d blocks that each read their input twice", blocks), func() {
		pn = call(func() {
			h := x
			for b := 0; b < blocks && err == nil; b++ {
				switch variant {
				case 0:
					h, err = h.Add(h.Scale(0.5)) // residual block
				case 1:
					h, err = h.Mul(h.Tanh()) // gate
				default:
					var s tensor.Tensor
					if s, err = h.Sub(h.Scale(0.25)); err == nil {
						h, err = s.ElMax(h.Scale(0.5))
					}
				}
			}
			if err == nil {
				err = tensor.BackPropagate(h)
			}
		})
	})
	if pn != nil || err != nil {
		k.Failf("BackPropagate over a chain of %d blocks (variant %d, shape %v): panic=%v err=%v", blocks, variant, shape, pn, err)
		return
	}
	if x.Gradient() == nil {
		k.Failf("BackPropagate over a chain of %d blocks (variant %d, shape %v) left the tracked leaf without a gradient", blocks, variant, shape)
	}
}

// c09RepeatedBackprop: totality of BackPropagate does not depend on history: called a second time on the same root,
// on an interior tensor first and then on the root, or on two heads over a shared trunk, it may return an error or nil
// (what the gradients then are is outside C09, and outside C08's provisos) but it must not panic.
func c09RepeatedBackprop(k *fw.K, shape []int) {
	rank := len(shape)
	var ins []ref.Instr
	for _, op := range []string{"scale", "pow", "exp", "log", "sin", "cos", "tan", "sinh", "cosh", "tanh"} {
		ins = append(ins, ref.Instr{Op: op, F: 2})
	}
	for dim := 0; dim < rank; dim++ {
		for _, op := range c05Along {
			ins = append(ins, ref.Instr{Op: op, Dim: dim})
		}
		ins = append(ins, ref.Instr{Op: "flatten", Dim: dim}, ref.Instr{Op: "unsqueeze", Dim: dim}, ref.Instr{Op: "slice", Index: []ref.Range{{From: 0, To: 1}}})
	}
	if rank >= 2 {
		ins = append(ins, ref.Instr{Op: "transpose"})
	}
	ins = append(ins, ref.Instr{Op: "reshape", Shape: []int{ref.Prod(shape)}}, ref.Instr{Op: "broadcast", Shape: append([]int{2}, shape...)})
	for _, op := range []string{"add", "sub", "mul", "div", "elmax", "elmin"} {
		ins = append(ins, ref.Instr{Op: op, In: []int{0, 0}})
	}
	if rank >= 1 {
		ins = append(ins, ref.Instr{Op: "dot", In: []int{0, 0}}, ref.Instr{Op: "concat", In: []int{0, 0}}, ref.Instr{Op: "patch", In: []int{0, 0}})
	}
	for _, op := range []string{"add", "mul", "div", "elmax", "patch", "concat"} { // second operand a different tracked leaf (F = 1) / first operand (F = 2)
		if rank >= 1 || (op != "patch" && op != "concat") {
			ins = append(ins, ref.Instr{Op: op, In: []int{0, 0}, F: 1}, ref.Instr{Op: op, In: []int{0, 0}, F: 2})
		}
	}
	for _, in := range ins {
		for variant := 0; variant < 7; variant++ {
			in, variant := in, variant
			x := rt.MustLeaf(UniquePos(k.Rng, shape, 0.3, 1.2), true)
			xs := []tensor.Tensor{x}
			if len(in.In) == 2 {
				xs = []tensor.Tensor{x, x}
			}
			k.Count("calls", 3)
			k.Key("BackPropagate-again/%s/%d/%v", in.Op, variant, in.F)
			var lateErr error
			defer func(op string, variant int) {
				if lateErr != nil && !k.Failed() {
					k.Case = c09call{Entry: "BackPropagate (on a tensor derived after a pass)", Args: fmt.Sprintf("graph x -> Scale -> %s on shape %v", op, shape), Want: "nil error: an untracked root violates no precondition"}
					k.Failf("BackPropagate on an untracked tensor derived from an already back-propagated graph (x -> Scale -> %s, shape %v) returned an error: %v", op, shape, lateErr)
				}
			}(in.Op, variant)
			if p := call(func() {
				h := x.Scale(1.5) // a trunk
				ys := []tensor.Tensor{h}
				if len(in.In) == 2 {
					ys = []tensor.Tensor{h, h}
					other := rt.MustLeaf(UniquePos(k.Rng, shape, 1.3, 2.2), true)
					switch in.F {
					case 1:
						ys[1] = other
					case 2:
						ys[0] = other
					}
				}
				_ = xs
				y, err := rt.Exec(in, ys)
				if err != nil || y == nil {
					return
				}
				switch variant {
				case 6: // tensors DERIVED from the graph after its pass (a new result over the spent leaf, the leaf's gradient, what an optimizer
					// step left behind): untracked roots - BackPropagate changes nothing and reports no error
					if e := tensor.BackPropagate(y); e != nil {
						return
					}
					late := []tensor.Tensor{x.Exp(), h.Scale(2)}
					if g := x.Gradient(); g != nil {
						late = append(late, g, g.Tanh())
						w := x
						if optimizers.NewSGD(nil).Update(&w) == nil && w != nil {
							late = append(late, w, w.Scale(3))
						}
					}
					for i, t := range late {
						if e := tensor.BackPropagate(t); e != nil {
							lateErr = fmt.Errorf("tensor %d derived after the pass: %v", i, e)
							return
						}
					}
				case 0: // the same root twice
					_ = tensor.BackPropagate(y)
					_ = tensor.BackPropagate(y)
				case 1: // an interior tensor first, then the root, then the leaf
					_ = tensor.BackPropagate(h)
					_ = tensor.BackPropagate(y)
					_ = tensor.BackPropagate(x)
				case 2: // two heads over a shared trunk, then the first head again
					z := y.Tanh()
					_ = tensor.BackPropagate(z)
					_ = tensor.BackPropagate(y)
					_ = tensor.BackPropagate(z)
				case 3: // a tensor in the middle of the graph is given a fresh context before the pass ("zero grad" in the wrong place)
					h.ResetGradContext(true)
					_ = tensor.BackPropagate(y)
					_ = tensor.BackPropagate(h)
				case 4: // ... or the leaf, or the result itself
					x.ResetGradContext(variant%2 == 0)
					_ = tensor.BackPropagate(y)
					y.ResetGradContext(true)
					_ = tensor.BackPropagate(y)
				default: // ... or it is detached
					h.ResetGradContext(false)
					_ = tensor.BackPropagate(y)
					_ = tensor.BackPropagate(x)
				}
			}); p != nil {
				k.Case = c09call{Entry: "BackPropagate (repeated)", Args: fmt.Sprintf("graph x -> Scale -> %s on shape %v, variant %d", in.Op, shape, variant), Want: "no panic"}
				k.Failf("BackPropagate called again over an already back-propagated graph (x -> Scale -> %s, shape %v, variant %d): PANIC: %v", in.Op, shape, variant, p)
			}
		}
	}
}
