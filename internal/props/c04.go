package props

import (
	"fmt"
	"math"

	"github.com/sahandsafizadeh/qeep/tensor"

	"qeepverif/internal/fw"
	"qeepverif/internal/ref"
	"qeepverif/internal/rt"
)

// C04 — MatMul, Dot and Transpose implement batched linear algebra for every shape.

func init() {
	fw.Register(&fw.Prop{
		ID: "C04",
		Rule: "differential monitor with distinct small-integer data (sums of products are exact in float64, so comparison is exact): MatMul over all (m,n,k) in {1,2,3}^3 x all broadcast-compatible batch-shape pairs (batch rank <= 2 exhaustive in quick, <= 3 in thorough, rank-6 operands sampled), Dot over all broadcast-compatible full-shape pairs of rank 1..4 (+ sampled 5-6), Transpose over all shapes of rank 2..6 (sizes 1..3, trailing matrices up to 5x5). " +
			"Identity monitors on the same operands: A.I=A, I.A=A (I also given with a leading batch dimension of 1), (A.B)^T = B^T.A^T, Dot(a,b)=SumAlong_last(a*b), Transpose(Transpose(x))=x. " +
			"Non-trivial: the result has >= 2 elements; distinct = (op, operand shapes). Later additions: matrices up to 7x7 and batch sizes up to 5; contraction / row / column sizes 31..257 (MatMul) and up to 1001 (Dot); exact power-of-two scaling (sA)(B/s) = AB for s = 2^+-300..900; operands are re-read after the identities; tensors that took part in rejected calls are used again.",
		Assumptions: []string{"At/Shape are the observation channel", "integer data keep every partial sum exactly representable; a second pass with random reals uses relative tolerance 1e-12"},
		FloorQuick:  20000, FloorThor: 100000,
		Run: runC04,
	})
}

func c04MatMul(k *fw.K, ba, bb []int, m, n, kk int, ints bool) {
	sa := append(ref.CopyInts(ba), m, n)
	sb := append(ref.CopyInts(bb), n, kk)
	var a, b *ref.T
	if ints {
		a, b = UniqueInts(k.Rng, sa), UniqueInts(k.Rng, sb)
	} else {
		a, b = Shuffled(k.Rng, Unique(k.Rng, sa, 0.1, 3)), Shuffled(k.Rng, Unique(k.Rng, sb, 0.1, 3))
	}
	c04Sparsify(k, a, m*n)
	c04Sparsify(k, b, n*kk)
	in := ref.Instr{Op: "matmul"}
	k.Case = fcase{In: in, Ops: []*ref.T{a, b}}
	want, err := ref.Apply(in, []*ref.T{a, b})
	if err != nil {
		k.Failf("harness: %v", err)
		return
	}
	if len(want.Data) >= 2 {
		k.Key("matmul/%s/%s", shapeKey(sa), shapeKey(sb))
	}
	k.Count("matmul_cases", 1)
	if !ref.SameShape(ba, bb) {
		k.Count("matmul_cases_with_batch_broadcast", 1)
	}
	k.Sample()
	if msg := forwardCase(in, []*ref.T{a, b}, ints); msg != "" {
		k.Failf("MatMul %v x %v: %s", sa, sb, msg)
		return
	}
	if !ints {
		return
	}
	// identities (exact on integer data)
	ra, rb := rt.MustLeaf(a, false), rt.MustLeaf(b, false)
	var msg string
	if p := call(func() { msg = c04Identities(k, ra, rb, a, b, want) }); p != nil {
		k.Failf("MatMul identities on %v x %v: panic: %v", sa, sb, p)
	} else if msg != "" {
		k.Failf("MatMul identities on %v x %v: %s", sa, sb, msg)
	}
}

// c04Sparsify: in a third of the cases exact zeros (and negative zeros) are put into the operand: scattered, a whole row of
// the last dimension, a whole matrix of the batch, or everything EXCEPT in the first matrix of the batch - zero patterns that
// differ between batch entries.
func c04Sparsify(k *fw.K, t *ref.T, matrix int) {
	r := k.Rng
	if r.Intn(3) != 0 || len(t.Data) < 2 {
		return
	}
	k.Count("operands_with_exact_zeros", 1)
	zero := func(i int) {
		t.Data[i] = 0
		if r.Intn(4) == 0 {
			t.Data[i] = math.Copysign(0, -1)
		}
	}
	switch r.Intn(4) {
	case 0:
		for i := range t.Data {
			if r.Intn(5) < 2 {
				zero(i)
			}
		}
	case 1: // zeros only in the first matrix of the batch
		for i := 0; i < matrix && i < len(t.Data); i++ {
			if r.Intn(2) == 0 {
				zero(i)
			}
		}
	case 2: // zeros everywhere except in the first matrix
		for i := matrix; i < len(t.Data); i++ {
			if r.Intn(2) == 0 {
				zero(i)
			}
		}
	default: // one whole matrix of the batch
		nb := len(t.Data) / matrix
		e := r.Intn(nb)
		for i := e * matrix; i < (e+1)*matrix; i++ {
			zero(i)
		}
	}
}

func sameReal(x tensor.Tensor, want *ref.T, what string) string {
	if e := rt.Compare(x, want, 0, 0, nil, 0); e != nil {
		return what + ": " + e.Error()
	}
	return ""
}

func c04Identities(k *fw.K, ra, rb tensor.Tensor, a, b, ab *ref.T) string {
	n := a.Shape[len(a.Shape)-1]
	eye, err := tensor.Eye(n, nil)
	if err != nil {
		return "Eye: " + err.Error()
	}
	// A.I = A
	ai, err := ra.MatMul(eye)
	if err != nil {
		return "A.I: " + err.Error()
	}
	if m := sameReal(ai, a, "A.I = A"); m != "" {
		return m
	}
	// with I given as [1,n,n] (a batch of one) the result is A with at least rank 3
	eye1, err := eye.UnSqueeze(0)
	if err != nil {
		return "UnSqueeze(I): " + err.Error()
	}
	ai1, err := ra.MatMul(eye1)
	if err != nil {
		return "A.I[1,n,n]: " + err.Error()
	}
	wantA := a
	if len(a.Shape) == 2 {
		wantA, _ = a.UnSqueeze(0)
	}
	if m := sameReal(ai1, wantA, "A.I[1,n,n] = A"); m != "" {
		return m
	}
	// I.B = B
	ib, err := eye.MatMul(rb)
	if err != nil {
		return "I.B: " + err.Error()
	}
	if m := sameReal(ib, b, "I.B = B"); m != "" {
		return m
	}
	// (A.B)^T = B^T.A^T
	rab, err := ra.MatMul(rb)
	if err != nil {
		return "A.B: " + err.Error()
	}
	lhs, err := rab.Transpose()
	if err != nil {
		return "(A.B)^T: " + err.Error()
	}
	bt, err := rb.Transpose()
	if err != nil {
		return "B^T: " + err.Error()
	}
	at, err := ra.Transpose()
	if err != nil {
		return "A^T: " + err.Error()
	}
	rhs, err := bt.MatMul(at)
	if err != nil {
		return "B^T.A^T: " + err.Error()
	}
	abt, _ := ab.Transpose()
	if m := sameReal(lhs, abt, "(A.B)^T"); m != "" {
		return m
	}
	if m := sameReal(rhs, abt, "B^T.A^T = (A.B)^T"); m != "" {
		return m
	}
	k.Count("identity_checks", 5)
	for _, chk := range []struct {
		t    tensor.Tensor
		want *ref.T
		what string
	}{{ra, a, "A"}, {rb, b, "B"}, {rab, ab, "A.B"}} {
		if e := rt.Compare(chk.t, chk.want, 0, 0, nil, 0); e != nil {
			return "operand " + chk.what + " was modified by Transpose / MatMul: " + e.Error()
		}
	}
	return ""
}

func c04Dot(k *fw.K, sa, sb []int, ints bool) {
	var a, b *ref.T
	if ints {
		a, b = UniqueInts(k.Rng, sa), UniqueInts(k.Rng, sb)
	} else {
		a, b = Shuffled(k.Rng, Unique(k.Rng, sa, 0.1, 3)), Shuffled(k.Rng, Unique(k.Rng, sb, 0.1, 3))
	}
	in := ref.Instr{Op: "dot"}
	k.Case = fcase{In: in, Ops: []*ref.T{a, b}}
	want, err := ref.Apply(in, []*ref.T{a, b})
	if err != nil {
		k.Failf("harness: %v", err)
		return
	}
	if len(want.Data) >= 2 || len(a.Data) >= 2 {
		k.Key("dot/%s/%s", shapeKey(sa), shapeKey(sb))
	}
	k.Count("dot_cases", 1)
	if !ref.SameShape(sa, sb) {
		k.Count("dot_cases_with_broadcast", 1)
	}
	if msg := forwardCase(in, []*ref.T{a, b}, ints); msg != "" {
		k.Failf("Dot %v . %v: %s", sa, sb, msg)
		return
	}
	if !ints {
		return
	}
	// Dot(a,b) = SumAlong_last(a*b)
	ra, rb := rt.MustLeaf(a, false), rt.MustLeaf(b, false)
	var msg string
	if p := call(func() {
		prod, err := ra.Mul(rb)
		if err != nil {
			msg = "a*b: " + err.Error()
			return
		}
		s, err := prod.SumAlong(len(prod.Shape()) - 1)
		if err != nil {
			msg = "SumAlong: " + err.Error()
			return
		}
		msg = sameReal(s, want, "SumAlong_last(a*b) = Dot(a,b)")
	}); p != nil {
		msg = fmt.Sprintf("panic: %v", p)
	}
	k.Count("identity_checks", 1)
	if msg != "" {
		k.Failf("Dot identity on %v . %v: %s", sa, sb, msg)
	}
}

func c04Transpose(k *fw.K, shape []int) {
	x := Shuffled(k.Rng, Unique(k.Rng, shape, 0.1, 3))
	in := ref.Instr{Op: "transpose"}
	k.Case = fcase{In: in, Ops: []*ref.T{x}}
	if len(x.Data) >= 2 {
		k.Key("transpose/%s", shapeKey(shape))
	}
	k.Count("transpose_cases", 1)
	if msg := forwardCase(in, []*ref.T{x}, true); msg != "" {
		k.Failf("Transpose %v: %s", shape, msg)
		return
	}
	rx := rt.MustLeaf(x, false)
	var msg string
	if p := call(func() {
		t1, err := rx.Transpose()
		if err != nil {
			msg = err.Error()
			return
		}
		t2, err := t1.Transpose()
		if err != nil {
			msg = err.Error()
			return
		}
		msg = sameReal(t2, x, "Transpose(Transpose(x)) = x")
	}); p != nil {
		msg = fmt.Sprintf("panic: %v", p)
	}
	k.Count("identity_checks", 1)
	if msg != "" {
		k.Failf("Transpose involution on %v: %s", shape, msg)
	}
}

func batchPairs(dst []int) [][2][]int {
	var out [][2][]int
	srcs := BroadcastSources(dst)
	for _, a := range srcs {
		for _, b := range srcs {
			if bs, err := ref.BroadcastShape(a, b); err == nil && ref.SameShape(bs, dst) {
				out = append(out, [2][]int{a, b})
			}
		}
	}
	return out
}

func runC04(c *fw.Ctx) {
	deeperBounds(!c.Quick())
	// ---- MatMul ----
	maxBatchRank := c.Pick(3, 4)
	for _, dst := range Shapes(0, maxBatchRank, 3) {
		for _, pr := range batchPairs(dst) {
			for m := 1; m <= 3; m++ {
				for n := 1; n <= 3; n++ {
					for kk := 1; kk <= 3; kk++ {
						pr, m, n, kk := pr, m, n, kk
						c.Case(func(k *fw.K) { c04MatMul(k, pr[0], pr[1], m, n, kk, true) })
					}
				}
			}
		}
	}
	for i := 0; i < c.Pick(4000, 40000); i++ { // sampled: batch rank 3-4 (operand rank up to 6), real-valued pass
		c.Case(func(k *fw.K) {
			dst := RandShape(k.Rng, 3, maxSampledRank-3, 3)
			prs := batchPairs(dst)
			pr := prs[k.Rng.Intn(len(prs))]
			c04MatMul(k, pr[0], pr[1], 1+k.Rng.Intn(3), 1+k.Rng.Intn(3), 1+k.Rng.Intn(3), k.Rng.Intn(2) == 0)
		})
	}

	for i := 0; i < c.Pick(3000, 30000); i++ { // matrices up to 7x7, batch sizes up to 5
		c.Case(func(k *fw.K) {
			dst := RandShape(k.Rng, 0, 2, 5)
			prs := batchPairs(dst)
			pr := prs[k.Rng.Intn(len(prs))]
			k.Count("matmul_big_cases", 1)
			c04MatMul(k, pr[0], pr[1], 1+k.Rng.Intn(7), 1+k.Rng.Intn(7), 1+k.Rng.Intn(7), true)
		})
	}
	for i := 0; i < c.Pick(1500, 15000); i++ { // Transpose / Dot with sizes up to 7
		c.Case(func(k *fw.K) {
			s := BigShape(k.Rng, 2, 400)
			if k.Rng.Intn(2) == 0 {
				c04Transpose(k, s)
				return
			}
			srcs := BroadcastSources(s)
			last := s[len(s)-1]
			for {
				sa, sb := srcs[k.Rng.Intn(len(srcs))], srcs[k.Rng.Intn(len(srcs))]
				if len(sa) < 1 || len(sb) < 1 || sa[len(sa)-1] != last || sb[len(sb)-1] != last {
					continue
				}
				if bs, err := ref.BroadcastShape(sa, sb); err == nil && ref.SameShape(bs, s) {
					c04Dot(k, sa, sb, true)
					return
				}
			}
		})
	}

	for i := 0; i < c.Pick(400, 4000); i++ { // long contraction / row / column sizes (31..257)
		c.Case(func(k *fw.K) {
			sizes := []int{31, 32, 33, 40, 63, 64, 65, 70, 127, 128, 129, 257}
			m, n, kk := 1+k.Rng.Intn(3), 1+k.Rng.Intn(3), 1+k.Rng.Intn(3)
			switch k.Rng.Intn(3) {
			case 0:
				n = sizes[k.Rng.Intn(len(sizes))]
			case 1:
				m = sizes[k.Rng.Intn(len(sizes))]
			default:
				kk = sizes[k.Rng.Intn(len(sizes))]
			}
			dst := RandShape(k.Rng, 0, 2, 2)
			prs := batchPairs(dst)
			pr := prs[k.Rng.Intn(len(prs))]
			k.Count("matmul_long_dimension_cases", 1)
			c04MatMul(k, pr[0], pr[1], m, n, kk, true)
		})
	}
	for i := 0; i < c.Pick(300, 3000); i++ { // Dot with a long contracted dimension
		c.Case(func(k *fw.K) {
			n := []int{31, 32, 33, 64, 65, 127, 128, 129, 257, 1001}[k.Rng.Intn(10)]
			lead := RandShape(k.Rng, 0, 2, 3)
			s := append(ref.CopyInts(lead), n)
			srcs := BroadcastSources(s)
			for {
				sa, sb := srcs[k.Rng.Intn(len(srcs))], srcs[k.Rng.Intn(len(srcs))]
				if len(sa) < 1 || len(sb) < 1 || sa[len(sa)-1] != n || sb[len(sb)-1] != n {
					continue
				}
				if bs, err := ref.BroadcastShape(sa, sb); err == nil && ref.SameShape(bs, s) {
					c04Dot(k, sa, sb, true)
					return
				}
			}
		})
	}
	for i := 0; i < c.Pick(300, 3000); i++ { // an operand that is an explicit Broadcast result whose shape argument the caller has since overwritten
		c.Case(func(k *fw.K) {
			m, n, kk := 1+k.Rng.Intn(3), 1+k.Rng.Intn(3), 1+k.Rng.Intn(3)
			batch := RandShape(k.Rng, 1, 2, 3)
			a2, b := UniqueInts(k.Rng, []int{m, n}), UniqueInts(k.Rng, append(ref.CopyInts(batch), n, kk))
			bc := ref.Instr{Op: "broadcast", Shape: append(ref.CopyInts(batch), m, n)}
			av, err := ref.Apply(bc, []*ref.T{a2})
			if err != nil {
				k.Failf("harness: %v", err)
				return
			}
			want, err := ref.Apply(ref.Instr{Op: "matmul"}, []*ref.T{av, b})
			if err != nil {
				k.Failf("harness: %v", err)
				return
			}
			k.Case = fcase{In: ref.Instr{Op: "matmul"}, Ops: []*ref.T{av, b}, Tag: "left operand = explicit Broadcast of a matrix"}
			k.Key("matmul-broadcast-operand/%s/%d/%d/%d", shapeKey(batch), m, n, kk)
			k.Count("matmul_cases_with_an_explicitly_broadcast_operand", 1)
			var got, tr tensor.Tensor
			if p := call(func() {
				var ab tensor.Tensor
				if ab, err = rt.Exec(bc, []tensor.Tensor{rt.MustLeaf(a2, false)}); err != nil { // rt.Exec overwrites the shape slice it passed once the call has returned
					return
				}
				if got, err = ab.MatMul(rt.MustLeaf(b, false)); err != nil {
					return
				}
				tr, err = ab.Transpose()
			}); p != nil || err != nil {
				k.Failf("Broadcast(%v).MatMul(%v): panic=%v err=%v", bc.Shape, b.Shape, p, err)
				return
			}
			if e := rt.Compare(got, want, 0, 0, nil, 0); e != nil {
				k.Failf("Broadcast(%v).MatMul(%v): %v", bc.Shape, b.Shape, e)
				return
			}
			wt, _ := ref.Apply(ref.Instr{Op: "transpose"}, []*ref.T{av})
			if e := rt.Compare(tr, wt, 0, 0, nil, 0); e != nil {
				k.Failf("Broadcast(%v).Transpose(): %v", bc.Shape, e)
			}
		})
	}
	for ra := 2; ra <= 6; ra++ { // every pair of operand ranks 2..6 (batch dimensions of one operand missing in the other)
		for rb := 2; rb <= 6; rb++ {
			for rep := 0; rep < c.Pick(3, 12); rep++ {
				ra, rb := ra, rb
				c.Case(func(k *fw.K) {
					long, short := ra-2, rb-2
					if short > long {
						long, short = short, long
					}
					batch := make([]int, long)
					for i := range batch {
						batch[i] = 1 + k.Rng.Intn(2)
					}
					ba, bb := batch[long-(ra-2):], batch[long-(rb-2):]
					c04MatMul(k, ref.CopyInts(ba), ref.CopyInts(bb), 1+k.Rng.Intn(2), 1+k.Rng.Intn(3), 1+k.Rng.Intn(3), true)
				})
			}
		}
	}
	for i := 0; i < c.Pick(300, 3000); i++ { // Dot of a tensor with ITSELF (one object), rows of exact zeros included
		c.Case(func(k *fw.K) {
			shape := RandShape(k.Rng, 1, 3, 4)
			a := UniqueInts(k.Rng, shape)
			last := shape[len(shape)-1]
			for row := 0; row < len(a.Data)/last; row++ {
				if k.Rng.Intn(3) == 0 {
					for j := 0; j < last; j++ {
						a.Data[row*last+j] = 0
					}
				}
			}
			in := ref.Instr{Op: "dot"}
			k.Case = fcase{In: in, Ops: []*ref.T{a, a}, Tag: "x.Dot(x), one object"}
			k.Key("dot-self/%s", shapeKey(shape))
			k.Count("dot_self_cases", 1)
			want, err := ref.Apply(in, []*ref.T{a, a})
			if err != nil {
				k.Failf("harness: %v", err)
				return
			}
			ra := rt.MustLeaf(a, k.Rng.Intn(2) == 0)
			var got tensor.Tensor
			if p := call(func() { got, err = ra.Dot(ra) }); p != nil || err != nil {
				k.Failf("x.Dot(x) on shape %v: panic=%v err=%v", shape, p, err)
				return
			}
			if e := rt.Compare(got, want, 0, 0, nil, 0); e != nil {
				k.Failf("x.Dot(x) (one object) on shape %v: %v", shape, e)
			}
		})
	}
	for i := 0; i < c.Pick(400, 4000); i++ { // a matrix times ITSELF (the same object, and an equal-valued other object), also inside a batch
		c.Case(func(k *fw.K) {
			n := 1 + k.Rng.Intn(5)
			batch := RandShape(k.Rng, 0, 2, 3)
			shape := append(ref.CopyInts(batch), n, n)
			a := UniqueInts(k.Rng, shape)
			if k.Rng.Intn(3) == 0 && len(batch) > 0 { // every matrix of the batch holds the same values
				for i := range a.Data {
					a.Data[i] = a.Data[i%(n*n)]
				}
			}
			in := ref.Instr{Op: "matmul"}
			k.Case = fcase{In: in, Ops: []*ref.T{a, a}, Tag: "a matrix times itself"}
			k.Key("matmul-self/%s", shapeKey(shape))
			k.Count("matmul_self_cases", 1)
			want, err := ref.Apply(in, []*ref.T{a, a})
			if err != nil {
				k.Failf("harness: %v", err)
				return
			}
			ra, rb := rt.MustLeaf(a, k.Rng.Intn(2) == 0), rt.MustLeaf(a.Clone(), false)
			for vi, pair := range [][2]tensor.Tensor{{ra, ra}, {ra, rb}, {rb, ra}} {
				var got tensor.Tensor
				if p := call(func() { got, err = pair[0].MatMul(pair[1]) }); p != nil || err != nil {
					k.Failf("A.MatMul(A) on shape %v (variant %d): panic=%v err=%v", shape, vi, p, err)
					return
				}
				if e := rt.Compare(got, want, 0, 0, nil, 0); e != nil {
					k.Failf("A.MatMul(A) on shape %v (%s): %v", shape, []string{"the same object twice", "an equal-valued other object as right operand", "an equal-valued other object as left operand"}[vi], e)
					return
				}
			}
		})
	}
	for i := 0; i < c.Pick(400, 4000); i++ { // exact power-of-two scaling: (s.A).(B/s) = A.B bit for bit, also for s = 2^-840
		c.Case(func(k *fw.K) { c04Scaled(k) })
		c.Case(func(k *fw.K) { c04MixedMagnitudes(k) })
		c.Case(func(k *fw.K) { c04Structured(k) })
		c.Case(func(k *fw.K) { c04Cancelling(k, false) })
		c.Case(func(k *fw.K) { c04Cancelling(k, true) })
	}

	// tensors that took part in REJECTED calls are used again
	for i := 0; i < c.Pick(2000, 20000); i++ {
		c.Case(func(k *fw.K) { rejectThenReuse(k, RandShape(k.Rng, 0, 4, 3)) })
	}
	// ---- batch shapes that collide under ad-hoc keys and are broadcast-compatible with each other: [1,11] against [11,1], [1,12] against
	// [12,1] ... as the batch dimensions of MatMul and as the leading dimensions of Dot ----
	for _, pr := range [][2][]int{{{1, 11}, {11, 1}}, {{11, 1}, {1, 11}}, {{1, 12}, {12, 1}}, {{1, 1, 11}, {1, 11, 1}}, {{11}, {1}}, {{1, 111}, {111, 1}}, {{10, 1}, {1, 10}}, {{2, 1, 3}, {1, 3, 1}}} {
		pr := pr
		c.Case(func(k *fw.K) { c04MatMul(k, pr[0], pr[1], 1+k.Rng.Intn(2), 1+k.Rng.Intn(3), 1+k.Rng.Intn(2), true) })
		c.Case(func(k *fw.K) {
			n := 1 + k.Rng.Intn(3)
			c04Dot(k, append(ref.CopyInts(pr[0]), n), append(ref.CopyInts(pr[1]), n), true)
		})
	}
	// ---- Dot ----
	for _, dst := range Shapes(1, c.Pick(4, 5), 3) {
		last := dst[len(dst)-1]
		for _, pr := range batchPairs(dst) {
			sa, sb := pr[0], pr[1]
			if len(sa) < 1 || len(sb) < 1 || sa[len(sa)-1] != last || sb[len(sb)-1] != last {
				continue
			}
			c.Case(func(k *fw.K) { c04Dot(k, sa, sb, true) })
		}
	}
	for i := 0; i < c.Pick(3000, 30000); i++ {
		c.Case(func(k *fw.K) {
			dst := RandShape(k.Rng, 4, 6, 3)
			last := dst[len(dst)-1]
			for {
				srcs := BroadcastSources(dst)
				sa, sb := srcs[k.Rng.Intn(len(srcs))], srcs[k.Rng.Intn(len(srcs))]
				if len(sa) < 1 || len(sb) < 1 || sa[len(sa)-1] != last || sb[len(sb)-1] != last {
					continue
				}
				if bs, err := ref.BroadcastShape(sa, sb); err != nil || !ref.SameShape(bs, dst) {
					continue
				}
				c04Dot(k, sa, sb, k.Rng.Intn(2) == 0)
				return
			}
		})
	}

	// ---- Transpose ----
	for _, shape := range Shapes(2, c.Pick(5, 6), 3) {
		shape := shape
		c.Case(func(k *fw.K) { c04Transpose(k, shape) })
	}
	for _, lead := range Shapes(0, 2, 3) { // non-square trailing matrices up to 5x5
		for r := 1; r <= 5; r++ {
			for cc := 1; cc <= 5; cc++ {
				shape := append(ref.CopyInts(lead), r, cc)
				c.Case(func(k *fw.K) { c04Transpose(k, shape) })
			}
		}
	}
}

// c04Scaled: integer matrices scaled by exact powers of two. (s.A).(B/s) must equal A.B exactly, whatever
// the magnitude of s (every element of s.A may be far below 1e-240 while none is zero).
// c04MixedMagnitudes: ONE contraction holds entries of very different magnitudes - position j of every row of A is scaled by
// 2^e_j and row j of B by 2^-e_j (e_j from {0, +-600, +-1000, +-1020}), so every product is the small integer it would be
// without the scaling and the result is exact; some partners of giant entries are 0. With e = 1020 the SUM of an operand's
// elements overflows although every element, product and result is finite.
func c04MixedMagnitudes(k *fw.K) {
	r := k.Rng
	dst := RandShape(r, 0, 2, 2)
	prs := batchPairs(dst)
	pr := prs[r.Intn(len(prs))]
	m, n, kk := 1+r.Intn(3), 2+r.Intn(3), 1+r.Intn(3)
	sa := append(ref.CopyInts(pr[0]), m, n)
	sb := append(ref.CopyInts(pr[1]), n, kk)
	dot := r.Intn(3) == 0
	if dot { // Dot contracts the last dimension of both operands
		sb = append(ref.CopyInts(pr[1]), m, n)
	}
	a, b := ref.Zeros(sa), ref.Zeros(sb)
	small := func() float64 { return float64(1+r.Intn(7)) * []float64{1, -1}[r.Intn(2)] }
	for i := range a.Data {
		a.Data[i] = small()
	}
	for i := range b.Data {
		b.Data[i] = small()
		if r.Intn(4) == 0 {
			b.Data[i] = 0
		}
	}
	es := make([]int, n)
	for j := range es {
		es[j] = []int{0, 600, -600, 1000, -1000, 1020, -1020}[r.Intn(7)]
	}
	as, bs := a.Clone(), b.Clone()
	for i := range as.Data {
		as.Data[i] = math.Ldexp(as.Data[i], es[i%n])
	}
	for i := range bs.Data {
		j := (i / kk) % n
		if dot {
			j = i % n
		}
		bs.Data[i] = math.Ldexp(bs.Data[i], -es[j])
	}
	in := ref.Instr{Op: "matmul"}
	if dot {
		in.Op = "dot"
	}
	want, err := ref.Apply(in, []*ref.T{a, b})
	if err != nil {
		k.Failf("harness: %v", err)
		return
	}
	k.Case = fcase{In: in, Ops: []*ref.T{as, bs}, Tag: "mixed magnitudes inside one contraction"}
	k.Key("%s-mixed/%s/%s/%v", in.Op, shapeKey(sa), shapeKey(sb), es)
	k.Count("mixed_magnitude_cases", 1)
	ra, rb := rt.MustLeaf(as, false), rt.MustLeaf(bs, false)
	y, err, p := exec(in, []tensor.Tensor{ra, rb})
	if p != nil || err != nil || y == nil {
		k.Failf("%s %v x %v with per-position scalings 2^%v / 2^-%v (all elements and products finite): panic=%v err=%v", in.Op, sa, sb, es, es, p, err)
		return
	}
	if e := rt.Compare(y, want, 0, 0, nil, 0); e != nil {
		k.Failf("%s %v x %v with per-position scalings 2^%v of A and 2^-%v of B (every product a small integer): %v", in.Op, sa, sb, es, es, e)
	}
}

// c04Structured: one operand is a matrix that LOOKS special without being it - a unit diagonal with off-diagonal entries that cancel
// (identity plus a skew part, unit-triangular with entries summing to zero), a permutation, a matrix whose rows or columns all sum to
// 1, a symmetric one, rank one - in one batch entry or in all of them. Entries are multiples of 1/4: every product and sum is exact.
func c04Structured(k *fw.K) {
	r := k.Rng
	n := 2 + r.Intn(3)
	batch := [][]int{{}, {2}, {3}, {2, 1}}[r.Intn(4)]
	sa := append(ref.CopyInts(batch), 1+r.Intn(3), n)
	sb := append(ref.CopyInts(batch), n, n)
	if r.Intn(3) == 0 {
		sb = []int{n, n} // one structured matrix broadcast over the batch
	}
	a, b := ref.Zeros(sa), ref.Zeros(sb)
	q := func() float64 { return float64(r.Intn(17)-8) / 4 }
	for i := range a.Data {
		a.Data[i] = q()
	}
	kind := r.Intn(6)
	kinds := []string{"identity plus skew part", "unit triangular, off-diagonal entries cancelling", "permutation", "rows summing to 1", "symmetric with unit diagonal", "rank one"}
	for m := 0; m < len(b.Data)/(n*n); m++ {
		at := func(i, j int) *float64 { return &b.Data[m*n*n+i*n+j] }
		only := r.Intn(3) == 0 && m > 0 // in some batch entries only: the others are ordinary
		if only {
			for i := 0; i < n*n; i++ {
				b.Data[m*n*n+i] = q()
			}
			continue
		}
		switch kind {
		case 0:
			for i := 0; i < n; i++ {
				*at(i, i) = 1
				for j := i + 1; j < n; j++ {
					v := q()
					*at(i, j), *at(j, i) = v, -v
				}
			}
		case 1:
			for i := 0; i < n; i++ {
				*at(i, i) = 1
			}
			v := q()
			if v == 0 {
				v = 0.5
			}
			*at(0, 1) = v
			if n > 2 {
				*at(0, 2) = -v
			} else {
				*at(1, 0) = -v
			}
		case 2:
			for i, j := range r.Perm(n) {
				*at(i, j) = 1
			}
		case 3:
			for i := 0; i < n; i++ {
				sum := 0.
				for j := 1; j < n; j++ {
					*at(i, j) = q()
					sum += *at(i, j)
				}
				*at(i, 0) = 1 - sum
			}
		case 4:
			for i := 0; i < n; i++ {
				*at(i, i) = 1
				for j := i + 1; j < n; j++ {
					v := q()
					*at(i, j), *at(j, i) = v, v
				}
			}
		default:
			u, w := make([]float64, n), make([]float64, n)
			for i := range u {
				u[i], w[i] = q(), q()
			}
			for i := 0; i < n; i++ {
				for j := 0; j < n; j++ {
					*at(i, j) = u[i] * w[j]
				}
			}
		}
	}
	xs := []*ref.T{a, b}
	side := "right"
	if r.Intn(3) == 0 { // the structured matrix on the left: B x A^T-shaped operand
		at := ref.Zeros(append(ref.CopyInts(batch), n, sa[len(sa)-2]))
		for i := range at.Data {
			at.Data[i] = q()
		}
		xs, side = []*ref.T{b, at}, "left"
	}
	in := ref.Instr{Op: "matmul"}
	k.Case = fcase{In: in, Ops: xs, Tag: kinds[kind] + " on the " + side}
	k.Key("matmul-structured/%s/%s/%d/%s", shapeKey(xs[0].Shape), shapeKey(xs[1].Shape), kind, side)
	k.Count("structured_matrix_cases", 1)
	if msg := forwardCase(in, xs, true); msg != "" {
		k.Failf("MatMul %v x %v with a structured operand (%s, on the %s): %s", xs[0].Shape, xs[1].Shape, kinds[kind], side, msg)
	}
}

func c04Scaled(k *fw.K) {
	dst := RandShape(k.Rng, 0, 2, 3)
	prs := batchPairs(dst)
	pr := prs[k.Rng.Intn(len(prs))]
	m, n, kk := 1+k.Rng.Intn(3), 1+k.Rng.Intn(3), 1+k.Rng.Intn(3)
	sa := append(ref.CopyInts(pr[0]), m, n)
	sb := append(ref.CopyInts(pr[1]), n, kk)
	a, b := UniqueInts(k.Rng, sa), UniqueInts(k.Rng, sb)
	e := []int{-840, -900, 840, -500, 300}[k.Rng.Intn(5)]
	as, bs := a.Clone(), b.Clone()
	for i := range as.Data {
		as.Data[i] = math.Ldexp(as.Data[i], e)
	}
	for i := range bs.Data {
		bs.Data[i] = math.Ldexp(bs.Data[i], -e)
	}
	if k.Rng.Intn(2) == 0 { // only some batch entries are tiny
		for i := range as.Data {
			if (i/(m*n))%2 == 1 {
				as.Data[i] = a.Data[i]
			}
		}
	}
	in := ref.Instr{Op: "matmul"}
	k.Case = fcase{In: in, Ops: []*ref.T{as, bs}, Tag: "power-of-two scaling"}
	k.Key("matmul-scaled/%s/%s/%d", shapeKey(sa), shapeKey(sb), e)
	k.Count("matmul_scaled_cases", 1)
	want, err := ref.Apply(in, []*ref.T{as, bs})
	if err != nil {
		k.Failf("harness: %v", err)
		return
	}
	for _, v := range want.Data {
		if math.IsInf(v, 0) || math.IsNaN(v) {
			return // out of range for this draw: no verdict
		}
	}
	if msg := forwardCase(in, []*ref.T{as, bs}, true); msg != "" {
		k.Failf("MatMul %v x %v with operands scaled by 2^%d and 2^%d: %s", sa, sb, e, -e, msg)
	}
}

// c04Cancelling: contractions whose terms are far larger than their sum, and contractions over non-finite elements.
// Cancelling: two inner positions carry x*K and -x*(K-c) with K = 2^40..2^50 and small integers x, c, every other product
// is a small integer: all partial sums are integers below 2^53 in any order of summation, so the defined value (a small
// integer, possibly 0) is exact although it is 1e-12..1e-15 of the sum of the absolute terms.
// Non-finite: an exact 0 of A meets an infinity or a NaN of B (0*Inf = NaN in IEEE arithmetic, x*Inf = +-Inf, Inf-Inf = NaN).
func c04Cancelling(k *fw.K, nonFinite bool) {
	r := k.Rng
	dst := RandShape(r, 0, 2, 2)
	prs := batchPairs(dst)
	pr := prs[r.Intn(len(prs))]
	m, n, kk := 1+r.Intn(3), 2+r.Intn(4), 1+r.Intn(3)
	dot := r.Intn(3) == 0
	sa := append(ref.CopyInts(pr[0]), m, n)
	sb := append(ref.CopyInts(pr[1]), n, kk)
	if dot {
		sb = append(ref.CopyInts(pr[1]), m, n)
	}
	a, b := ref.Zeros(sa), ref.Zeros(sb)
	small := func() float64 { return float64(1+r.Intn(7)) * []float64{1, -1}[r.Intn(2)] }
	for i := range a.Data {
		a.Data[i] = small()
	}
	for i := range b.Data {
		b.Data[i] = small()
	}
	// inner position of element i of B
	innerB := func(i int) int {
		if dot {
			return i % n
		}
		return (i / kk) % n
	}
	p1 := r.Intn(n)
	p2 := (p1 + 1 + r.Intn(n-1)) % n
	tag := ""
	if !nonFinite {
		K := math.Ldexp(1, 40+r.Intn(11))
		for i := range a.Data {
			if i%n == p2 {
				a.Data[i] = a.Data[i-p2+p1] // the two positions carry the same factor of A
			}
		}
		for i := range b.Data {
			switch innerB(i) {
			case p1:
				b.Data[i] = K
			case p2:
				b.Data[i] = -(K - float64(r.Intn(4))) // c = 0: the pair cancels completely
			}
		}
		tag = fmt.Sprintf("terms of size 2^%d that cancel to a small integer", int(math.Log2(K)))
		k.Count("cancelling_contraction_cases", 1)
	} else {
		special := []float64{math.Inf(1), math.Inf(-1), math.NaN()}[r.Intn(3)]
		for i := range a.Data {
			if i%n == p1 && r.Intn(2) == 0 {
				a.Data[i] = 0
			}
		}
		planted := false
		for i := range b.Data {
			if innerB(i) == p1 && (r.Intn(2) == 0 || !planted) {
				b.Data[i] = special
				planted = true
			}
		}
		if r.Intn(3) == 0 { // and the other way round: the special value in A, zeros in B
			a, b = ref.Zeros(sa), ref.Zeros(sb)
			for i := range a.Data {
				a.Data[i] = small()
				if i%n == p1 {
					a.Data[i] = special
				}
			}
			for i := range b.Data {
				b.Data[i] = small()
				if innerB(i) == p1 && r.Intn(2) == 0 {
					b.Data[i] = 0
				}
			}
		}
		tag = fmt.Sprintf("exact zeros of one operand meet %v of the other", special)
		k.Count("non_finite_contraction_cases", 1)
	}
	in := ref.Instr{Op: "matmul"}
	if dot {
		in.Op = "dot"
	}
	want, err := ref.Apply(in, []*ref.T{a, b})
	if err != nil {
		k.Failf("harness: %v", err)
		return
	}
	k.Case = fcase{In: in, Ops: []*ref.T{a, b}, Tag: tag}
	k.Key("%s-cancel/%v/%s/%s", in.Op, nonFinite, shapeKey(sa), shapeKey(sb))
	ra, rb := rt.MustLeaf(a, false), rt.MustLeaf(b, false)
	y, err, p := exec(in, []tensor.Tensor{ra, rb})
	if p != nil || err != nil || y == nil {
		k.Failf("%s %v x %v (%s): panic=%v err=%v", in.Op, sa, sb, tag, p, err)
		return
	}
	if e := rt.Compare(y, want, 0, 0, nil, 0); e != nil {
		k.Failf("%s %v x %v (%s; every finite product and partial sum is an integer below 2^53): %v", in.Op, sa, sb, tag, e)
	}
}
