package props

import (
	"fmt"
	"math"
	"runtime"

	"github.com/sahandsafizadeh/qeep/component/layers/activations"
	"github.com/sahandsafizadeh/qeep/tensor"

	"qeepverif/internal/fw"
	"qeepverif/internal/ref"
	"qeepverif/internal/rt"
)

// C14 — activations compute their defining function along the configured dimension.

func init() {
	fw.Register(&fw.Prop{
		ID: "C14",
		Rule: "differential monitor of Relu / LeakyRelu / Sigmoid / Tanh / Softmax forward values: every input shape of rank 0..R (sizes 1..3; R = 4 in quick, 5 in thorough), Softmax for EVERY Dim 0..rank-1 and the nil config, LeakyRelu slopes {nil config, 0, 0.01, 0.5, 1, 2, -0.3}, input value classes {unique reals, exact 0 / -0 mixed in, +-700 and other large magnitudes with different fibres at opposite extremes, +-1e-300, and (not for Softmax) finite values around +-1e308 whose sum overflows}; one activation object is reused for two different inputs. Each element is compared with the defining scalar function (Softmax: e^x / sum e^x over the fibre along Dim computed with explicit index arithmetic); shape preserved; Softmax >= 0 and every fibre sums to 1 +- 1e-12. " +
			"Non-trivial: >= 2 elements; distinct = (activation, config, shape, value class). Later additions: one long dimension (127..2049) with Softmax along it or across it; configs overwritten right after construction." +
			" Round 4: every third activation object is first fed a batch holding +-Inf / NaN (outcome ignored) before the finite batches that are decided; Forward must leave its argument's tracking state and elements unchanged.",
		Assumptions: []string{"values compared within 1e-12 relative (+1e-300 absolute)"},
		FloorQuick:  10000, FloorThor: 40000,
		Run: runC14,
	})
}

func actValues(k *fw.K, class int, shape []int, softmaxDim int) (*ref.T, string) {
	r := k.Rng
	switch class {
	case 0:
		return Shuffled(r, Unique(r, shape, 0.05, 4)), "unique"
	case 1:
		t := Shuffled(r, Unique(r, shape, 0.05, 4))
		for i := range t.Data {
			switch r.Intn(3) {
			case 0:
				t.Data[i] = 0
			case 1:
				t.Data[i] = math.Copysign(0, -1)
			}
		}
		return t, "zeros"
	case 2: // large magnitudes, |x| <= 700; different fibres sit at opposite extremes
		t := ref.Zeros(shape)
		for i := range t.Data {
			idx := ref.Unravel(i, shape)
			base := 0.
			for d, v := range idx {
				if d != softmaxDim {
					base += float64(v*7 + d)
				}
			}
			centre := []float64{690, -690, 100, -400, 356, 0}[int(base)%6]
			t.Data[i] = centre + 10*(r.Float64()-0.5)*2
			if r.Intn(8) == 0 {
				t.Data[i] = []float64{700, -700}[r.Intn(2)]
			}
		}
		return t, "large"
	}
	if class == 5 { // SUBNORMAL inputs (and results): 3e-310, -1e-307 * slope ...
		t := Shuffled(r, Unique(r, shape, 1, 9))
		for i := range t.Data {
			t.Data[i] *= []float64{1e-310, 1e-307, 5e-324, 1e-315}[r.Intn(4)]
		}
		return t, "subnormal"
	}
	if class == 4 { // finite values at the top of the range, several of one sign (their SUM overflows, no single one does)
		t := ref.Zeros(shape)
		for i := range t.Data {
			t.Data[i] = []float64{1.2e308, math.MaxFloat64, 9e307, -9e307, -1.1e308, -math.MaxFloat64, 1e308, 3}[r.Intn(8)]
		}
		sign := []float64{1, -1}[r.Intn(2)]
		for i := 0; i < len(t.Data) && i < 3; i++ {
			t.Data[i] = sign * math.Abs(t.Data[i])
		}
		return t, "huge"
	}
	t := Shuffled(r, Unique(r, shape, 1, 2))
	for i := range t.Data {
		t.Data[i] *= 1e-300
	}
	return t, "tiny"
}

// actClasses: the value classes an activation is evaluated on (Softmax is specified up to |x| = 700 only). With a slope beyond 1
// the negative elements of the "huge" class overflow to -Inf in the defining formula itself; the positive ones must still be x.
func actClasses(sp actSpec) []int {
	if sp.in.Op == "softmax" {
		return []int{0, 1, 2, 3, 5}
	}
	return []int{0, 1, 2, 3, 4, 5}
}

type actSpec struct {
	name string
	in   ref.Instr
	mk   func() (interface {
		Forward(...tensor.Tensor) (tensor.Tensor, error)
	}, error)
}

func actSpecs(rank int) []actSpec {
	type fwd = interface {
		Forward(...tensor.Tensor) (tensor.Tensor, error)
	}
	specs := []actSpec{
		{"Relu", ref.Instr{Op: "relu"}, func() (fwd, error) { return activations.NewRelu(), nil }},
		{"Sigmoid", ref.Instr{Op: "sigmoid"}, func() (fwd, error) { return activations.NewSigmoid(), nil }},
		{"Tanh", ref.Instr{Op: "tanh"}, func() (fwd, error) { return activations.NewTanh(), nil }},
		{"LeakyRelu(nil)", ref.Instr{Op: "leakyrelu", F: 0.01}, func() (fwd, error) { return activations.NewLeakyRelu(nil), nil }},
	}
	// zero values of the exported struct types (no constructor ran)
	specs = append(specs,
		actSpec{"Relu{}", ref.Instr{Op: "relu"}, func() (fwd, error) { return &activations.Relu{}, nil }},
		actSpec{"Sigmoid{}", ref.Instr{Op: "sigmoid"}, func() (fwd, error) { return new(activations.Sigmoid), nil }},
		actSpec{"Tanh{}", ref.Instr{Op: "tanh"}, func() (fwd, error) { return &activations.Tanh{}, nil }},
		actSpec{"LeakyRelu{}", ref.Instr{Op: "leakyrelu", F: 0}, func() (fwd, error) { return &activations.LeakyRelu{}, nil }})
	if rank >= 1 {
		specs = append(specs, actSpec{"Softmax{}", ref.Instr{Op: "softmax", Dim: 0}, func() (fwd, error) { return &activations.Softmax{}, nil }})
	}
	for _, m := range []float64{0, 0.01, 0.5, 1, 2, -0.3, 1e-300, 1e5, -1, -1.5, -1e3} {
		m := m
		specs = append(specs, actSpec{fmt.Sprintf("LeakyRelu(%g)", m), ref.Instr{Op: "leakyrelu", F: m},
			func() (fwd, error) {
				conf := &activations.LeakyReluConfig{M: m}
				a := activations.NewLeakyRelu(conf)
				conf.M = 123 // the caller's config is overwritten after construction
				return a, nil
			}})
	}
	if rank >= 1 {
		specs = append(specs, actSpec{"Softmax(nil)", ref.Instr{Op: "softmax", Dim: 0}, func() (fwd, error) { return activations.NewSoftmax(nil) }})
	}
	for d := 0; d < rank; d++ {
		d := d
		specs = append(specs, actSpec{fmt.Sprintf("Softmax(%d)", d), ref.Instr{Op: "softmax", Dim: d},
			func() (fwd, error) {
				conf := &activations.SoftmaxConfig{Dim: d}
				a, err := activations.NewSoftmax(conf)
				conf.Dim = 7
				return a, err
			}})
	}
	return specs
}

func runC14(c *fw.Ctx) {
	deeperBounds(!c.Quick())
	for i := 0; i < c.Pick(600, 30000); i++ { // one long dimension (127..2049), Softmax along it or along a short one
		c.Case(func(k *fw.K) {
			shape, long := LongShape(k.Rng, 3, 2049)
			specs := actSpecs(len(shape))
			sp := specs[k.Rng.Intn(len(specs))]
			if k.Rng.Intn(2) == 0 {
				sp = specs[len(specs)-len(shape)+long] // Softmax along the long dimension
			}
			obj, err := sp.mk()
			if err != nil {
				k.Failf("%s: constructor failed: %v", sp.name, err)
				return
			}
			x, cname := actValues(k, k.Rng.Intn(2), shape, sp.in.Dim)
			k.Case = map[string]any{"activation": sp.name, "shape": shape, "class": cname}
			k.Key("%s/%s/%s/long", sp.name, shapeKey(shape), cname)
			k.Count("forward_calls_long_dimension", 1)
			want, _ := ref.Apply(sp.in, []*ref.T{x})
			var y tensor.Tensor
			if p := call(func() { y, err = obj.Forward(rt.MustLeaf(x, false)) }); p != nil || err != nil || y == nil {
				k.Failf("%s on shape %v [%s]: panic=%v err=%v", sp.name, shape, cname, p, err)
				return
			}
			if e := rt.Compare(y, want, 1e-300, 1e-11, nil, 0); e != nil {
				k.Failf("%s on shape %v [%s]: %v", sp.name, shape, cname, e)
			}
		})
	}
	// large inputs (16 384 elements and more, leading sizes that no small worker count divides): kernels that split big tensors between
	// workers must still map every row; the child processes of a run differ in GOMAXPROCS (1, 2, 3, 4, 5, 7, all)
	for _, shape := range [][]int{{9, 2048}, {17, 1024}, {5, 4097}, {100, 200}, {23, 3, 300}, {131, 127}} {
		for _, sp := range actSpecs(len(shape)) {
			shape, sp := shape, sp
			c.Case(func(k *fw.K) {
				obj, err := sp.mk()
				if err != nil {
					k.Failf("%s: constructor failed: %v", sp.name, err)
					return
				}
				x, cname := actValues(k, 0, shape, sp.in.Dim)
				k.Case = map[string]any{"activation": sp.name, "shape": shape, "class": cname}
				k.Key("%s/%s/large", sp.name, shapeKey(shape))
				k.Count("forward_calls_on_large_inputs", 1)
				want, _ := ref.Apply(sp.in, []*ref.T{x})
				var y tensor.Tensor
				if p := call(func() { y, err = obj.Forward(rt.MustLeaf(x, false)) }); p != nil || err != nil || y == nil {
					k.Failf("%s on shape %v: panic=%v err=%v", sp.name, shape, p, err)
					return
				}
				if e := rt.Compare(y, want, 1e-300, 1e-11, nil, 0); e != nil {
					k.Failf("%s on shape %v (%d elements): %v", sp.name, shape, len(x.Data), e)
				}
			})
		}
	}
	// an inference loop: ONE layer object, a fresh untracked input of the same shape at every step, dropped after use, a garbage
	// collection between the steps (the next input lands where the previous one lived)
	for i := 0; i < c.Pick(120, 2400); i++ {
		c.Case(func(k *fw.K) {
			shape := [][]int{{3}, {2, 2}, {1}, {4, 1}, {2, 3}}[k.Rng.Intn(5)]
			specs := actSpecs(len(shape))
			sp := specs[k.Rng.Intn(len(specs))]
			obj, err := sp.mk()
			if err != nil {
				k.Failf("%s: constructor failed: %v", sp.name, err)
				return
			}
			steps := 4 + k.Rng.Intn(12)
			k.Case = map[string]any{"activation": sp.name, "shape": shape, "steps": steps, "family": "inference loop with garbage collections"}
			k.Key("%s/%s/collected", sp.name, shapeKey(shape))
			k.Count("inference_loops_with_garbage_collections", 1)
			for s := 0; s < steps; s++ {
				x, _ := actValues(k, 0, shape, sp.in.Dim)
				want, _ := ref.Apply(sp.in, []*ref.T{x})
				var got *ref.T
				if p := call(func() {
					in, e := rt.Direct(x, false) // built directly: one allocation pattern per step
					if e != nil {
						err = e
						return
					}
					y, e := obj.Forward(in)
					if e != nil || y == nil {
						err = fmt.Errorf("Forward: %v", e)
						return
					}
					got, err = rt.Read(y)
				}); p != nil || err != nil {
					k.Failf("%s step %d of an inference loop: panic=%v err=%v", sp.name, s, p, err)
					return
				}
				if e := rt.CompareRef(got, want, 1e-300, 1e-12, nil, 0); e != nil {
					k.Failf("%s on shape %v, step %d of an inference loop on one layer object (fresh inputs, a garbage collection after every step): %v", sp.name, shape, s, e)
					return
				}
				runtime.GC()
			}
		})
	}
	// groups of shapes that collide under ad-hoc cache keys and hashes: every activation (Softmax along every dimension) on every
	// shape of a group, one after the other in one process, both orders
	for gi, group := range CollidingShapes {
		for rev := 0; rev < 2; rev++ {
			gi, group, rev := gi, group, rev
			c.Case(func(k *fw.K) {
				k.Key("colliding/%d/%d", gi, rev)
				k.Count("colliding_shape_group_cases", 1)
				// in every other case ONE object per layer configuration serves all shapes of the group (an inference service fed batches of
				// changing geometry): what the layer derived from an earlier input's shape must not be applied to the next input
				type fwdT = interface {
					Forward(...tensor.Tensor) (tensor.Tensor, error)
				}
				shared := map[string]fwdT{}
				oneObject := (gi+rev)%2 == 0
				for pass := 0; pass < 2; pass++ {
					for q := range group {
						shape := group[q]
						if rev == 1 {
							shape = group[len(group)-1-q]
						}
						for _, sp := range actSpecs(len(shape)) {
							obj, err := fwdT(nil), error(nil)
							if oneObject && shared[sp.name] != nil {
								obj = shared[sp.name]
								k.Count("forward_calls_on_an_object_that_served_another_shape", 1)
							} else if obj, err = sp.mk(); err != nil {
								k.Failf("%s: constructor failed: %v", sp.name, err)
								return
							}
							shared[sp.name] = obj
							x, cname := actValues(k, 0, shape, sp.in.Dim)
							want, _ := ref.Apply(sp.in, []*ref.T{x})
							var y tensor.Tensor
							if p := call(func() { y, err = obj.Forward(rt.MustLeaf(x, false)) }); p != nil || err != nil || y == nil {
								k.Failf("%s on shape %v (after the other shapes of the group %v): panic=%v err=%v", sp.name, shape, group, p, err)
								return
							}
							if e := rt.Compare(y, want, 1e-300, 1e-12, nil, 0); e != nil {
								k.Failf("%s on shape %v [%s] (after the other shapes of the group %v): %v", sp.name, shape, cname, group, e)
								return
							}
						}
					}
				}
			})
		}
	}
	for _, shape := range Shapes(0, c.Pick(5, 6), 3) {
		for _, sp := range actSpecs(len(shape)) {
			for ci := range actClasses(sp) {
				shape, sp, ci := shape, sp, ci
				c.Case(func(k *fw.K) {
					classes := actClasses(sp)
					obj, err := sp.mk()
					if err != nil {
						k.Failf("%s: constructor failed: %v", sp.name, err)
						return
					}
					// a second object of the same kind with ANOTHER configuration is built afterwards and used in between
					var disturber interface {
						Forward(...tensor.Tensor) (tensor.Tensor, error)
					}
					switch sp.in.Op {
					case "leakyrelu":
						disturber = activations.NewLeakyRelu(&activations.LeakyReluConfig{M: 7.5})
					case "softmax":
						disturber, _ = activations.NewSoftmax(&activations.SoftmaxConfig{Dim: len(shape) - 1 - sp.in.Dim})
					case "relu":
						disturber = activations.NewRelu()
					case "sigmoid":
						disturber = activations.NewSigmoid()
					default:
						disturber = activations.NewTanh()
					}
					for round := 0; round < 2; round++ { // the same activation object is used twice
						if disturber != nil && k.Rng.Intn(2) == 0 {
							dx := Shuffled(k.Rng, Unique(k.Rng, shape, 0.05, 4))
							call(func() { _, _ = disturber.Forward(rt.MustLeaf(dx, false)) })
							k.Count("calls_on_a_second_object_of_the_same_kind_in_between", 1)
						}
						if (k.Index+round)%3 == 0 { // ... and in between it saw a batch of the same shape that is not finite (a diverged step)
							actPoison(k, obj, shape)
						}
						x, cname := actValues(k, classes[(ci+round)%len(classes)], shape, sp.in.Dim)
						k.Case = fcase{In: sp.in, Ops: []*ref.T{x}, Tag: sp.name + "/" + cname}
						if len(x.Data) >= 2 {
							k.Key("%s/%s/%s", sp.name, shapeKey(shape), cname)
						}
						k.Count("forward_calls", 1)
						want, _ := ref.Apply(sp.in, []*ref.T{x})
						rx := rt.MustLeaf(x, k.Rng.Intn(2) == 0)
						var y tensor.Tensor
						guard := argGuard(rx)
						ins := []tensor.Tensor{rx} // the call spreads a slice the caller keeps
						if p := call(func() { y, err = obj.Forward(ins...) }); p != nil || err != nil || y == nil {
							k.Failf("%s on shape %v [%s]: panic=%v err=%v", sp.name, shape, cname, p, err)
							return
						}
						if msg := guard(); msg != "" {
							k.Failf("%s.Forward on shape %v changed its input tensor: %s", sp.name, shape, msg)
							return
						}
						if len(ins) != 1 || ins[0] != rx {
							k.Failf("%s.Forward(ins...) on shape %v overwrote the caller's argument slice", sp.name, shape)
							return
						}
						atol := 1e-300
						if cname == "subnormal" {
							atol = 0 // results down to 5e-324 are decided: one part in 1e12, or the neighbouring subnormal
						}
						if e := rt.Compare(y, want, atol, 1e-12, nil, 0); e != nil {
							if cname != "subnormal" || subnormalMismatch(y, want) {
								k.Failf("%s on shape %v [%s]: %v", sp.name, shape, cname, e)
								return
							}
						}
						if k.Rng.Intn(3) == 0 && cname != "subnormal" && cname != "huge" { // the layer is applied to ITS OWN latest output (a second normalisation, a stacked use of one object)
							want2, _ := ref.Apply(sp.in, []*ref.T{want})
							var y2 tensor.Tensor
							if p := call(func() { y2, err = obj.Forward(y) }); p != nil || err != nil || y2 == nil {
								k.Failf("%s applied to its own latest output (shape %v): panic=%v err=%v", sp.name, shape, p, err)
								return
							}
							if e := rt.Compare(y2, want2, 1e-300, 1e-11, nil, 0); e != nil {
								k.Failf("%s applied to its own latest output (shape %v) [%s]: %v", sp.name, shape, cname, e)
								return
							}
							k.Count("layers_applied_to_their_own_latest_output", 1)
						}
						if sp.in.Op == "softmax" {
							got, _ := rt.Read(y)
							sums, _ := got.Along(ref.SSum, sp.in.Dim)
							for i, v := range got.Data {
								if !(v >= 0) {
									k.Failf("%s on shape %v [%s]: element %d = %v is not a non-negative number", sp.name, shape, cname, i, v)
									return
								}
							}
							for i, s := range sums.Data {
								if math.Abs(s-1) > 1e-12 {
									k.Failf("%s on shape %v [%s]: fibre %d along dim %d sums to %v", sp.name, shape, cname, i, sp.in.Dim, s)
									return
								}
							}
						}
					}
					k.Sample()
				})
			}
		}
	}
}

// subnormalMismatch: true unless every element equals the expected one up to one part in 1e12 or one unit in the last place of
// the subnormal grid (4.9e-324), the precision such tiny results have.
func subnormalMismatch(y tensor.Tensor, want *ref.T) bool {
	got, err := rt.Read(y)
	if err != nil || !ref.SameShape(got.Shape, want.Shape) {
		return true
	}
	for i := range want.Data {
		d := math.Abs(got.Data[i] - want.Data[i])
		if d > 1e-12*math.Abs(want.Data[i]) && d > 1e-323 {
			return true
		}
	}
	return false
}

// actPoison feeds the activation object a batch of the given shape holding +-Inf and NaN; whatever it
// answers (values, an error, even a panic) is outside the statement and is ignored. What is decided is
// that a LATER finite batch on the same object is still evaluated correctly.
func actPoison(k *fw.K, obj interface {
	Forward(...tensor.Tensor) (tensor.Tensor, error)
}, shape []int) {
	x := ref.Zeros(shape)
	for i := range x.Data {
		x.Data[i] = []float64{math.Inf(1), math.Inf(-1), math.NaN(), 1, -2, 1e308}[k.Rng.Intn(6)]
	}
	x.Data[k.Rng.Intn(len(x.Data))] = []float64{math.Inf(1), math.Inf(-1), math.NaN()}[k.Rng.Intn(3)]
	k.Count("non_finite_batches_fed_before_a_finite_one", 1)
	call(func() { _, _ = obj.Forward(rt.MustLeaf(x, k.Rng.Intn(2) == 0)) })
}

func leakyOf(m float64) (interface {
	Forward(...tensor.Tensor) (tensor.Tensor, error)
}, error) {
	conf := &activations.LeakyReluConfig{M: m}
	a := activations.NewLeakyRelu(conf)
	conf.M = 123
	return a, nil
}
