package props

import (
	"fmt"
	"hash/fnv"
	"math"
	"math/rand"
	"os"
	"path/filepath"
	"regexp"
	"runtime"
	"sort"
	"strings"
	"sync"
	"sync/atomic"
	"time"

	"github.com/sahandsafizadeh/qeep/component/initializers"
	"github.com/sahandsafizadeh/qeep/component/layers"
	"github.com/sahandsafizadeh/qeep/component/layers/activations"
	"github.com/sahandsafizadeh/qeep/component/losses"
	"github.com/sahandsafizadeh/qeep/component/optimizers"
	"github.com/sahandsafizadeh/qeep/tensor"

	"qeepverif/internal/fw"
	"qeepverif/internal/ref"
	"qeepverif/internal/rt"
)

// C20 — concurrent computations on shared tensors are race-free and deterministic.
// The driver is built with -race; children run with GORACE=halt_on_error=0 log_path=...;
// the verdict is the number of DATA RACE blocks in those logs (the canary's excluded).

func init() {
	fw.Register(&fw.Prop{
		ID: "C20",
		Rule: "race-detector monitor: each run builds a shared pool (tracked and untracked leaves, interior tracked results, spent tensors, gradient tensors, a large tensor, one FC layer with tracked parameters, activation and loss objects) and starts G in {2,4,8,16,32} goroutines under GOMAXPROCS in {1,2,4,16} behind a start barrier. Every goroutine executes its own seeded job list: random forward programs over pool tensors and its own results (all element-wise / shape / indexing / reduction / Dot / MatMul / Concat operations, implicit broadcasting between pool tensors of different shapes), whole-tensor reducers, comparisons and Equals, FC -> activation -> loss evaluation on the shared layer (graph construction over shared tracked parameters, never back-propagated), private graphs over private tracked leaves and shared UNTRACKED tensors that are back-propagated, and RandU / RandN / initializer calls; runtime.Gosched() and spins are injected between calls. " +
			"Oracle: zero DATA RACE reports in the detector logs (deduplicated by the pair of outermost library frames) and every job result bit-identical to the same job list executed sequentially afterwards (random constructors: shape and support only). A deliberately racy canary in the harness must be reported by the detector, otherwise the run is inconclusive. " +
			"Non-trivial: every run with >= 2 goroutines; distinct = (G, GOMAXPROCS, run seed). The evidence lists which pairs of entry points were observed overlapping in time on the same shared operand. Later additions: the five ways a shared untracked tensor can enter a private graph (Mul, ElMax, ElMin, Patch, Concat); shared tensors of 12 288..20 000 elements with magnitudes over 12 decades; never-used comparison masks and tensors with values at the edges of the float range (Exp overflow, Log 0) in the pool." +
			" Round 4: one optimizer object shared by all goroutines steps each goroutine's private tensor after its private back-propagation.",
		Assumptions: []string{
			"the Go race detector is happens-before based: it reports unsynchronised conflicting accesses of executed code whether or not they collide in time, and says nothing about code the workload did not execute",
			"no goroutine calls BackPropagate or ResetGradContext on a tensor reachable from another goroutine's graph (the statement's proviso)",
			"timestamps are used for the overlap statistics in the evidence only, never for the verdict; no shared atomic is touched between API calls (it would order the goroutines and hide races)",
		},
		FloorQuick: 100, FloorThor: 2000,
		Race:   true,
		Run:    runC20,
		Finish: finishC20,
	})
}

var c20CanaryCounter int

//go:noinline
func c20CanaryWrite() { c20CanaryCounter++ }

// c20Canary is a deliberately racy function: the detector must report it.
func c20Canary() {
	var wg sync.WaitGroup
	for i := 0; i < 2; i++ {
		wg.Add(1)
		go func() {
			defer wg.Done()
			for j := 0; j < 100; j++ {
				c20CanaryWrite()
			}
		}()
	}
	wg.Wait()
}

type c20pool struct {
	vals  []*ref.T
	ts    []tensor.Tensor
	kinds []string
	fc    *layers.FC
	acts  []interface {
		Forward(...tensor.Tensor) (tensor.Tensor, error)
	}
	mse  *losses.MSE
	bce  *losses.BCE
	ce   *losses.CE
	opt  *optimizers.SGD // one optimizer object shared by all goroutines, each stepping only its private tensors
	pair [2]int          // two same-shape untracked pool tensors used in both operand orders
	res  []int           // pool tensors that are results of earlier operations
	idx  []tensor.Range  // ONE full-length index value ({0,0} = whole dimension, then a window) that all goroutines pass to Slice / Patch, read-only
	D, O int
	// a parameter used at three places of a graph that was back-propagated BEFORE the pool was shared; nobody has read its gradient
	// yet: the first Gradient() calls come from several goroutines at once (reading a gradient is a read)
	spentParam tensor.Tensor
	spentGrad  *ref.T
}

func c20BuildPool(r *rand.Rand) (*c20pool, error) {
	p := &c20pool{}
	add := func(v *ref.T, t tensor.Tensor, kind string) {
		p.vals, p.ts, p.kinds = append(p.vals, v), append(p.ts, t), append(p.kinds, kind)
	}
	shapes := [][]int{{}, {3}, {3}, {2, 3}, {2, 3}, {1, 3}, {2, 1}, {2, 2, 3}, {3, 3}, {3, 3}, {4}}
	for i, s := range shapes {
		v := Shuffled(r, Unique(r, s, 0.2, 1.5))
		tr := i%2 == 0
		add(v, rt.MustLeaf(v, tr), map[bool]string{true: "tracked-leaf", false: "untracked-leaf"}[tr])
	}
	n := len(p.ts)
	for i := 0; i < n; i++ { // interior tracked results and untracked results
		v := p.vals[i].Map(math.Sin)
		add(v, p.ts[i].Sin(), "result-of-"+p.kinds[i])
	}
	// comparison masks that no operation has touched yet (their first use happens inside the goroutines)
	for i := 0; i+1 < n; i += 2 {
		if ref.SameShape(p.vals[i].Shape, p.vals[i+1].Shape) {
			m, err := p.ts[i].Gt(p.ts[i+1])
			if err != nil {
				return nil, err
			}
			mv, _ := ref.SameOp("gt", p.vals[i], p.vals[i+1])
			add(mv, m, "untracked-leaf") // a fresh, never-used comparison result; usable like any untracked tensor
		}
	}
	// values at the edges of the floating-point range: Exp overflows / underflows, Log of 0, products that overflow
	for _, s := range [][]int{{3}, {2, 3}} {
		ev := ref.Zeros(s)
		for i := range ev.Data {
			ev.Data[i] = []float64{750, -750, 710, 0, -0.0, 1e308, -1e308, 5e-324, 36}[(i+len(s))%9]
		}
		add(ev, rt.MustLeaf(ev, false), "extreme-values-leaf")
	}
	// spent tensors and gradient tensors: a graph back-propagated before the goroutines start
	sv := Shuffled(r, Unique(r, []int{2, 3}, 0.2, 1.5))
	s := rt.MustLeaf(sv, true)
	y := s.Tanh()
	if err := tensor.BackPropagate(y); err != nil {
		return nil, err
	}
	add(sv, s, "spent-leaf")
	add(sv.Map(math.Tanh), y, "spent-result")
	gv, err := rt.Read(s.Gradient())
	if err != nil {
		return nil, err
	}
	add(gv, s.Gradient(), "gradient-tensor")
	big := Shuffled(r, Unique(r, []int{64, 65}, 0.2, 1.5))
	add(big, rt.MustLeaf(big, false), "large-untracked-leaf")
	// >= 8192 / >= 16384 elements with order-sensitive values (mixed signs, magnitudes over 12 decades):
	// any reduction whose association order depends on scheduling shows up as a bit difference
	for _, s := range [][]int{{96, 128}, {100, 200}, {20000}} {
		h := Shuffled(r, Unique(r, s, 0.2, 1.5))
		for i := range h.Data {
			h.Data[i] *= math.Pow(10, float64(r.Intn(13)-6))
		}
		add(h, rt.MustLeaf(h, false), "huge-untracked-leaf")
	}
	// shared tensors that are RESULTS of earlier operations (reducers over a middle dimension of a rank-4/5 tensor, a rank-5
	// MatMul, Slice, Reshape, Transpose, Concat, Broadcast): whatever those operations left in them (slices with spare capacity,
	// cached counts, flags) is now read and extended by many goroutines at once
	{
		v4 := Shuffled(r, Unique(r, []int{2, 2, 3, 2}, 0.2, 1.5))
		t4 := rt.MustLeaf(v4, false)
		for _, d := range []struct {
			in ref.Instr
		}{{ref.Instr{Op: "sumalong", Dim: 2}}, {ref.Instr{Op: "maxalong", Dim: 1}}, {ref.Instr{Op: "varalong", Dim: 2}}, {ref.Instr{Op: "meanalong", Dim: 0}},
			{ref.Instr{Op: "slice", Index: []ref.Range{{From: 0, To: 1}, {From: 1, To: 2}}}}, {ref.Instr{Op: "reshape", Shape: []int{4, 6}}},
			{ref.Instr{Op: "transpose"}}, {ref.Instr{Op: "squeeze", Dim: 0, In: nil}}, {ref.Instr{Op: "flatten", Dim: 2}}, {ref.Instr{Op: "unsqueeze", Dim: 2}}} {
			if d.in.Op == "squeeze" {
				continue // no size-1 dimension here
			}
			rv, err := ref.Apply(d.in, []*ref.T{v4})
			if err != nil {
				return nil, err
			}
			rr, err := rt.Exec(d.in, []tensor.Tensor{t4})
			if err != nil {
				return nil, err
			}
			p.res = append(p.res, len(p.ts))
			add(rv, rr, "untracked-leaf")
		}
		a5 := Shuffled(r, Unique(r, []int{1, 2, 1, 2, 3}, 0.2, 1.5))
		b5 := Shuffled(r, Unique(r, []int{1, 2, 1, 3, 2}, 0.2, 1.5))
		mv, err := ref.Apply(ref.Instr{Op: "matmul"}, []*ref.T{a5, b5})
		if err != nil {
			return nil, err
		}
		mr, err := rt.MustLeaf(a5, false).MatMul(rt.MustLeaf(b5, false))
		if err != nil {
			return nil, err
		}
		p.res = append(p.res, len(p.ts))
		add(mv, mr, "untracked-leaf")
		cv, _ := ref.Apply(ref.Instr{Op: "concat", Dim: 0}, []*ref.T{p.vals[3], p.vals[4]})
		cr, err := tensor.Concat([]tensor.Tensor{rt.MustLeaf(p.vals[3], false), rt.MustLeaf(p.vals[4], false)}, 0)
		if err != nil {
			return nil, err
		}
		add(cv, cr, "untracked-leaf")
		bv, _ := ref.Apply(ref.Instr{Op: "broadcast", Shape: []int{2, 2, 3}}, []*ref.T{p.vals[5]})
		br, err := rt.MustLeaf(p.vals[5], false).Broadcast([]int{2, 2, 3})
		if err != nil {
			return nil, err
		}
		add(bv, br, "untracked-leaf")
	}
	// two same-shape untracked tensors that goroutines pass DIRECTLY to two-operand operations in opposite orders
	for q := 0; q < 2; q++ {
		v := Shuffled(r, Unique(r, []int{2, 3}, 0.2, 1.5))
		p.pair[q] = len(p.ts)
		add(v, rt.MustLeaf(v, false), "untracked-leaf")
	}
	p.D, p.O = 3, 2
	w, b := RandT(r, []int{p.O}, -1, 1), RandT(r, []int{p.O}, -1, 1)
	p.fc, err = layers.NewFC(&layers.FCConfig{Inputs: p.D, Outputs: p.O, Initializers: map[string]layers.Initializer{"Weight": fixedInit{w}, "Bias": fixedInit{b}}})
	if err == nil && r.Intn(2) == 0 {
		// the layer has a history before it is shared: it served a batch, was back-propagated through and its parameters were REPLACED by
		// an optimizer step and re-armed (one training step, then concurrent inference): whatever the layer derived from its old
		// parameters must not be what the goroutines' first Forward calls use
		var y tensor.Tensor
		if y, err = p.fc.Forward(rt.MustLeaf(RandT(r, []int{2, p.D}, -1, 1), false)); err == nil {
			if err = tensor.BackPropagate(y); err == nil {
				step := optimizers.NewSGD(&optimizers.SGDConfig{LearningRate: 0.5})
				for _, wp := range p.fc.Weights() {
					if err = step.Update(wp.Value); err != nil {
						break
					}
					(*wp.Value).ResetGradContext(true)
				}
			}
		}
	}
	if err != nil {
		return nil, err
	}
	sm, _ := activations.NewSoftmax(&activations.SoftmaxConfig{Dim: 1})
	p.acts = append(p.acts, activations.NewRelu(), activations.NewLeakyRelu(nil), activations.NewSigmoid(), activations.NewTanh(), sm)
	p.mse = losses.NewMSE()
	p.bce, p.ce = losses.NewBCE(), losses.NewCE()
	p.opt = optimizers.NewSGD(&optimizers.SGDConfig{LearningRate: 0.25})
	p.idx = []tensor.Range{{From: 0, To: 0}, {From: 1, To: 3}}
	{
		sh := [][]int{{3}, {2, 3}, {4}}[r.Intn(3)]
		wv := Shuffled(r, Unique(r, sh, 0.2, 1.5))
		w := rt.MustLeaf(wv, true)
		p.spentGrad = ref.Zeros(sh)
		var acc tensor.Tensor
		for q := 0; q < 3; q++ {
			xv := Shuffled(r, Unique(r, sh, 0.5, 2))
			y, err := w.Mul(rt.MustLeaf(xv, false))
			if err != nil {
				return nil, err
			}
			if acc == nil {
				acc = y
			} else if acc, err = acc.Add(y); err != nil {
				return nil, err
			}
			for i := range xv.Data {
				p.spentGrad.Data[i] += xv.Data[i]
			}
		}
		if err := tensor.BackPropagate(acc); err != nil {
			return nil, err
		}
		p.spentParam = w
	}
	return p, nil
}

type c20job struct {
	kind string
	prog ref.Prog // kind "program": indexes < len(pool) are pool tensors
	a, b int      // pool indexes
	seed int64
}

type c20span struct {
	entry    string
	operands []int
	t0, t1   time.Duration
}

func hashBits(h *[]uint64, t tensor.Tensor) error {
	x, err := rt.Read(t)
	if err != nil {
		return err
	}
	f := fnv.New64a()
	for _, d := range x.Shape {
		fmt.Fprintf(f, "%d,", d)
	}
	for _, v := range x.Data {
		b := math.Float64bits(v)
		var buf [8]byte
		for i := range buf {
			buf[i] = byte(b >> (8 * i))
		}
		f.Write(buf[:])
	}
	*h = append(*h, f.Sum64())
	return nil
}

func c20GenJobs(r *rand.Rand, p *c20pool, n int) []c20job {
	var jobs []c20job
	np := len(p.ts)
	for i := 0; i < n; i++ {
		switch q := r.Intn(10); {
		case q < 4: // a forward program over pool tensors and own results
			b := &progBuilder{r: r}
			for j := 0; j < np; j++ {
				b.p = append(b.p, ref.Instr{Op: "leaf", Shape: p.vals[j].Shape, Data: nil})
				b.vals = append(b.vals, p.vals[j])
				b.uses = append(b.uses, 0)
			}
			allowed := make([]int, 0, np)
			for j := 0; j < np; j++ {
				if len(p.vals[j].Data) <= 27 && p.kinds[j] != "extreme-values-leaf" {
					allowed = append(allowed, j)
				}
			}
			steps := 1 + r.Intn(6)
			for len(b.p)-np < steps {
				allowed = append(allowed, b.step(allowed)...)
			}
			jobs = append(jobs, c20job{kind: "program", prog: b.p})
		case q == 4:
			a := r.Intn(np)
			if r.Intn(2) == 0 { // prefer the large tensors
				for p.kinds[a] != "huge-untracked-leaf" && p.kinds[a] != "large-untracked-leaf" {
					a = (a + 1) % np
				}
			}
			jobs = append(jobs, c20job{kind: "reducers", a: a})
		case q == 5: // implicitly broadcasting arithmetic / comparisons between two pool tensors
			for {
				a, b := r.Intn(np), r.Intn(np)
				if _, err := ref.BroadcastShape(p.vals[a].Shape, p.vals[b].Shape); err == nil && len(p.vals[a].Data) <= 64 && len(p.vals[b].Data) <= 64 {
					jobs = append(jobs, c20job{kind: "broadcast-arith", a: a, b: b})
					break
				}
			}
		case q == 6 && r.Intn(5) == 0:
			a := r.Intn(np)
			for len(p.vals[a].Shape) < 2 || len(p.vals[a].Data) > 64 {
				a = (a + 1) % np
			}
			jobs = append(jobs, c20job{kind: "read-shared", a: a, seed: r.Int63()})
		case q == 6 && r.Intn(8) == 0:
			jobs = append(jobs, c20job{kind: "read-gradient"})
		case q == 6 && r.Intn(5) == 0:
			jobs = append(jobs, c20job{kind: "private-constants", seed: r.Int63()})
		case q == 6 && r.Intn(4) == 0:
			jobs = append(jobs, c20job{kind: "shared-index", seed: r.Int63(), a: p.pair[0]})
		case q == 6 && r.Intn(3) == 0:
			jobs = append(jobs, c20job{kind: "opposite-order", seed: r.Int63(), a: p.pair[0], b: p.pair[1]})
		case q == 6 && r.Intn(2) == 0:
			jobs = append(jobs, c20job{kind: "shape-ops-on-a-shared-result", a: p.res[r.Intn(len(p.res))]})
		case q == 6 && r.Intn(4) == 0:
			jobs = append(jobs, c20job{kind: "transpose-shared", seed: r.Int63()})
		case q == 6 && r.Intn(3) == 0:
			jobs = append(jobs, c20job{kind: "refused-ops", seed: r.Int63(), a: r.Intn(np)})
		case q == 6 && r.Intn(3) == 0:
			jobs = append(jobs, c20job{kind: "private-matmul", seed: r.Int63()})
		case q == 6 && r.Intn(2) == 0:
			jobs = append(jobs, c20job{kind: "shared-loss", seed: r.Int63()})
		case q == 6:
			jobs = append(jobs, c20job{kind: "layer", seed: r.Int63()})
		case q == 7 || q == 8:
			jobs = append(jobs, c20job{kind: "private-backprop", seed: r.Int63(), a: r.Intn(np)})
		case q == 9 && r.Intn(2) == 0:
			a := r.Intn(np)
			for p.kinds[a] != "extreme-values-leaf" {
				a = (a + 1) % np
			}
			jobs = append(jobs, c20job{kind: "extreme-elementwise", a: a})
		case q == 9 && r.Intn(3) == 0:
			a := r.Intn(np)
			for p.kinds[a] != "huge-untracked-leaf" {
				a = (a + 1) % np
			}
			jobs = append(jobs, c20job{kind: "huge-elementwise", a: a})
		default:
			jobs = append(jobs, c20job{kind: "random", seed: r.Int63()})
		}
	}
	return jobs
}

// c20Run executes one job list; spans are recorded only when rec != nil.
func c20Run(p *c20pool, jobs []c20job, inject *rand.Rand, start time.Time, rec *[]c20span) (out []uint64, err error) {
	np := len(p.ts)
	span := func(entry string, operands []int, f func() error) error {
		if inject != nil {
			switch inject.Intn(4) {
			case 0:
				runtime.Gosched()
			case 1:
				for i := 0; i < inject.Intn(200); i++ {
					_ = i * i
				}
			}
		}
		var t0 time.Duration
		if rec != nil {
			t0 = time.Since(start)
		}
		e := f()
		c20Progress.Add(1)
		if rec != nil {
			*rec = append(*rec, c20span{entry, operands, t0, time.Since(start)})
		}
		return e
	}
	for _, j := range jobs {
		switch j.kind {
		case "extreme-elementwise": // value-dependent paths: overflow, underflow, division by zero, Log(0)
			t := p.ts[j.a]
			sm, _ := activations.NewSoftmax(nil)
			var rs []tensor.Tensor
			if e := span("elementwise-on-extreme-values", []int{j.a}, func() (err error) {
				rs = append(rs, t.Exp(), t.Log(), t.Pow(2), t.Sinh(), t.Scale(10))
				for _, a := range []interface {
					Forward(...tensor.Tensor) (tensor.Tensor, error)
				}{activations.NewSigmoid(), activations.NewTanh(), sm, activations.NewRelu()} {
					y, err := a.Forward(t)
					if err != nil {
						return err
					}
					rs = append(rs, y)
				}
				d, err := t.Div(t)
				if err != nil {
					return err
				}
				rs = append(rs, d)
				return nil
			}); e != nil {
				return out, e
			}
			for _, r := range rs {
				if e := hashBits(&out, r); e != nil {
					return out, e
				}
			}
		case "shape-ops-on-a-shared-result": // every shape operation, at every position, on a shared tensor that earlier operations produced
			t := p.ts[j.a]
			shape := p.vals[j.a].Shape
			rank := len(shape)
			var ins []ref.Instr
			for d := 0; d <= rank; d++ {
				ins = append(ins, ref.Instr{Op: "unsqueeze", Dim: d})
			}
			for d := 0; d < rank; d++ {
				ins = append(ins, ref.Instr{Op: "flatten", Dim: d}, ref.Instr{Op: "sumalong", Dim: d})
				if shape[d] == 1 {
					ins = append(ins, ref.Instr{Op: "squeeze", Dim: d})
				}
			}
			ins = append(ins, ref.Instr{Op: "reshape", Shape: []int{ref.Prod(shape)}}, ref.Instr{Op: "broadcast", Shape: append([]int{2}, shape...)},
				ref.Instr{Op: "slice", Index: []ref.Range{{From: 0, To: 1}}})
			if rank >= 2 {
				ins = append(ins, ref.Instr{Op: "transpose"})
			}
			for _, in := range ins {
				var res tensor.Tensor
				if e := span(in.Op+"(shared result)", []int{j.a}, func() (err error) { res, err = rt.Exec(in, []tensor.Tensor{t}); return }); e != nil {
					return out, fmt.Errorf("%s on shared result %d of shape %v: %w", in.Op, j.a, shape, e)
				}
				if e := hashBits(&out, res); e != nil {
					return out, e
				}
			}
		case "read-shared": // every element of a SHARED tensor of rank >= 2 is read with At, rows in an order of the goroutine's own
			t := p.ts[j.a]
			shape := p.vals[j.a].Shape
			r := rand.New(rand.NewSource(j.seed))
			rows := r.Perm(shape[0])
			var sum []uint64
			if e := span("At/Shape/NElems(shared tensor)", []int{j.a}, func() error {
				idx := make([]int, len(shape))
				for _, row := range rows {
					idx[0] = row
					for off := 0; off < len(p.vals[j.a].Data)/shape[0]; off++ {
						rest := ref.Unravel(off, shape[1:])
						copy(idx[1:], rest)
						v, err := t.At(idx...)
						if err != nil {
							return err
						}
						if want := p.vals[j.a].Data[row*(len(p.vals[j.a].Data)/shape[0])+off]; math.Float64bits(v) != math.Float64bits(want) && !(v != v && want != want) {
							return fmt.Errorf("At%v on shared tensor %d returned %v, the tensor holds %v there", idx, j.a, v, want)
						}
						sum = append(sum, math.Float64bits(v))
					}
				}
				if t.NElems() != len(p.vals[j.a].Data) || !ref.SameShape(t.Shape(), shape) {
					return fmt.Errorf("Shape/NElems of shared tensor %d changed", j.a)
				}
				return nil
			}); e != nil {
				return out, e
			}
			sort.Slice(sum, func(a, b int) bool { return sum[a] < sum[b] })
			out = append(out, sum...)
		case "read-gradient": // Gradient() of a shared, already back-propagated parameter, and a computation on it
			if e := span("Gradient(shared spent parameter)", []int{-2}, func() error {
				g := p.spentParam.Gradient()
				if g == nil {
					return fmt.Errorf("Gradient() of the shared back-propagated parameter is nil")
				}
				gv, err := rt.Read(g)
				if err != nil {
					return err
				}
				if e := rt.CompareRef(gv, p.spentGrad, 1e-12, 1e-12, nil, 0); e != nil {
					return fmt.Errorf("Gradient() of the shared back-propagated parameter (three shares): %v", e)
				}
				out = append(out, math.Float64bits(g.Scale(1).Sum()))
				for _, v := range gv.Data {
					out = append(out, math.Float64bits(v))
				}
				return nil
			}); e != nil {
				return out, e
			}
		case "private-constants": // every goroutine builds ITS OWN constants with the same arguments as everybody else; they are independent objects
			r := rand.New(rand.NewSource(j.seed))
			trainer := r.Intn(2) == 0
			if e := span("Eye/Ones/Full(private, same arguments in every goroutine)", nil, func() error {
				for ci, mk := range []func() (tensor.Tensor, error){
					func() (tensor.Tensor, error) { return tensor.Eye(3, nil) },
					func() (tensor.Tensor, error) { return tensor.Ones([]int{3, 3}, nil) },
					func() (tensor.Tensor, error) { return tensor.Full([]int{3, 3}, 2, nil) },
					func() (tensor.Tensor, error) { return tensor.Zeros([]int{3, 3}, nil) },
				} {
					c, err := mk()
					if err != nil {
						return err
					}
					if trainer { // this goroutine makes its constant a parameter of its own and trains it
						c.ResetGradContext(true)
						if err := tensor.BackPropagate(c.Scale(2)); err != nil {
							return err
						}
						if c.Gradient() == nil {
							return fmt.Errorf("constant %d re-armed as a private parameter received no gradient", ci)
						}
						continue
					}
					w := rt.MustLeaf(RandT(r, []int{3, 3}, -1, 1), true)
					y, err := w.MatMul(c)
					if err != nil {
						return err
					}
					if err := tensor.BackPropagate(y); err != nil {
						return err
					}
					if w.Gradient() == nil {
						return fmt.Errorf("private tracked operand of a product with a private constant (kind %d) received no gradient", ci)
					}
					if c.Gradient() != nil {
						return fmt.Errorf("a private untracked constant (kind %d) carries a gradient", ci)
					}
					if e := hashBits(&out, w.Gradient()); e != nil {
						return e
					}
				}
				return nil
			}); e != nil {
				return out, e
			}
		case "shared-index": // one []Range value shared by all goroutines (nobody writes to it) indexes shared and private tensors of different sizes
			r := rand.New(rand.NewSource(j.seed))
			rows := 1 + r.Intn(4)
			priv := rt.MustLeaf(RandT(r, []int{rows, 3}, -1, 1), false)
			for _, t := range []tensor.Tensor{p.ts[j.a], priv} {
				var sl, pa tensor.Tensor
				if e := span("Slice/Patch(shared index value)", []int{j.a}, func() (err error) {
					if sl, err = t.Slice(p.idx); err != nil {
						return
					}
					pa, err = t.Patch(p.idx, sl)
					return
				}); e != nil {
					return out, e
				}
				if e := hashBits(&out, sl); e != nil {
					return out, e
				}
				if e := hashBits(&out, pa); e != nil {
					return out, e
				}
			}
		case "opposite-order": // the same two shared tensors as direct operands, in an order that differs between goroutines
			a, b := p.ts[j.a], p.ts[j.b]
			ia, ib := j.a, j.b
			if j.seed%2 == 0 {
				a, b, ia, ib = b, a, ib, ia
			}
			for it := 0; it < 120; it++ {
				var rs [4]tensor.Tensor
				if e := span("ElMax/ElMin/Patch/Concat(direct operands)", []int{ia, ib}, func() (err error) {
					if rs[0], err = a.ElMax(b); err != nil {
						return
					}
					if rs[1], err = a.ElMin(b); err != nil {
						return
					}
					if rs[2], err = a.Patch(nil, b); err != nil {
						return
					}
					rs[3], err = tensor.Concat([]tensor.Tensor{a, b}, 0)
					return
				}); e != nil {
					return out, e
				}
				if it%40 == 0 {
					for _, r := range rs {
						if e := hashBits(&out, r); e != nil {
							return out, e
						}
					}
				}
			}
		case "huge-elementwise":
			t := p.ts[j.a]
			var res tensor.Tensor
			if e := span("elementwise-on-huge", []int{j.a}, func() (err error) {
				res, err = t.Tanh().Mul(t)
				return
			}); e != nil {
				return out, e
			}
			out = append(out, math.Float64bits(res.Sum()), math.Float64bits(res.Std()))
		case "program":
			ts := make([]tensor.Tensor, len(j.prog))
			copy(ts, p.ts)
			for i := np; i < len(j.prog); i++ {
				in := j.prog[i]
				xs := make([]tensor.Tensor, len(in.In))
				var shared []int
				for q, x := range in.In {
					xs[q] = ts[x]
					if x < np {
						shared = append(shared, x)
					}
				}
				if e := span(in.Op, shared, func() error {
					t, err := rt.Exec(in, xs)
					ts[i] = t
					return err
				}); e != nil {
					return out, fmt.Errorf("%s%v: %w", in.Op, in.In, e)
				}
				if e := hashBits(&out, ts[i]); e != nil {
					return out, e
				}
			}
		case "reducers":
			t := p.ts[j.a]
			span("reducers", []int{j.a}, func() error {
				for _, v := range []float64{t.Sum(), t.Max(), t.Min(), t.Avg(), t.Var(), t.Std(), t.Mean(), float64(t.NElems())} {
					out = append(out, math.Float64bits(v))
				}
				return nil
			})
			if r := len(t.Shape()); r >= 1 {
				for _, f := range []func(int) (tensor.Tensor, error){t.SumAlong, t.MaxAlong, t.VarAlong, t.StdAlong} {
					var res tensor.Tensor
					if e := span("along", []int{j.a}, func() (err error) { res, err = f(r - 1); return }); e != nil {
						return out, e
					}
					if e := hashBits(&out, res); e != nil {
						return out, e
					}
				}
			}
		case "broadcast-arith":
			a, b := p.ts[j.a], p.ts[j.b]
			for name, f := range map[string]func(tensor.Tensor) (tensor.Tensor, error){"Add": a.Add, "Mul": a.Mul, "Sub": a.Sub, "Div": a.Div} {
				var res tensor.Tensor
				if e := span(name, []int{j.a, j.b}, func() (err error) { res, err = f(b); return }); e != nil {
					return out, e
				}
				var h []uint64
				if e := hashBits(&h, res); e != nil {
					return out, e
				}
				out = append(out, h[0]^uint64(len(name)))
			}
			sort.Slice(out[len(out)-4:], func(x, y int) bool { return out[len(out)-4+x] < out[len(out)-4+y] }) // map order is random
			if ref.SameShape(p.vals[j.a].Shape, p.vals[j.b].Shape) {
				var res tensor.Tensor
				var eq bool
				if e := span("Gt/Equals", []int{j.a, j.b}, func() (err error) {
					if res, err = a.Gt(b); err != nil {
						return
					}
					eq, err = a.Equals(b)
					return
				}); e != nil {
					return out, e
				}
				if e := hashBits(&out, res); e != nil {
					return out, e
				}
				if eq {
					out = append(out, 1)
				}
			}
		case "layer": // FC -> activation -> loss on the shared layer: graph construction over shared tracked parameters
			r := rand.New(rand.NewSource(j.seed))
			B := 1 + r.Intn(4)
			x := rt.MustLeaf(RandT(r, []int{B, p.D}, -1, 1), false)
			t := rt.MustLeaf(RandT(r, []int{B * p.O}, -1, 1), false)
			act := p.acts[r.Intn(len(p.acts))]
			var l tensor.Tensor
			if e := span("FC/activation/loss", []int{-1}, func() error {
				y, err := p.fc.Forward(x)
				if err != nil {
					return err
				}
				if y, err = act.Forward(y); err != nil {
					return err
				}
				if y, err = y.Flatten(0); err != nil {
					return err
				}
				l, err = p.mse.Compute(y, t)
				return err
			}); e != nil {
				return out, e
			}
			if e := hashBits(&out, l); e != nil {
				return out, e
			}
		case "transpose-shared": // the same cheap operation on DIFFERENT shared tensors in quick alternation, hundreds of times: each call answers for its own receiver
			r := rand.New(rand.NewSource(j.seed))
			var cands []int
			for i := range p.ts {
				if len(p.vals[i].Shape) >= 2 && len(p.vals[i].Data) <= 12 && (p.kinds[i] == "untracked-leaf" || p.kinds[i] == "result-of-untracked-leaf") {
					cands = append(cands, i)
				}
			}
			if len(cands) < 2 {
				break
			}
			for rep := 0; rep < 6; rep++ {
				// a tight burst (no yields in between): 1500 calls alternating between two or three shared untracked receivers
				picks := []int{cands[r.Intn(len(cands))], cands[r.Intn(len(cands))], cands[r.Intn(len(cands))]}
				op := r.Intn(3)
				var ys []tensor.Tensor
				if e := span("alternating-shape-op-burst", picks, func() (err error) {
					for q := 0; q < 1500 && err == nil; q++ {
						var y tensor.Tensor
						a := picks[q%len(picks)]
						switch op {
						case 0, 1:
							y, err = p.ts[a].Transpose()
						default:
							y, err = p.ts[a].Flatten(0)
						}
						ys = append(ys, y)
					}
					return err
				}); e != nil {
					return out, e
				}
				for _, y := range ys {
					if e := hashBits(&out, y); e != nil {
						return out, e
					}
				}
			}
		case "refused-ops": // operations the library must REFUSE (incompatible shapes, bad arguments), made concurrently with sizes that differ per goroutine: the error each one gets is its own
			r := rand.New(rand.NewSource(j.seed))
			for rep := 0; rep < 4; rep++ {
				n := 5 + r.Intn(40)
				priv := rt.MustLeaf(RandT(r, []int{n}, -1, 1), false)
				other := rt.MustLeaf(RandT(r, []int{n + 1 + r.Intn(3)}, -1, 1), false)
				var err error
				what := ""
				if e := span("refused-operation", []int{j.a}, func() error {
					switch r.Intn(6) {
					case 0:
						what = "Add of incompatible lengths"
						_, err = priv.Add(other)
					case 1:
						what = "Eq of incompatible lengths"
						_, err = other.Eq(priv)
					case 2:
						what = "Broadcast to an incompatible shape"
						_, err = priv.Broadcast([]int{2, n + 1})
					case 3:
						what = "Reshape to another element count"
						_, err = priv.Reshape([]int{n + 2})
					case 4:
						what = "shared tensor against a private one of incompatible shape"
						_, err = p.ts[j.a].Mul(rt.MustLeaf(RandT(r, []int{7, 11 + r.Intn(5)}, -1, 1), false))
					default:
						what = "Slice beyond the end"
						_, err = priv.Slice([]tensor.Range{{From: 0, To: n + 1 + r.Intn(4)}})
					}
					return nil
				}); e != nil {
					return out, e
				}
				if err == nil {
					if what != "shared tensor against a private one of incompatible shape" {
						return out, fmt.Errorf("%s (length %d) was accepted", what, n)
					}
					out = append(out, 0)
					continue
				}
				h := uint64(14695981039346656037)
				for _, c := range []byte(err.Error()) {
					h = (h ^ uint64(c)) * 1099511628211
				}
				out = append(out, h)
			}
		case "private-matmul": // products of PRIVATE matrices with real entries and contractions of 4..9 terms: the rounding of a sum must not depend on what other goroutines do
			r := rand.New(rand.NewSource(j.seed))
			m, n, kk := 1+r.Intn(4), 4+r.Intn(6), 1+r.Intn(4)
			if r.Intn(2) == 0 { // large enough for several goroutines to be inside the kernel at the same moment
				m, n, kk = 8+r.Intn(17), 16+r.Intn(49), 8+r.Intn(17)
			} else if r.Intn(3) == 0 { // a row times a column (a 1x1 product) before the ordinary ones of this and the other goroutines
				m, kk = 1, 1
			}
			a := rt.MustLeaf(RandT(r, []int{m, n}, -3, 3), false)
			b := rt.MustLeaf(RandT(r, []int{n, kk}, -3, 3), r.Intn(2) == 0)
			v := rt.MustLeaf(RandT(r, []int{m, n}, -3, 3), false)
			var y, d tensor.Tensor
			if e := span("private-MatMul/Dot", []int{-1}, func() (err error) {
				if y, err = a.MatMul(b); err == nil {
					d, err = a.Dot(v)
				}
				return err
			}); e != nil {
				return out, e
			}
			if e := hashBits(&out, y); e != nil {
				return out, e
			}
			if e := hashBits(&out, d); e != nil {
				return out, e
			}
		case "shared-loss": // ONE BCE / CE / MSE object evaluated by every goroutine on PRIVATE batches whose shapes differ between goroutines and calls
			r := rand.New(rand.NewSource(j.seed))
			for rep := 0; rep < 3; rep++ {
				kind := []string{"bce", "ce", "mse"}[r.Intn(3)]
				shape := []int{1 + r.Intn(7)}
				if kind == "ce" {
					shape = []int{1 + r.Intn(4), 1 + r.Intn(4)}
				}
				yp := rt.MustLeaf(RandT(r, shape, 0.05, 0.95), r.Intn(2) == 0)
				yt := rt.MustLeaf(RandT(r, shape, 0, 1), false)
				if kind != "ce" && r.Intn(3) == 0 {
					// the TARGET is a shared tensor of the pool (a tracked prototype every goroutine regresses against, or an untracked one):
					// evaluating a loss against it is a forward computation on a shared tensor
					shape = []int{3}
					yp, yt = rt.MustLeaf(RandT(r, shape, 0.05, 0.95), r.Intn(2) == 0), p.ts[1+r.Intn(2)]
				}
				var l tensor.Tensor
				if e := span("shared-loss-object/"+kind, []int{-1}, func() (err error) {
					switch kind {
					case "bce":
						l, err = p.bce.Compute(yp, yt)
					case "ce":
						l, err = p.ce.Compute(yp, yt)
					default:
						l, err = p.mse.Compute(yp, yt)
					}
					return err
				}); e != nil {
					return out, e
				}
				if e := hashBits(&out, l); e != nil {
					return out, e
				}
			}
		case "private-backprop": // private tracked leaves + a shared UNTRACKED tensor, back-propagated
			r := rand.New(rand.NewSource(j.seed))
			u := j.a
			for p.kinds[u] != "untracked-leaf" && p.kinds[u] != "result-of-untracked-leaf" {
				u = (u + 1) % np
			}
			shape := p.vals[u].Shape
			w := rt.MustLeaf(RandT(r, shape, -1, 1), true)
			variant := r.Intn(8)
			if e := span("private-graph+BackPropagate", []int{u}, func() error {
				// the shared untracked tensor enters the private graph through an implicitly broadcasting
				// operation or DIRECTLY as an operand of ElMax / ElMin / Patch / Concat
				var h tensor.Tensor
				var err error
				switch {
				case variant == 1:
					h, err = w.ElMax(p.ts[u])
				case variant == 2:
					h, err = p.ts[u].ElMin(w)
				case variant == 3:
					h, err = w.Patch(nil, p.ts[u])
					if err == nil {
						h, err = h.Add(w)
					}
				case variant == 4 && len(shape) >= 1:
					h, err = tensor.Concat([]tensor.Tensor{w, p.ts[u]}, 0)
					if err == nil {
						h, err = h.Slice([]tensor.Range{{From: 0, To: shape[0]}})
					}
				case variant == 7: // a PRIVATE tensor derived from the shared untracked one is made a trainable leaf (ResetGradContext on one's own
					// tensor) and trained: the shared constant it was computed from stays what it is for everybody else
					pv := p.ts[u].Scale(0.5)
					pv.ResetGradContext(true)
					if h, err = pv.Mul(w); err == nil {
						h, err = h.Add(p.ts[u])
					}
				case variant == 6: // FIVE shares of different, rounding-sensitive sizes reach w from five contexts of one generation: the order in
					// which they are added decides the last bits, so it has to be the same order every time (0.1 + 0.2 + 0.3 is not 0.3 + 0.2 + 0.1)
					var acc tensor.Tensor
					for q, f := range []float64{0.1, 0.2, 0.3, 0.7, 1e-3} {
						var part tensor.Tensor
						if part, err = w.Scale(f).Mul(p.ts[u]); err != nil {
							break
						}
						if q == 0 {
							acc = part
						} else if acc, err = acc.Add(part); err != nil {
							break
						}
					}
					h = acc
				case variant == 5 && len(shape) >= 1: // ONE private tracked node at four operand positions of one operation (four shares for one tensor)
					var hs tensor.Tensor
					if hs, err = w.Mul(p.ts[u]); err == nil {
						if h, err = tensor.Concat([]tensor.Tensor{hs, hs, hs, hs}, 0); err == nil {
							if h, err = h.Slice([]tensor.Range{{From: shape[0], To: 2 * shape[0]}}); err == nil {
								var m tensor.Tensor
								if m, err = hs.ElMax(hs); err == nil {
									h, err = h.Add(m)
								}
							}
						}
					}
				default:
					h, err = w.Mul(p.ts[u])
				}
				if err != nil {
					return err
				}
				h2, err := h.Tanh().Add(w)
				if err != nil {
					return err
				}
				h3, err := h2.Mul(h)
				if err != nil {
					return err
				}
				return tensor.BackPropagate(h3)
			}); e != nil {
				return out, e
			}
			if w.Gradient() == nil {
				return out, fmt.Errorf("private leaf received no gradient")
			}
			// BackPropagate from a private UNTRACKED root computed from the shared untracked tensor (it is the first operand):
			// by C08 this changes nothing - in particular it must not touch the shared tensor other goroutines build graphs on
			if e := span("BackPropagate(private untracked root over a shared untracked tensor)", []int{u}, func() error {
				frozen := rt.MustLeaf(RandT(r, shape, -1, 1), false)
				e1, err := p.ts[u].Mul(frozen)
				if err != nil {
					return err
				}
				if err := tensor.BackPropagate(e1.Tanh()); err != nil {
					return err
				}
				return tensor.BackPropagate(p.ts[u].Scale(2))
			}); e != nil {
				return out, e
			}
			if e := hashBits(&out, w.Gradient()); e != nil {
				return out, e
			}
			if p.ts[u].Gradient() != nil {
				return out, fmt.Errorf("shared untracked tensor %d received a gradient", u)
			}
			// the private leaf is stepped through the optimizer object that all goroutines share
			wp := w
			if e := span("shared-optimizer.Update(private tensor)", nil, func() error { return p.opt.Update(&wp) }); e != nil {
				return out, e
			}
			if wp == w || wp == nil {
				return out, fmt.Errorf("Update did not replace the private tensor")
			}
			if e := hashBits(&out, wp); e != nil {
				return out, e
			}
		case "random":
			r := rand.New(rand.NewSource(j.seed))
			shape := RandShape(r, 0, 3, 3)
			var a, b, c tensor.Tensor
			if e := span("RandU/RandN/initializer", nil, func() (err error) {
				if a, err = tensor.RandU(ref.CopyInts(shape), -1, 2, nil); err != nil {
					return
				}
				if b, err = tensor.RandN(ref.CopyInts(shape), 0, 1, nil); err != nil {
					return
				}
				xu, err := initializers.NewXavierUniform(&initializers.XavierUniformConfig{FanIn: 2, FanOut: 1})
				if err != nil {
					return err
				}
				c, err = xu.Init(ref.CopyInts(shape))
				return
			}); e != nil {
				return out, e
			}
			av, e1 := rt.Read(a)
			bv, e2 := rt.Read(b)
			cv, e3 := rt.Read(c)
			if e1 != nil || e2 != nil || e3 != nil || !ref.SameShape(av.Shape, shape) || !ref.SameShape(bv.Shape, shape) || !ref.SameShape(cv.Shape, shape) {
				return out, fmt.Errorf("random constructors: wrong shape or unreadable (%v %v %v)", e1, e2, e3)
			}
			for i := range av.Data {
				if !(av.Data[i] >= -1 && av.Data[i] < 2) || math.IsNaN(bv.Data[i]) || !(math.Abs(cv.Data[i]) <= math.Sqrt2) {
					return out, fmt.Errorf("random constructors: value outside the support: %v %v %v", av.Data[i], bv.Data[i], cv.Data[i])
				}
			}
		}
	}
	return out, nil
}

// c20Storm: far more goroutines than processors (128 / 256), all inside reducers, layer and loss evaluation on ONE shared
// tensor at once: whatever bounded resource the library might hold while building a result (slots, pooled buffers) is
// over-subscribed; every goroutine must still get the sequential result and nobody may block for good.
func c20Storm(k *fw.K, G int) {
	c20FirstUse(k)
	k.Case = map[string]any{"scenario": "reducer / layer storm on one shared tensor", "goroutines": G}
	k.Key("storm/G%d", G)
	pool, err := c20BuildPool(k.Rng)
	if err != nil {
		k.Failf("building the shared pool failed: %v", err)
		return
	}
	a := 0
	for pool.kinds[a] != "large-untracked-leaf" {
		a++
	}
	jobs := []c20job{{kind: "reducers", a: a}, {kind: "layer", seed: 7}, {kind: "private-matmul", seed: 4}, {kind: "reducers", a: 3}, {kind: "layer", seed: 11},
		{kind: "private-matmul", seed: 21}, {kind: "shared-loss", seed: 5}, {kind: "refused-ops", seed: 9, a: 3}, {kind: "transpose-shared", seed: 13}}
	want, err := c20Run(pool, jobs, nil, time.Now(), nil)
	if err != nil {
		k.Failf("sequential reference run failed: %v", err)
		return
	}
	results := make([][]uint64, G)
	errs := make([]error, G)
	startCh := make(chan struct{})
	var wg sync.WaitGroup
	for g := 0; g < G; g++ {
		wg.Add(1)
		go func(g int) {
			defer wg.Done()
			defer func() {
				if r := recover(); r != nil {
					errs[g] = fmt.Errorf("PANIC in goroutine %d: %v", g, r)
				}
			}()
			<-startCh
			results[g], errs[g] = c20Run(pool, jobs, nil, time.Now(), nil)
		}(g)
	}
	close(startCh)
	stop := c20StallMonitor(fmt.Sprintf("case %d (storm of %d goroutines)", k.Index, G))
	wg.Wait()
	close(stop)
	for g := range results {
		if errs[g] != nil {
			k.Failf("goroutine %d of %d: %v", g, G, errs[g])
			return
		}
		if len(results[g]) != len(want) {
			k.Failf("goroutine %d of %d produced %d results, the sequential run %d", g, G, len(results[g]), len(want))
			return
		}
		for i := range want {
			if results[g][i] != want[i] {
				k.Failf("goroutine %d of %d: result %d differs from the sequential execution of the same jobs", g, G, i)
				return
			}
		}
	}
	k.Count("goroutines_run", int64(G))
	k.Count("results_compared_with_sequential_run", int64(G*len(want)))
}

// c20FirstUse runs ONCE per child process, before the process has touched the library in any other way: 16 goroutines released
// together make the very first constructor calls with explicit configs. Whatever the library initialises lazily on first use
// is initialised under contention here; every call must succeed and the race detector watches.
var c20Once sync.Once

func c20FirstUse(k *fw.K) {
	c20Once.Do(func() {
		const G = 16
		errs := make([]error, G)
		gate := make(chan struct{})
		var wg sync.WaitGroup
		for g := 0; g < G; g++ {
			wg.Add(1)
			go func(g int) {
				defer wg.Done()
				conf := &tensor.Config{Device: tensor.CPU, GradTrack: g%2 == 0}
				<-gate
				var err error
				switch g % 5 {
				case 0:
					_, err = tensor.RandN([]int{2, 3}, 0, 1, conf)
				case 1:
					_, err = tensor.RandU([]int{3}, 0, 1, conf)
				case 2:
					_, err = tensor.Full([]int{2}, 1.5, conf)
				case 3:
					_, err = tensor.TensorOf([]float64{1, 2}, conf)
				default:
					_, err = tensor.Eye(2, conf)
				}
				errs[g] = err
			}(g)
		}
		close(gate)
		wg.Wait()
		k.Count("processes_whose_first_library_calls_were_concurrent", 1)
		for g, e := range errs {
			if e != nil {
				k.Failf("the first library calls of the process, made by %d goroutines at once: call %d failed: %v", G, g, e)
				return
			}
		}
	})
}

func runC20(c *fw.Ctx) {
	rt.NoSharedConf.Store(true) // tensors are created from several goroutines here
	c20Canary()
	for _, G := range []int{128, 256} {
		G := G
		c.Case(func(k *fw.K) { c20Storm(k, G) })
	}
	Gs := []int{2, 4, 8, 16, 32}
	if !c.Quick() {
		Gs = append(Gs, 64)
	}
	Ps := []int{1, 2, 4, 16}
	runs := c.Pick(160, 4000)
	for i := 0; i < runs; i++ {
		i := i
		c.Case(func(k *fw.K) {
			G, P := Gs[i%len(Gs)], Ps[(i/len(Gs))%len(Ps)]
			// 9 is coprime to the number of shards and to len(Gs): focused runs meet every G, every P and every shard (the quick tier, with
			// its 160 runs, takes two residues: 35 focused runs, about six per kind of job)
			focused := i%9 == 8 || (c.Quick() && i%9 == 3)
			if focused && G > 32 {
				G = 32 // eight jobs of one kind per goroutine: 32 goroutines already keep every processor inside that kind of job
			}
			c20FirstUse(k)
			k.Case = map[string]any{"goroutines": G, "GOMAXPROCS": P, "run": i}
			k.Key("G%d/P%d/run%d", G, P, i)
			old := runtime.GOMAXPROCS(P)
			defer runtime.GOMAXPROCS(old)
			pool, err := c20BuildPool(k.Rng)
			if err != nil {
				k.Failf("building the shared pool failed: %v", err)
				return
			}
			jobs := make([][]c20job, G)
			seeds := make([]int64, G)
			for g := range jobs {
				jobs[g] = c20GenJobs(k.Rng, pool, 6+k.Rng.Intn(10))
				seeds[g] = k.Rng.Int63()
			}
			if focused {
				// focused runs: every goroutine does jobs of ONE kind at the same time (with its own seeds), so that the windows of that
				// kind - a shared loss object rebuilt for another batch shape, shape operations on one shared result, transposes of one
				// shared tensor, private products - overlap in every run instead of once in a while
				kind := []string{"shared-loss", "shape-ops-on-a-shared-result", "transpose-shared", "private-matmul", "read-gradient", "layer"}[(i/9+i%9)%6]
				for g := range jobs {
					jobs[g] = jobs[g][:0]
					for n := 0; n < 8; n++ {
						j := c20job{kind: kind, seed: k.Rng.Int63()}
						if kind == "shape-ops-on-a-shared-result" {
							j.a = pool.res[k.Rng.Intn(len(pool.res))]
						}
						jobs[g] = append(jobs[g], j)
					}
				}
				k.Count("focused_runs_"+kind, 1)
			}
			results := make([][]uint64, G)
			errs := make([]error, G)
			spans := make([][]c20span, G)
			startCh := make(chan struct{})
			var wg sync.WaitGroup
			start := time.Now()
			for g := 0; g < G; g++ {
				wg.Add(1)
				go func(g int) {
					defer wg.Done()
					defer func() {
						if r := recover(); r != nil {
							errs[g] = fmt.Errorf("PANIC in goroutine %d: %v", g, r)
						}
					}()
					<-startCh
					results[g], errs[g] = c20Run(pool, jobs[g], rand.New(rand.NewSource(seeds[g])), start, &spans[g])
				}(g)
			}
			close(startCh)
			stop := c20StallMonitor(fmt.Sprintf("case %d (G=%d, GOMAXPROCS=%d)", k.Index, G, P))
			wg.Wait()
			close(stop)
			for g, e := range errs {
				if e != nil {
					k.Failf("goroutine %d of %d (GOMAXPROCS %d): %v", g, G, P, e)
					return
				}
			}
			// the same job lists, sequentially
			for g := 0; g < G; g++ {
				var seq []uint64
				var e error
				if p := call(func() { seq, e = c20Run(pool, jobs[g], nil, start, nil) }); p != nil || e != nil {
					k.Failf("sequential re-execution of goroutine %d's jobs failed: panic=%v err=%v", g, p, e)
					return
				}
				if len(seq) != len(results[g]) {
					k.Failf("goroutine %d produced %d results concurrently and %d sequentially", g, len(results[g]), len(seq))
					return
				}
				for i := range seq {
					if seq[i] != results[g][i] {
						k.Failf("goroutine %d of %d (GOMAXPROCS %d): result %d differs between the concurrent run and the sequential execution of the same jobs", g, G, P, i)
						return
					}
				}
				k.Count("results_compared_with_sequential_run", int64(len(seq)))
			}
			// nothing the goroutines did was a back-propagation through, or a reset of, a shared tracked tensor: each is still the fresh
			// tracked leaf it was when the pool was built
			for i, kind := range pool.kinds {
				if kind != "tracked-leaf" {
					continue
				}
				if st, ok := tensor.VerifGradState(pool.ts[i]); ok && (!st.Tracked || st.BPDirty) || pool.ts[i].Gradient() != nil {
					k.Failf("shared tracked tensor %d of the pool is no longer a fresh tracked leaf after the concurrent forward computations (tracked=%v spent=%v, gradient nil=%v)", i, st.Tracked, st.BPDirty, pool.ts[i].Gradient() == nil)
					return
				}
			}
			// overlap statistics (evidence only)
			type ev struct {
				g int
				s c20span
			}
			byOperand := map[int][]ev{}
			nops := 0
			for g := range spans {
				for _, s := range spans[g] {
					nops++
					k.Add("entry_points_run_concurrently", "%s", s.entry)
					for _, o := range s.operands {
						byOperand[o] = append(byOperand[o], ev{g, s})
					}
				}
			}
			overlaps := 0
			for _, evs := range byOperand {
				for a := 0; a < len(evs) && a < 400; a++ {
					for b := a + 1; b < len(evs) && b < 400; b++ {
						if evs[a].g != evs[b].g && evs[a].s.t0 < evs[b].s.t1 && evs[b].s.t0 < evs[a].s.t1 {
							overlaps++
							x, y := evs[a].s.entry, evs[b].s.entry
							if x > y {
								x, y = y, x
							}
							k.Add("overlapping_pairs_on_a_shared_operand", "%s || %s", x, y)
						}
					}
				}
			}
			k.Count("api_calls_in_goroutines", int64(nops))
			k.Count("overlapping_pairs_on_a_shared_operand", int64(overlaps))
			k.Count("goroutines_run", int64(G))
			if i < 2 {
				k.Sample()
			}
		})
	}
}

// c20Progress counts completed library calls of the concurrent phase.
var c20Progress atomic.Int64

// c20StallMonitor is the deadlock monitor. It looks (every 2 s) whether the goroutines still complete calls. Only after
// 10 consecutive looks without a single completed call does it take a dump of all goroutines, and it reports a deadlock only
// if that dump shows at least two goroutines BLOCKED in a synchronisation primitive (mutex, semaphore, channel, condition)
// with a frame of the library on their stack. A slow or descheduled machine does not produce that state (the unchanged library
// has no locks or channels at all), so the verdict rests on the observed blocked state, not on elapsed time; elapsed time only
// decides when to look. The process then exits: the parent reports the dying child, with this output, as the witness.
func c20StallMonitor(what string) chan struct{} {
	stop := make(chan struct{})
	go func() {
		last, still := c20Progress.Load(), 0
		for {
			select {
			case <-stop:
				return
			case <-time.After(2 * time.Second):
			}
			now := c20Progress.Load()
			if now != last {
				last, still = now, 0
				continue
			}
			if still++; still < 10 {
				continue
			}
			buf := make([]byte, 4<<20)
			buf = buf[:runtime.Stack(buf, true)]
			blocked := 0
			var witness []string
			for _, g := range strings.Split(string(buf), "\n\n") {
				head := g
				if i := strings.IndexByte(g, '\n'); i >= 0 {
					head = g[:i]
				}
				waiting := false
				for _, st := range []string{"[sync.Mutex.Lock", "[sync.RWMutex.", "[semacquire", "[chan receive", "[chan send", "[select", "[sync.Cond.Wait"} {
					waiting = waiting || strings.Contains(head, st)
				}
				if waiting && strings.Contains(g, "github.com/sahandsafizadeh/qeep/") {
					blocked++
					if len(witness) < 2 {
						witness = append(witness, g)
					}
				}
			}
			if blocked >= 2 {
				fmt.Fprintf(os.Stderr, "DEADLOCK in %s: no library call completed during 10 consecutive looks and %d goroutines are blocked in a synchronisation primitive inside the library:\n\n%s\n", what, blocked, strings.Join(witness, "\n\n"))
				os.Exit(3)
			}
			still = 0
		}
	}()
	return stop
}

var reRaceFrame = regexp.MustCompile(`^\s+(\S+)\(\)\s*$`)

// finishC20 (parent): count and deduplicate the DATA RACE blocks of all children.
func finishC20(c *fw.Ctx, m *fw.Report, cov map[string]any) {
	files, _ := filepath.Glob(filepath.Join(c.OutDir(), "race.*"))
	total, canary := 0, 0
	dedup := map[string]string{}
	where := map[string]string{}
	for _, f := range files {
		b, err := os.ReadFile(f)
		if err != nil {
			continue
		}
		for _, blk := range strings.Split(string(b), "==================") {
			if !strings.Contains(blk, "WARNING: DATA RACE") {
				continue
			}
			if strings.Contains(blk, "c20CanaryWrite") {
				canary++
				continue
			}
			total++
			// outermost library frame of each of the two stacks
			var keys []string
			cur := ""
			flush := func() {
				if cur != "" {
					keys = append(keys, cur)
				}
				cur = ""
			}
			for _, line := range strings.Split(blk, "\n") {
				if strings.HasPrefix(line, "Goroutine ") {
					break
				}
				if strings.Contains(line, " at 0x") || strings.HasPrefix(strings.TrimSpace(line), "Previous") {
					flush()
					continue
				}
				if mm := reRaceFrame.FindStringSubmatch(line); mm != nil && strings.Contains(mm[1], "sahandsafizadeh/qeep") || (mm != nil && strings.Contains(mm[1], "gonum.org")) || (mm != nil && strings.Contains(mm[1], "golang.org/x/exp")) {
					cur = mm[1]
				}
			}
			flush()
			sort.Strings(keys)
			key := strings.Join(keys, " <-> ")
			if _, ok := dedup[key]; !ok {
				txt := strings.TrimSpace(blk)
				if len(txt) > 1800 {
					txt = txt[:1800] + "\n..."
				}
				dedup[key] = txt
				where[key] = f
			}
		}
	}
	cov["race_reports_total"] = total
	cov["race_reports_distinct_by_outermost_library_frames"] = len(dedup)
	cov["canary_reports"] = canary
	cov["race_log_files"] = len(files)
	if canary == 0 {
		c.Inconclusive("the deliberately racy canary was not reported by the race detector: the detector was not live in this binary (was it built with -race?)")
	}
	keys := make([]string, 0, len(dedup))
	for k := range dedup {
		keys = append(keys, k)
	}
	sort.Strings(keys)
	for i, key := range keys {
		c.AddViolation(fw.Finding{Index: -1 - i, Msg: fmt.Sprintf("data race between [%s]:\n%s", key, dedup[key]), Replay: where[key]})
	}
}
