package props

import (
	"fmt"
	"math"

	"github.com/sahandsafizadeh/qeep/tensor"

	"qeepverif/internal/fw"
	"qeepverif/internal/ref"
	"qeepverif/internal/rt"
)

// C13 — loss gradients with respect to predictions equal the analytic derivatives.

func init() {
	fw.Register(&fw.Prop{
		ID: "C13",
		Rule: "gradient monitor of MSE / BCE / CE: (i) prediction as a tracked leaf, batch 1..8 x classes 1..5, prediction elements from {exactly 0, exactly 1, interior, strictly inside but within 1e-9 of a clipping bound, equal to the target}, targets from {0, 1, soft}, target tracked or not, prediction untracked as a control; after BackPropagate(loss) the prediction's gradient must have its shape and equal 2(p-t)/N, ((1-t)/(1-p)-t/p)/N, -(t/p)/N at interior points and a finite exact 0 where the prediction is clipped; untracked inputs keep nil. " +
			"(ii) prediction computed by a random upstream tracked program (C01 generator) squashed through Tanh/Scale/Sigmoid: every leaf and every intermediate of the whole graph is compared with the reference tape seeded with the closed form. (iii) ONE loss object is used for 2-4 consecutive Compute/BackPropagate rounds of equal shapes. " +
			"Non-trivial: the case has a clipped prediction, a soft target, an upstream program or a repeated round; distinct = (loss, batch, classes, variant, value classes present). Later additions: predictions 1..4000 units in the last place above or below either clipping bound; comparison of upstream programs judged against the tape run on absolute values." +
			" Round 4: Compute must leave the tracking state, gradient object and elements of both arguments unchanged.",
		Assumptions: []string{
			"predictions exactly at the two clipping bounds 1e-12 and 1-1e-12 are excluded, as in the statement",
			"tolerance of the leaf variant: 1e-9 relative + the conditioning bound 4e-16 x ((1-t)/(1-p)^2 + t/p^2)/N of the closed form; upstream programs keep p in (0.002, 0.998)",
		},
		FloorQuick: 2000, FloorThor: 3000,
		Run: runC13,
	})
}

var c13PClasses = []string{"zero", "one", "interior", "just-above-eps", "just-below-1-eps", "equal-target", "ulps-from-eps", "ulps-from-1-eps"}

func runC13(c *fw.Ctx) {
	// ---- (i) + (iii): leaf predictions, repeated rounds on one loss object ----
	for _, kind := range []string{"mse", "bce", "ce"} {
		for b := 1; b <= 8; b++ {
			for cl := 1; cl <= 5; cl++ {
				if kind != "ce" && cl > 1 {
					continue
				}
				reps := c.Pick(60, 4000)
				if kind != "ce" {
					reps *= 4
				}
				for rep := 0; rep < reps; rep++ {
					kind, b, cl := kind, b, cl
					c.Case(func(k *fw.K) { c13Leaf(k, kind, b, cl) })
				}
			}
		}
	}
	// ---- smoothed labels just below 1 (1 - 1e-9 .. 1 - 5e-8) on samples predicted with confidence (1 - p = 1e-11 .. 1e-7, inside the clipping
	// interval): the weight 1 - t of the second term is tiny and exact, and that term is not small ----
	for i := 0; i < c.Pick(400, 8000); i++ {
		c.Case(func(k *fw.K) { c13NearOneTargets(k) })
	}
	// ---- (ii): upstream programs ----
	for i := 0; i < c.Pick(6000, 400000); i++ {
		c.Case(func(k *fw.K) { c13Upstream(k) })
		if i%8 == 0 {
			c.Case(func(k *fw.K) { c13BroadcastPrediction(k) })
		}
	}
}

func c13Leaf(k *fw.K, kind string, b, cl int) {
	shape := []int{b}
	if kind == "ce" {
		shape = []int{b, cl}
	}
	rounds := 1
	if k.Rng.Intn(3) == 0 {
		rounds = 2 + k.Rng.Intn(3)
	}
	obj := lossObj(kind)
	var cases []lossCase
	defer func() { k.Case = map[string]any{"one_loss_object_rounds": cases} }()
	if k.Index%5 == 2 {
		refusedCalls(k)
	}
	present := map[string]bool{}
	var prevRp tensor.Tensor
	var prevP *ref.T
	for round := 0; round < rounds; round++ {
		p, t := ref.Zeros(shape), ref.Zeros(shape)
		for i := range p.Data {
			switch tc := k.Rng.Intn(4); tc {
			case 0:
				t.Data[i] = 0
			case 1:
				t.Data[i] = 1
			default:
				t.Data[i] = 0.05 + 0.9*k.Rng.Float64()
				present["t:soft"] = true
			}
			pc := k.Rng.Intn(8)
			present["p:"+c13PClasses[pc]] = true
			switch pc {
			case 0:
				p.Data[i] = 0
			case 1:
				p.Data[i] = 1
			case 2:
				p.Data[i] = 0.02 + 0.96*k.Rng.Float64()
			case 3:
				p.Data[i] = ref.Eps + 1e-9*(0.01+k.Rng.Float64())
			case 4:
				p.Data[i] = 1 - ref.Eps - 1e-9*(0.01+k.Rng.Float64())
			case 5:
				p.Data[i] = t.Data[i]
			case 6, 7: // a few units in the last place above / below a clipping bound (never the bound itself)
				b := ref.Eps
				if pc == 7 {
					b = 1 - ref.Eps
				}
				dir := math.Inf(1)
				if k.Rng.Intn(2) == 0 {
					dir = math.Inf(-1)
				}
				steps := []int{1, 2, 3, 100, 4000}[k.Rng.Intn(5)]
				v := b
				for q := 0; q < steps; q++ {
					v = math.Nextafter(v, dir)
				}
				p.Data[i] = v
			}
		}
		// label patterns a scalar heuristic might take for "hard labels": a 0, a 1 and soft labels that PAIR UP to whole numbers
		if n := len(t.Data); n >= 4 && k.Rng.Intn(5) == 0 {
			t.Data[0], t.Data[1] = 0, 1
			for i := 2; i+1 < n; i += 2 {
				a := []float64{0.5, 0.25, 0.125, 0.75}[k.Rng.Intn(4)]
				t.Data[i], t.Data[i+1] = a, 1-a
			}
			present["t:paired-soft"] = true
			for i := range p.Data { // ordinary interior predictions, so that the soft samples have a clearly non-zero derivative
				if p.Data[i] <= 0.01 || p.Data[i] >= 0.99 {
					p.Data[i] = 0.1 + 0.8*k.Rng.Float64()
				}
			}
		}
		trackP := k.Rng.Intn(8) > 0
		trackT := k.Rng.Intn(2) == 0
		// the prediction OBJECT of the previous round is used again after ResetGradContext made it a fresh leaf (its loss was
		// back-propagated, so the re-arming is inside the contract): same values, new labels, a gradient from this round only
		reuse := round > 0 && prevRp != nil && k.Rng.Intn(2) == 0
		if reuse {
			p = prevP
		}
		cases = append(cases, lossCase{Loss: kind, Pred: p, Target: t})
		rp, rtt := tensor.Tensor(nil), rt.MustLeaf(t, trackT)
		if reuse {
			rp = prevRp
			rp.ResetGradContext(trackP)
			present["p:re-armed-object"] = true
			k.Count("rounds_on_the_re_armed_prediction_object_of_the_previous_round", 1)
		} else {
			rp = rt.MustLeaf(p, trackP)
		}
		prevRp, prevP = rp, p
		if hard := allHard(t); hard && k.Rng.Intn(3) == 0 {
			// the 0/1 labels are a comparison MASK over the output of a stage that was already back-propagated (thresholded
			// pseudo-labels): a comparison result is a fresh untracked tensor whatever its operands went through
			var m tensor.Tensor
			if pn := call(func() {
				src := t.Clone()
				for i := range src.Data {
					src.Data[i] = 0.25 + 0.5*src.Data[i] // 0 -> 0.25, 1 -> 0.75
				}
				stage := rt.MustLeaf(src, true)
				if e := tensor.BackPropagate(stage.Scale(2)); e != nil {
					return
				}
				m, _ = stage.Gt(rt.MustLeaf(ref.Full(shape, 0.5), false))
			}); pn == nil && m != nil {
				rtt, trackT = m, false
				present["t:mask-of-a-spent-tensor"] = true
				k.Count("rounds_with_labels_thresholded_from_a_back_propagated_stage", 1)
			}
		}
		var l tensor.Tensor
		var err error
		argMsg := ""
		if pn := call(func() {
			guard := argGuard(rp, rtt)
			l, err = obj.Compute(rp, rtt)
			if err == nil {
				argMsg = guard()
				err = tensor.BackPropagate(l)
			}
		}); pn != nil || err != nil {
			k.Failf("round %d: %s Compute/BackPropagate failed: panic=%v err=%v", round, kind, pn, err)
			return
		}
		if argMsg != "" {
			k.Failf("round %d: %s.Compute changed an argument tensor (tracked prediction=%v target=%v): %s", round, kind, trackP, trackT, argMsg)
			return
		}
		k.Count("rounds", 1)
		g := rp.Gradient()
		if !trackP {
			if g != nil {
				k.Failf("round %d: untracked prediction received a gradient", round)
				return
			}
			if !trackT && l.Gradient() != nil {
				k.Failf("round %d: loss of untracked inputs received a gradient", round)
			}
			continue
		}
		if g == nil {
			k.Failf("round %d (same %s object, same shapes as the previous rounds): the tracked prediction received no gradient", round, kind)
			return
		}
		if !trackT && rtt.Gradient() != nil {
			k.Failf("round %d: untracked target received a gradient", round)
			return
		}
		got, err := rt.Read(g)
		if err != nil {
			k.Failf("round %d: %v", round, err)
			return
		}
		if !ref.SameShape(got.Shape, shape) {
			k.Failf("round %d: gradient of the prediction has shape %v, the prediction has %v", round, got.Shape, shape)
			return
		}
		want := ref.VJP(ref.Instr{Op: kind}, []*ref.T{p, t}, nil, ref.Scalar(1), ref.RuleSum)[0]
		n := float64(b)
		for i := range want.Data {
			pv, tv := p.Data[i], t.Data[i]
			gv, wv := got.Data[i], want.Data[i]
			if math.IsNaN(gv) || math.IsInf(gv, 0) {
				k.Failf("round %d: gradient element %d is %v (prediction %v, target %v)", round, i, gv, pv, tv)
				return
			}
			tol := 1e-13 + 1e-9*math.Abs(wv)
			if kind != "mse" {
				if pv <= ref.Eps || pv >= 1-ref.Eps { // clipped: exact finite zero
					if gv != 0 {
						k.Failf("round %d: %s gradient at the clipped prediction %v is %v, expected a finite 0", round, kind, pv, gv)
						return
					}
					continue
				}
				tol += 4e-16 * (tv/(pv*pv) + (1-tv)/((1-pv)*(1-pv))) / n
			}
			if math.Abs(gv-wv) > tol {
				k.Failf("round %d: %s gradient element %d = %v, the analytic derivative is %v (prediction %v, target %v, N %d)", round, kind, i, gv, wv, pv, tv, b)
				return
			}
		}
	}
	if rounds > 1 {
		present["repeated"] = true
		k.Count("repeated_round_cases", 1)
	}
	k.Key("%s/%d/%d/leaf/%v", kind, b, cl, present)
	k.Sample()
}

// c13BroadcastPrediction: the prediction is the direct result of an explicit, expanding Broadcast of a tracked tensor (a class-prior
// baseline w.Broadcast([N, C]), a constant prediction broadcast over the batch). Only the PREDICTION's own gradient is decided here
// (what reaches the source is C07's subject).
func c13BroadcastPrediction(k *fw.K) {
	r := k.Rng
	kind := []string{"mse", "bce", "ce"}[r.Intn(3)]
	n := 2 + r.Intn(4)
	src, target := []int{}, []int{n}
	if kind == "ce" {
		cl := 1 + r.Intn(4)
		src, target = [][]int{{cl}, {1, cl}}[r.Intn(2)], []int{n, cl}
	} else if r.Intn(2) == 0 {
		src = []int{1}
	}
	wv := ref.Zeros(src)
	for i := range wv.Data {
		wv.Data[i] = 0.1 + 0.8*r.Float64()
	}
	p, err := ref.Apply(ref.Instr{Op: "broadcast", Shape: target}, []*ref.T{wv})
	if err != nil {
		k.Failf("harness: %v", err)
		return
	}
	t := ref.Zeros(target)
	for i := range t.Data {
		t.Data[i] = []float64{0, 1, 0.05 + 0.9*r.Float64()}[r.Intn(3)]
	}
	k.Case = map[string]any{"loss": kind, "source": src, "prediction_shape": target, "w": wv.Data, "targets": t.Data}
	k.Key("%s/broadcast-prediction/%s/%s", kind, shapeKey(src), shapeKey(target))
	k.Count("predictions_that_are_explicit_broadcast_results", 1)
	w := rt.MustLeaf(wv, true)
	var rp, l tensor.Tensor
	if pn := call(func() {
		if rp, err = w.Broadcast(ref.CopyInts(target)); err == nil {
			if l, err = lossObj(kind).Compute(rp, rt.MustLeaf(t, false)); err == nil {
				err = tensor.BackPropagate(l)
			}
		}
	}); pn != nil || err != nil || rp == nil {
		k.Failf("%s over a prediction that is an explicit Broadcast %v -> %v: panic=%v err=%v", kind, src, target, pn, err)
		return
	}
	g := rp.Gradient()
	if g == nil {
		k.Failf("%s over a prediction that is the result of an explicit Broadcast %v -> %v: the prediction received no gradient", kind, src, target)
		return
	}
	want := ref.VJP(ref.Instr{Op: kind}, []*ref.T{p, t}, nil, ref.Scalar(1), ref.RuleSum)[0]
	if e := rt.Compare(g, want, 1e-12, 1e-9, nil, 0); e != nil {
		k.Failf("%s over a prediction that is the result of an explicit Broadcast %v -> %v: gradient of the prediction: %v", kind, src, target, e)
	}
	if w.Gradient() == nil {
		k.Failf("%s over a broadcast prediction: the broadcast source received no gradient", kind)
	}
}

func c13Upstream(k *fw.K) {
	kind := []string{"mse", "bce", "ce"}[k.Rng.Intn(3)]
	p, _ := genProgram(k.Rng, progOpts{MinInstr: 2, MaxInstr: 14, MaxLeaves: 3, MaxRank: 3, MaxDim: 3, AllTracked: k.Rng.Intn(2) == 0})
	vals, err := p.Eval()
	if err != nil {
		k.Failf("harness: %v", err)
		return
	}
	// head: flatten -> tanh -> scale 6 -> sigmoid   (p in (0.0025, 0.9975))
	last := len(p) - 1
	n := len(vals[last].Data)
	shape := []int{n}
	if kind == "ce" {
		fs := [][]int{}
		for b := 1; b <= n; b++ {
			if n%b == 0 {
				fs = append(fs, []int{b, n / b})
			}
		}
		shape = fs[k.Rng.Intn(len(fs))]
	}
	p = append(p, ref.Instr{Op: "reshape", In: []int{last}, Shape: shape})
	p = append(p, ref.Instr{Op: "tanh", In: []int{len(p) - 1}})
	p = append(p, ref.Instr{Op: "scale", In: []int{len(p) - 1}, F: 6})
	p = append(p, ref.Instr{Op: "sigmoid", In: []int{len(p) - 1}})
	pred := len(p) - 1
	t := ref.Zeros(shape)
	for i := range t.Data {
		switch k.Rng.Intn(3) {
		case 0:
			t.Data[i] = 1
		case 1:
			t.Data[i] = 0.05 + 0.9*k.Rng.Float64()
		}
	}
	p = append(p, ref.Instr{Op: "leaf", Shape: shape, Data: t.Data, Tracked: k.Rng.Intn(2) == 0})
	p = append(p, ref.Instr{Op: kind, In: []int{pred, len(p) - 1}})
	root := len(p) - 1
	k.Case = c01case{Family: "upstream-program -> sigmoid head -> " + kind, Prog: p, Roots: []int{root}}
	vals, err = p.Eval()
	if err != nil {
		k.Failf("harness: %v", err)
		return
	}
	fan, reconv, depth := progStats(p, root)
	k.Key("%s/upstream/fan%d/reconv%d/depth%d/%v", kind, fan, reconv, depth, shape)
	k.Count("upstream_cases", 1)
	if k.Index%30 == 0 {
		k.Sample()
	}
	var ts []tensor.Tensor
	if pn := call(func() {
		ts, err = rt.Run(p)
		if err == nil {
			err = tensor.BackPropagate(ts[root])
		}
	}); pn != nil || err != nil {
		k.Failf("upstream program -> %s: panic=%v err=%v", kind, pn, err)
		return
	}
	late := ""
	if k.Rng.Intn(3) == 0 {
		// the gradients of this batch are read only after one or two LATER, unrelated batches (their own parameters, an interior
		// prediction each) went through the same loss kind and were back-propagated: a training loop that logs gradients at the
		// end of an epoch
		for n := 1 + k.Rng.Intn(2); n > 0; n-- {
			sh := []int{1 + k.Rng.Intn(3), 1 + k.Rng.Intn(3)}
			q := ref.Prog{{Op: "leaf", Shape: sh, Data: RandT(k.Rng, sh, -1, 1).Data, Tracked: true}, {Op: "scale", In: []int{0}, F: 0.5}, {Op: "sigmoid", In: []int{1}},
				{Op: "leaf", Shape: sh, Data: RandT(k.Rng, sh, 0.1, 0.9).Data}, {Op: kind, In: []int{2, 3}}}
			if kind != "ce" {
				q = ref.Prog{q[0], q[1], q[2], {Op: "flatten", In: []int{2}, Dim: 0}, {Op: "leaf", Shape: []int{sh[0] * sh[1]}, Data: q[3].Data}, {Op: kind, In: []int{3, 4}}}
			}
			var qerr error
			if pn := call(func() {
				var qs []tensor.Tensor
				if qs, qerr = rt.Run(q); qerr == nil {
					qerr = tensor.BackPropagate(qs[len(q)-1])
				}
			}); pn != nil || qerr != nil {
				k.Failf("a later, unrelated batch through %s: panic=%v err=%v", kind, pn, qerr)
				return
			}
		}
		late = ", read after later unrelated batches were back-propagated"
		k.Count("upstream_cases_read_after_later_batches", 1)
	}
	want, scale := p.GradS(vals, root, nil, ref.RuleSum)
	for _, w := range want {
		if w != nil && !(maxAbsAll(w) < 1e8) {
			k.Count("upstream_cases_skipped_ill_conditioned", 1)
			return
		}
	}
	ts[root-1] = nil // the target leaf: the statement says nothing about gradients with respect to targets (not differentiable at 0 and 1)
	if msg := checkGradsScaled(ts, want, scale, fmt.Sprintf("%s over an upstream program (prediction = tensor %d)%s", kind, pred, late)); msg != "" {
		k.Failf("%s", msg)
	}
}

func allHard(t *ref.T) bool {
	for _, v := range t.Data {
		if v != 0 && v != 1 {
			return false
		}
	}
	return true
}

// c13NearOneTargets: see the call site. 1 - t and 1 - p are exact in floating point (both operands lie in [0.5, 2]), so
// ((1-t)/(1-p) - t/p)/N is computed here with two roundings per term; the comparison is relative to the size of the two terms.
func c13NearOneTargets(k *fw.K) {
	r := k.Rng
	b := 1 + r.Intn(4)
	p, t := ref.Zeros([]int{b}), ref.Zeros([]int{b})
	for i := range p.Data {
		t.Data[i] = 1 - []float64{1e-9, 3e-9, 1e-8, 5e-8, 2e-10}[r.Intn(5)]
		p.Data[i] = 1 - math.Pow(10, -7-4*r.Float64())
		if r.Intn(4) == 0 { // the mirror image: a label just above 0 on a sample predicted close to 0
			t.Data[i], p.Data[i] = 1-t.Data[i], 1-p.Data[i]
		}
	}
	k.Case = lossCase{Loss: "bce", Pred: p, Target: t}
	k.Key("bce/near-one-targets/%d", b)
	k.Count("near_one_target_cases", 1)
	rp := rt.MustLeaf(p, true)
	var err error
	if pn := call(func() {
		var l tensor.Tensor
		if l, err = lossObj("bce").Compute(rp, rt.MustLeaf(t, false)); err == nil {
			err = tensor.BackPropagate(l)
		}
	}); pn != nil || err != nil {
		k.Failf("bce Compute/BackPropagate: panic=%v err=%v", pn, err)
		return
	}
	g := rp.Gradient()
	if g == nil {
		k.Failf("the tracked prediction received no gradient")
		return
	}
	got, err := rt.Read(g)
	if err != nil || len(got.Data) != b {
		k.Failf("gradient unreadable: %v", err)
		return
	}
	for i := range got.Data {
		pv, tv := p.Data[i], t.Data[i]
		t1, t2 := (1-tv)/(1-pv), tv/pv
		want := (t1 - t2) / float64(b)
		if tol := 1e-13 + 1e-9*(math.Abs(t1)+math.Abs(t2))/float64(b); math.Abs(got.Data[i]-want) > tol {
			k.Failf("bce gradient element %d = %v, the analytic derivative ((1-t)/(1-p) - t/p)/N is %v (1-t = %v, 1-p = %v, N %d; tolerance %v)", i, got.Data[i], want, 1-tv, 1-pv, b, tol)
			return
		}
	}
}
