package props

import (
	"fmt"
	"math"

	"github.com/sahandsafizadeh/qeep/component/initializers"
	"github.com/sahandsafizadeh/qeep/component/layers"
	"github.com/sahandsafizadeh/qeep/tensor"

	"qeepverif/internal/fw"
	"qeepverif/internal/ref"
	"qeepverif/internal/rt"
)

// C16 — the FC layer is an affine map per output unit with live, trainable parameters.

func init() {
	fw.Register(&fw.Prop{
		ID: "C16",
		Rule: "FC monitor over batch 1..6 x features 1..6 x outputs 1..6 (all 216 size triples, several histories each): the layer is built with NewFC and custom non-uniform initializers (or the defaults), then a history of 1-4 parameter replacements through Weights() pointers - pointers taken before the first Forward, after it, or freshly each time - interleaved with Forward calls; every Forward result is compared with y[b][o] = W[o]*sum_d x[b][d] + B[o] for the parameters that are current by then; row independence is checked by perturbing one input row; Weights() must dereference to the tensors last written. " +
			"Then BackPropagate(y*G) with random non-uniform G: gradients of W, B and a tracked input against dW[o] = sum_b g[b][o] sum_d x[b][d], dB[o] = sum_b g[b][o], dx[b][d] = sum_o g[b][o] W[o], with the parameters' shapes. For batch > 1 W and B are expanded over the batch: a mismatch is attributed to the recorded finding only if every gradient equals the reference with BroadcastRule=Avg; batch 1 must be exact. Default initializers: Weight within +-sqrt(6/(in+out)), Bias zero, both tracked. " +
			"Non-trivial: W and B non-uniform and (batch > 1 or outputs > 1); distinct = (batch, features, outputs, pointer discipline, number of replacements, tracked input). Later additions: feature or batch sizes 127..1025; the batch size changes between Forward calls on one layer; half of the histories call Forward through a method value bound once; one initializer object for Weight and Bias of two layers; n Forward calls followed by n BackPropagate calls (gradient accumulation); the config struct and its map overwritten after construction." +
			" Round 4: between the layer's output and the weighting sits a head: none, Flatten(1) keeping the shape, Reshape to the same shape, a squared error or the MSE component against targets that some outputs fit exactly, Tanh.",
		Assumptions: []string{"forward values compared within 1e-12 relative (+1e-12 absolute x magnitude of the summed terms)"},
		FloorQuick:  1500, FloorThor: 5000,
		Run: runC16,
	})
}

type fixedInit struct{ t *ref.T }

func (f fixedInit) Init(shape []int) (tensor.Tensor, error) { return rt.Leaf(f.t, true) }

// initFunc and sliceInit are custom initializers whose dynamic types are NOT comparable with == (a func value, a struct holding
// a slice): legal implementations of layers.Initializer that any `a == b` on the interface values would panic on.
type initFunc func(shape []int) (tensor.Tensor, error)

func (f initFunc) Init(shape []int) (tensor.Tensor, error) { return f(shape) }

type sliceInit struct{ data []float64 }

func (f sliceInit) Init(shape []int) (tensor.Tensor, error) {
	return rt.Leaf(ref.New([]int{len(f.data)}, f.data), true)
}

// customInit returns an initializer producing t, of one of three dynamic types.
func customInit(k *fw.K, t *ref.T) layers.Initializer {
	switch k.Rng.Intn(3) {
	case 0:
		return initFunc(func([]int) (tensor.Tensor, error) { return rt.Leaf(t, true) })
	case 1:
		return sliceInit{append([]float64(nil), t.Data...)}
	}
	return fixedInit{t}
}

func runC16(c *fw.Ctx) {
	deeperBounds(!c.Quick())
	for B := 1; B <= 6; B++ {
		for D := 1; D <= 6; D++ {
			for O := 1; O <= 6; O++ {
				for rep := 0; rep < c.Pick(15, 900); rep++ {
					B, D, O := B, D, O
					c.Case(func(k *fw.K) { c16History(k, B, D, O) })
				}
			}
		}
	}
	// layers whose [batch, outputs] shapes collide under ad-hoc cache keys ([1,11] / [11,1], [12,3] / [1,23], ...), run one
	// after the other in one case, in both orders
	for gi, group := range CollidingShapes {
		if len(group[0]) != 2 {
			continue
		}
		for rep := 0; rep < c.Pick(4, 40); rep++ {
			gi, group, rep := gi, group, rep
			c.Case(func(k *fw.K) {
				k.Count("colliding_shape_group_cases", 1)
				for q := range group {
					shape := group[q]
					if rep%2 == 1 {
						shape = group[len(group)-1-q]
					}
					if len(shape) != 2 {
						continue
					}
					c16History(k, shape[0], 1+k.Rng.Intn(3), shape[1])
					if k.Failed() {
						return
					}
				}
				k.Key("colliding/%d/%d", gi, rep%2)
			})
		}
	}
	for i := 0; i < c.Pick(500, 20000); i++ {
		c.Case(func(k *fw.K) { c16Defaults(k) })
	}
	for i := 0; i < c.Pick(150, 5000); i++ { // long feature or batch sizes (127..1025)
		c.Case(func(k *fw.K) {
			B, D, O := 1+k.Rng.Intn(3), 1+k.Rng.Intn(3), 1+k.Rng.Intn(3)
			n := LongSizes[k.Rng.Intn(17)]
			if k.Rng.Intn(3) == 0 {
				B = n
			} else {
				D = n
			}
			k.Count("long_dimension_histories", 1)
			c16History(k, B, D, O)
		})
	}
	for i := 0; i < c.Pick(300, 10000); i++ {
		c.Case(func(k *fw.K) { c16SharedInitializer(k) })
	}
	for i := 0; i < c.Pick(600, 20000); i++ {
		c.Case(func(k *fw.K) { c16Accumulate(k) })
	}
	for i := 0; i < c.Pick(100, 2000); i++ {
		c.Case(func(k *fw.K) { c16Overflow(k) })
		c.Case(func(k *fw.K) { c16InfiniteFeature(k) })
		c.Case(func(k *fw.K) { c16OutputUsedTwice(k) })
	}
	for i := 0; i < c.Pick(800, 16000); i++ {
		c.Case(func(k *fw.K) { c16Frozen(k) })
	}
}

// c16Frozen: every tracked / frozen combination of W, B and the input. A frozen (untracked) parameter - pretrained values
// installed through the Weights() pointer - takes part in Forward exactly like a trainable one, receives no gradient, and the
// gradients of the tracked ones are the derivatives of the affine map: dx[b][d] = sum_o G[b][o] W[o] for every batch size (the
// input is never expanded), dW[o] = sum_d x[0][d] G[0][o] and dB[o] = G[0][o] for a batch of one (no expansion there either).
func c16Frozen(k *fw.K) {
	r := k.Rng
	B, D, O := 1+r.Intn(4), 1+r.Intn(4), 1+r.Intn(4)
	if r.Intn(2) == 0 {
		B = 1
	}
	mask := [3]bool{r.Intn(2) == 0, r.Intn(2) == 0, r.Intn(2) == 0} // W, B, x tracked?
	w, b := Shuffled(r, Unique(r, []int{O}, 0.2, 2)), Shuffled(r, Unique(r, []int{O}, 0.2, 2))
	x := Shuffled(r, Unique(r, []int{B, D}, 0.2, 2))
	g := randG(k, []int{B, O})
	k.Case = map[string]any{"batch": B, "features": D, "outputs": O, "tracked_W_B_x": mask, "W": w.Data, "B": b.Data, "x": x.Data, "G": g.Data}
	k.Key("frozen/%d/%d/%d/%v", B, D, O, mask)
	k.Count("tracked_frozen_combinations", 1)
	fc, err := layers.NewFC(&layers.FCConfig{Inputs: D, Outputs: O})
	if err != nil {
		k.Failf("NewFC: %v", err)
		return
	}
	ws := fc.Weights()
	rw, rb, rx := rt.MustLeaf(w, mask[0]), rt.MustLeaf(b, mask[1]), rt.MustLeaf(x, mask[2])
	*ws[0].Value, *ws[1].Value = rw, rb
	var y tensor.Tensor
	if p := call(func() {
		if y, err = fc.Forward(rx); err == nil {
			err = weightedBackprop(y, g)
		}
	}); p != nil || err != nil || y == nil {
		k.Failf("FC(%d->%d) batch %d with tracked (W, B, x) = %v: Forward / BackPropagate failed: panic=%v err=%v", D, O, B, mask, p, err)
		return
	}
	want, _ := ref.FC(x, w, b)
	if e := rt.Compare(y, want, 1e-12, 1e-12, nil, 0); e != nil {
		k.Failf("FC(%d->%d) batch %d with tracked (W, B, x) = %v: Forward: %v", D, O, B, mask, e)
		return
	}
	for i, t := range []tensor.Tensor{rw, rb, rx} {
		if !mask[i] && t.Gradient() != nil {
			k.Failf("FC(%d->%d) batch %d with tracked (W, B, x) = %v: the untracked %s received a gradient", D, O, B, mask, []string{"W", "B", "input"}[i])
			return
		}
		if mask[i] && t.Gradient() == nil {
			k.Failf("FC(%d->%d) batch %d with tracked (W, B, x) = %v: the tracked %s received no gradient", D, O, B, mask, []string{"W", "B", "input"}[i])
			return
		}
	}
	if mask[2] {
		dx := ref.Zeros([]int{B, D})
		for bi := 0; bi < B; bi++ {
			for d := 0; d < D; d++ {
				for o := 0; o < O; o++ {
					dx.Data[bi*D+d] += g.Data[bi*O+o] * w.Data[o]
				}
			}
		}
		if e := rt.Compare(rx.Gradient(), dx, 1e-12, 1e-10, nil, 0); e != nil {
			k.Failf("FC(%d->%d) batch %d with tracked (W, B, x) = %v: gradient of the input is not sum_o G[b][o] W[o]: %v", D, O, B, mask, e)
			return
		}
	}
	if B == 1 {
		if mask[0] {
			dw := ref.Zeros([]int{O})
			for o := 0; o < O; o++ {
				for d := 0; d < D; d++ {
					dw.Data[o] += x.Data[d] * g.Data[o]
				}
			}
			if e := rt.Compare(rw.Gradient(), dw, 1e-12, 1e-10, nil, 0); e != nil {
				k.Failf("FC(%d->%d) batch 1 with tracked (W, B, x) = %v: gradient of W is not G[o] sum_d x[d]: %v", D, O, mask, e)
				return
			}
		}
		if mask[1] {
			if e := rt.Compare(rb.Gradient(), ref.New([]int{O}, g.Data), 1e-12, 1e-10, nil, 0); e != nil {
				k.Failf("FC(%d->%d) batch 1 with tracked (W, B, x) = %v: gradient of B is not G: %v", D, O, mask, e)
			}
		}
	}
}

func c16History(k *fw.K, B, D, O int) {
	w, b := Shuffled(k.Rng, Unique(k.Rng, []int{O}, 0.2, 2)), Shuffled(k.Rng, Unique(k.Rng, []int{O}, 0.2, 2))
	wScale, xScale := 1., 1.
	if k.Rng.Intn(8) == 0 { // weights far below every "is it zero" threshold against features large enough for the product to matter
		wScale, xScale = 1e-250, 1e300
		k.Count("histories_with_weights_1e-250_and_features_1e300", 1)
	}
	for i := range w.Data {
		w.Data[i] *= wScale
	}
	discipline := k.Rng.Intn(3) // 0: pointers taken once before the first Forward; 1: taken once after the first Forward; 2: fresh each time
	nrep := 1 + k.Rng.Intn(4)
	trackX := k.Rng.Intn(2) == 0
	log := []string{}
	defer func() {
		k.Case = map[string]any{"batch": B, "features": D, "outputs": O, "W0": w.Data, "B0": b.Data, "pointer_discipline": discipline, "replacements": nrep, "history": log}
	}()
	k.Key("%d/%d/%d/ptr%d/rep%d/%v", B, D, O, discipline, nrep, trackX)
	k.Count("histories", 1)
	k.Sample()
	var fc *layers.FC
	var err error
	if p := call(func() {
		wi := customInit(k, w)
		bi := customInit(k, b)
		if _, isFunc := wi.(initFunc); isFunc {
			bi = initFunc(func([]int) (tensor.Tensor, error) { return rt.Leaf(b, true) }) // both of the same non-comparable type
		}
		conf := &layers.FCConfig{Inputs: D, Outputs: O, Initializers: map[string]layers.Initializer{"Weight": wi, "Bias": bi}}
		fc, err = layers.NewFC(conf)
		conf.Inputs, conf.Outputs = 99, 99 // the caller's config and its map are overwritten after construction
		conf.Initializers["Weight"], conf.Initializers["Bias"] = nil, nil
	}); p != nil || err != nil {
		k.Failf("NewFC(%d -> %d): panic=%v err=%v", D, O, p, err)
		return
	}
	fc, how, originalUntouched := fcVariant(k, fc)
	k.Count("histories_on_a_layer_obtained_as_"+how, 1)
	defer func() {
		if msg := originalUntouched(); msg != "" && !k.Failed() {
			k.Failf("%s", msg)
		}
	}()
	var held []layers.Weight
	ptrs := func() []layers.Weight {
		if discipline == 2 || held == nil {
			ws := fc.Weights()
			if discipline == 2 {
				return ws
			}
			held = ws
		}
		return held
	}
	if discipline == 0 {
		ptrs()
	}
	curW, curB := w, b
	// half of the histories call Forward through a method value bound ONCE, before any replacement
	fwd := fc.Forward
	bound := k.Rng.Intn(2) == 0
	if !bound {
		fwd = func(xs ...tensor.Tensor) (tensor.Tensor, error) { return fc.Forward(xs...) }
	}
	viaInput := k.Rng.Intn(3) == 0
	input := layers.NewInput()
	if k.Rng.Intn(2) == 0 {
		input = new(layers.Input) // the zero value of the exported type, as fresh as a constructed one
	}
	forward := func(tag string, track bool) (x *ref.T, rx, ry tensor.Tensor, ok bool) {
		if B <= 6 && k.Rng.Intn(3) == 0 && tag != "Forward before back-propagation" {
			B = 1 + k.Rng.Intn(6) // the same layer sees batches of different sizes
		}
		if k.Rng.Intn(4) == 0 { // a batch of the same shape that is not finite went through the layer first (outcome ignored)
			bad := ref.Full([]int{B, D}, math.NaN())
			for i := range bad.Data {
				bad.Data[i] = []float64{math.NaN(), math.Inf(1), math.Inf(-1), 1}[k.Rng.Intn(4)]
			}
			k.Count("non_finite_batches_fed_before_a_finite_one", 1)
			call(func() { _, _ = fc.Forward(rt.MustLeaf(bad, false)) })
		}
		x = Shuffled(k.Rng, Unique(k.Rng, []int{B, D}, 0.2, 2))
		for i := range x.Data {
			x.Data[i] *= xScale
		}
		rx = rt.MustLeaf(x, track)
		if track && k.Rng.Intn(3) == 0 { // the tracked input is itself the result of a shape operation on a tracked feature map
			feat := rt.MustLeaf(ref.New([]int{B, D, 1}, x.Data), true)
			switch k.Rng.Intn(3) {
			case 0:
				rx, err = feat.Flatten(1)
			case 1:
				rx, err = feat.Squeeze(2)
			default:
				rx, err = feat.Reshape([]int{B, D})
			}
			if err != nil {
				k.Failf("%s: harness: %v", tag, err)
				return nil, nil, nil, false
			}
			k.Count("tracked_inputs_derived_by_a_shape_operation", 1)
		}
		guard := argGuard(rx)
		ins := []tensor.Tensor{rx} // the call spreads a slice the caller keeps
		if viaInput {              // the batch reaches the layer through an Input layer that hands the same tensor out twice (two heads)
			seedCalls := 0 // the seed function is a stateful source (a batch iterator): one call per Forward, no more
			input.SeedFunc = func() tensor.Tensor { seedCalls++; return rx }
			for hand := 0; hand < 2; hand++ {
				var h tensor.Tensor
				if p := call(func() { h, err = input.Forward() }); p != nil || err != nil || h == nil {
					k.Failf("%s: Input.Forward failed: panic=%v err=%v", tag, p, err)
					return nil, nil, nil, false
				}
				if seedCalls != hand+1 {
					k.Failf("%s: after %d Input.Forward calls the seed function (a stateful batch source) was called %d times: a batch was drawn and dropped", tag, hand+1, seedCalls)
					return nil, nil, nil, false
				}
				if hand == 0 {
					call(func() { _, _ = fc.Forward(h) }) // the first head; its result is not used further
				}
				ins[0] = h
			}
			k.Count("forward_calls_fed_through_an_Input_layer", 1)
			if msg := guard(); msg != "" {
				k.Failf("%s: handing the batch out through the Input layer changed it: %s", tag, msg)
				return nil, nil, nil, false
			}
			if hv, e := rt.Read(ins[0]); e != nil || rt.CompareRef(hv, x, 0, 0, nil, 0) != nil {
				k.Failf("%s: the Input layer does not hand out the seed tensor's values (%v)", tag, e)
				return nil, nil, nil, false
			}
			rx = ins[0]
			guard = argGuard(rx)
		}
		fed := ins[0]
		if p := call(func() { ry, err = fwd(ins...) }); p != nil || err != nil || ry == nil {
			k.Failf("%s: Forward (method value bound before the replacements: %v) failed: panic=%v err=%v", tag, bound, p, err)
			return nil, nil, nil, false
		}
		if msg := guard(); msg != "" {
			k.Failf("%s: Forward changed its input tensor: %s", tag, msg)
			return nil, nil, nil, false
		}
		if len(ins) != 1 || ins[0] != fed {
			k.Failf("%s: Forward(ins...) overwrote the caller's argument slice", tag)
			return nil, nil, nil, false
		}
		want, _ := ref.FC(x, curW, curB)
		k.Count("forward_calls", 1)
		// sum_d x[b][d] may cancel: the absolute tolerance is that of D products of the magnitudes involved
		if e := rt.Compare(ry, want, 1e-11*float64(D)*(1+maxAbs(curW)*maxAbs(x)+maxAbs(curB)), 1e-11, nil, 0); e != nil {
			k.Failf("%s: Forward differs from y[b][o] = W[o]*sum_d x[b][d] + B[o] with the current parameters W=%v B=%v: %v", tag, curW.Data, curB.Data, e)
			return nil, nil, nil, false
		}
		// row independence: perturb one input row, only that output row may change
		if B > 1 {
			row := k.Rng.Intn(B)
			x2 := x.Clone()
			for d := 0; d < D; d++ {
				x2.Data[row*D+d] += 1 + k.Rng.Float64()
			}
			var ry2 tensor.Tensor
			if p := call(func() { ry2, err = fc.Forward(rt.MustLeaf(x2, false)) }); p != nil || err != nil {
				k.Failf("%s: Forward of the perturbed input failed: panic=%v err=%v", tag, p, err)
				return nil, nil, nil, false
			}
			y1, _ := rt.Read(ry)
			y2, e2 := rt.Read(ry2)
			if e2 != nil || !ref.SameShape(y1.Shape, y2.Shape) {
				k.Failf("%s: perturbed Forward result unreadable", tag)
				return nil, nil, nil, false
			}
			for i := range y1.Data {
				if (i/O != row) && math.Float64bits(y1.Data[i]) != math.Float64bits(y2.Data[i]) {
					k.Failf("%s: output row %d changed when only input row %d was perturbed", tag, i/O, row)
					return nil, nil, nil, false
				}
			}
			k.Count("row_independence_checks", 1)
		}
		return x, rx, ry, true
	}
	if _, _, _, ok := forward("first Forward", false); !ok {
		return
	}
	log = append(log, "Forward")
	if discipline == 1 {
		ptrs()
	}
	for r := 0; r < nrep; r++ {
		which := k.Rng.Intn(3) // 0: W, 1: B, 2: both
		ws := ptrs()
		if len(ws) != 2 || ws[0].Value == nil || ws[1].Value == nil {
			k.Failf("Weights() returned %d entries / nil pointers", len(ws))
			return
		}
		if which != 1 {
			curW = Shuffled(k.Rng, Unique(k.Rng, []int{O}, 0.2, 2))
			for i := range curW.Data {
				curW.Data[i] *= wScale
			}
			*ws[0].Value = c16Param(k, curW)
			log = append(log, "replace W")
		}
		if which != 0 {
			curB = Shuffled(k.Rng, Unique(k.Rng, []int{O}, 0.2, 2))
			*ws[1].Value = c16Param(k, curB)
			log = append(log, "replace B")
		}
		if discipline == 2 { // the slice Weights() returned is the caller's: it is overwritten after use
			ws[0], ws[1] = layers.Weight{}, ws[0]
		}
		if _, _, _, ok := forward(fmt.Sprintf("Forward after replacement %d (%s)", r+1, []string{"W", "B", "W and B"}[which]), false); !ok {
			return
		}
		log = append(log, "Forward")
		// a later Weights() call dereferences to what was written
		fresh := fc.Weights()
		for i, cur := range []*ref.T{curW, curB} {
			if e := rt.Compare(*fresh[i].Value, cur, 0, 0, nil, 0); e != nil {
				k.Failf("after replacement %d: Weights()[%d] does not address the tensor that was written: %v", r+1, i, e)
				return
			}
		}
	}
	// ---- gradients ----
	x, rx, ry, ok := forward("Forward before back-propagation", trackX)
	if !ok {
		return
	}
	// the layer's output goes through a short "head" before the weighted back-propagation: nothing, a shape-preserving
	// Flatten(1) / Reshape (the usual "flatten to [batch, -1]" on an already 2-D activation), a squared error or the MSE
	// component against targets that some outputs fit EXACTLY (residual exactly 0), or Tanh
	prog := ref.Prog{
		{Op: "leaf", Shape: x.Shape, Data: x.Data, Tracked: trackX},
		{Op: "leaf", Shape: curW.Shape, Data: curW.Data, Tracked: true},
		{Op: "leaf", Shape: curB.Shape, Data: curB.Data, Tracked: true},
		{Op: "fc", In: []int{0, 1, 2}},
	}
	head := k.Rng.Intn(7)
	if xScale != 1 && (head == 3 || head == 4 || head == 6) {
		head = head % 3 // a squared error of outputs around 1e50 overflows by construction, sin(1e50) is not a function of a rounded argument
	}
	exactTargets := func(shape []int) ref.Instr {
		yv, _ := rt.Read(ry)
		t := RandT(k.Rng, shape, -2, 2)
		for i := range t.Data {
			if k.Rng.Intn(2) == 0 {
				t.Data[i] = yv.Data[i] // fitted exactly
			}
		}
		return ref.Instr{Op: "leaf", Shape: shape, Data: t.Data}
	}
	switch head {
	case 1:
		prog = append(prog, ref.Instr{Op: "flatten", In: []int{3}, Dim: 1})
	case 2:
		prog = append(prog, ref.Instr{Op: "reshape", In: []int{3}, Shape: []int{B, O}})
	case 3:
		prog = append(prog, exactTargets([]int{B, O}), ref.Instr{Op: "sub", In: []int{3, 4}}, ref.Instr{Op: "pow", In: []int{5}, F: 2})
	case 4:
		prog = append(prog, ref.Instr{Op: "flatten", In: []int{3}, Dim: 0}, exactTargets([]int{B * O}), ref.Instr{Op: "mse", In: []int{4, 5}})
	case 5:
		prog = append(prog, ref.Instr{Op: "tanh", In: []int{3}})
	case 6: // the layer's output feeds TWO branches that join again: 3*y + sin(y)
		prog = append(prog, ref.Instr{Op: "scale", In: []int{3}, F: 3}, ref.Instr{Op: "sin", In: []int{3}}, ref.Instr{Op: "add", In: []int{4, 5}})
	}
	k.Count(fmt.Sprintf("backprops_head_%s", []string{"none", "flatten(1) keeping the shape", "reshape to the same shape", "squared error with exact fits", "MSE with exact fits", "tanh", "two branches that join"}[head]), 1)
	vals, err := prog.Eval()
	if err != nil {
		k.Failf("harness: %v", err)
		return
	}
	g := randG(k, vals[len(prog)-1].Shape)
	prog = append(prog, ref.Instr{Op: "leaf", Shape: g.Shape, Data: g.Data}, ref.Instr{Op: "mul", In: []int{len(prog) - 1, len(prog)}})
	root := len(prog) - 1
	if vals, err = prog.Eval(); err != nil {
		k.Failf("harness: %v", err)
		return
	}
	pre := fc.Weights()
	ts := []tensor.Tensor{rx, *pre[0].Value, *pre[1].Value, ry}
	if p := call(func() {
		for i := 4; i < len(prog) && err == nil; i++ {
			xs := make([]tensor.Tensor, len(prog[i].In))
			for q, j := range prog[i].In {
				xs[q] = ts[j]
			}
			var t tensor.Tensor
			t, err = rt.Exec(prog[i], xs)
			ts = append(ts, t)
		}
		if err == nil {
			err = tensor.BackPropagate(ts[root])
		}
	}); p != nil || err != nil {
		k.Failf("head %d / BackPropagate through FC failed: panic=%v err=%v", head, p, err)
		return
	}
	xs := []*ref.T{x, curW, curB}
	want := prog.Grad(vals, root, nil, ref.RuleSum)[:3]
	avg := prog.Grad(vals, root, nil, ref.RuleAvg)[:3]
	fresh := fc.Weights()
	tens := []tensor.Tensor{rx, *fresh[0].Value, *fresh[1].Value}
	names := []string{"input", "Weight", "Bias"}
	allAvg, anyMismatch := true, ""
	// The layer output is computed in floating point on both sides: each y[b][o] carries a rounding error of at most
	// delta = (D+2) ulps of |W|*sum_d|x| + |B| (the order of the D additions is the implementation's choice). Every head here has a
	// derivative that is 2-Lipschitz or better in y (the exact-fit heads have the residual itself as derivative), so an error of delta in
	// y moves dW[o] by at most 2*delta*|g|*sum_d|x| per row, dB[o] by 2*delta*|g| per row and dx[b][d] by 2*delta*|g|*|W| per unit.
	// For the layer sizes of most cases (D <= 7) this is 1e-12 and changes nothing; for a row of 1023 features it is what a
	// cancelled residual is worth (false alarm at thorough seed 41, DESIGN 6.18).
	fwdTol := [3]float64{}
	{
		sax, wmax, bmax, gmax := 0., maxAbs(curW), maxAbs(curB), maxAbs(g)
		for b := 0; b < B; b++ {
			row := 0.
			for d := 0; d < x.Shape[1]; d++ {
				row += math.Abs(x.Data[b*x.Shape[1]+d])
			}
			sax = math.Max(sax, row)
		}
		delta := 2.3e-16 * float64(x.Shape[1]+2) * (wmax*sax + bmax)
		if head == 6 {
			gmax *= 4 // 3*y + sin(y): slope up to 4
		}
		fwdTol = [3]float64{2 * delta * gmax * wmax * float64(O), 2 * delta * gmax * sax * float64(B), 2 * delta * gmax * float64(B)}
	}
	for i, t := range tens {
		gr := t.Gradient()
		if i == 0 && !trackX {
			if gr != nil {
				k.Failf("untracked input received a gradient")
				return
			}
			continue
		}
		if gr == nil {
			k.Failf("%s received no gradient", names[i])
			return
		}
		got, err := rt.Read(gr)
		if err != nil || !ref.SameShape(got.Shape, xs[i].Shape) {
			k.Failf("gradient of %s has shape %v, the tensor has %v (%v)", names[i], got, xs[i].Shape, err)
			return
		}
		if e := rt.CompareRef(got, want[i], 1e-10*(1+maxAbs(want[i]))+fwdTol[i], 1e-9, nil, 0); e != nil {
			if anyMismatch == "" {
				anyMismatch = fmt.Sprintf("gradient of %s: %v", names[i], e)
			}
		}
		if rt.CompareRef(got, avg[i], 1e-10*(1+maxAbs(avg[i]))+fwdTol[i], 1e-9, nil, 0) != nil {
			allAvg = false
		}
	}
	k.Count("backprops", 1)
	if anyMismatch == "" {
		return
	}
	if B > 1 && allAvg {
		k.Knownf(knownBroadcastMean, "FC batch %d: dW and dB equal the closed forms divided by the batch size (%s)", B, anyMismatch)
		return
	}
	k.Failf("FC (batch %d, features %d, outputs %d): %s", B, D, O, anyMismatch)
}

// c16Param: a replacement parameter is a tracked leaf or, one time in three, the tracked RESULT of a shape operation on a
// tracked [Outputs,1] / [1,Outputs] matrix (Squeeze, Flatten, Reshape) - still a tensor of shape [Outputs] that must receive its gradient.
func c16Param(k *fw.K, v *ref.T) tensor.Tensor {
	if k.Rng.Intn(3) != 0 {
		return rt.MustLeaf(v, true)
	}
	n := len(v.Data)
	k.Count("parameters_derived_by_a_shape_operation", 1)
	var t tensor.Tensor
	var err error
	switch k.Rng.Intn(3) {
	case 0:
		t, err = rt.MustLeaf(ref.New([]int{n, 1}, v.Data), true).Squeeze(1)
	case 1:
		t, err = rt.MustLeaf(ref.New([]int{1, n}, v.Data), true).Flatten(0)
	default:
		t, err = rt.MustLeaf(ref.New([]int{n, 1}, v.Data), true).Reshape([]int{n})
	}
	if err != nil {
		panic("harness: derived parameter: " + err.Error())
	}
	return t
}

// fcVariant turns a layer built by NewFC into the layer the history works on: the same object, a layer assembled as a
// struct literal from the two parameter tensors (FC's fields are exported), or a VALUE COPY of the layer taken after
// Weights() had been called on the original. after() reports if the original was touched by work done on the copy.
func fcVariant(k *fw.K, built *layers.FC) (fc *layers.FC, how string, after func() string) {
	none := func() string { return "" }
	switch k.Rng.Intn(4) {
	case 0:
		return &layers.FC{Weight: built.Weight, Bias: built.Bias}, "struct literal", none
	case 1:
		_ = built.Weights()
		w0, b0 := built.Weight, built.Bias
		cp := *built
		return &cp, "value copy of the layer", func() string {
			if built.Weight != w0 || built.Bias != b0 {
				return "work on a value copy of the layer replaced the parameters of the original layer"
			}
			return ""
		}
	}
	return built, "NewFC", none
}

func c16Defaults(k *fw.K) {
	D, O := 1+k.Rng.Intn(8), 1+k.Rng.Intn(8)
	k.Case = map[string]any{"defaults": true, "inputs": D, "outputs": O}
	k.Key("defaults/%d/%d", D, O)
	k.Count("default_initializer_cases", 1)
	var fc *layers.FC
	var err error
	if p := call(func() { fc, err = layers.NewFC(&layers.FCConfig{Inputs: D, Outputs: O}) }); p != nil || err != nil {
		k.Failf("NewFC defaults: panic=%v err=%v", p, err)
		return
	}
	ws := fc.Weights()
	w, e1 := rt.Read(*ws[0].Value)
	b, e2 := rt.Read(*ws[1].Value)
	if e1 != nil || e2 != nil || !ref.SameShape(w.Shape, []int{O}) || !ref.SameShape(b.Shape, []int{O}) {
		k.Failf("default parameters unreadable or wrongly shaped: %v %v", e1, e2)
		return
	}
	bound := math.Sqrt(6 / float64(D+O))
	for _, v := range w.Data {
		if !(v >= -bound && v < bound) {
			k.Failf("default Weight element %v outside +-sqrt(6/(%d+%d)) = %v", v, D, O, bound)
			return
		}
	}
	for _, v := range b.Data {
		if v != 0 {
			k.Failf("default Bias element %v is not 0", v)
			return
		}
	}
	if !ws[0].Trainable || !ws[1].Trainable {
		k.Failf("default parameters not marked trainable")
	}
	for i, p := range ws {
		if st, ok := tensor.VerifGradState(*p.Value); ok && !st.Tracked {
			k.Failf("default parameter %d is not tracked", i)
		}
	}
	// trackedness through the public API: a back-propagation must reach both
	x := rt.MustLeaf(RandT(k.Rng, []int{2, D}, -1, 1), false)
	y, err := fc.Forward(x)
	if err == nil {
		err = tensor.BackPropagate(y)
	}
	if err != nil || (*ws[0].Value).Gradient() == nil || (*ws[1].Value).Gradient() == nil {
		k.Failf("default parameters did not receive gradients (err=%v)", err)
	}
}

// c16SharedInitializer: ONE initializer object supplies Weight and Bias (and a second layer of the same
// width built from the same Initializers map): the parameters must be independent tensors - a gradient
// that belongs to one must not appear on another.
func c16SharedInitializer(k *fw.K) {
	D, O := 1+k.Rng.Intn(4), 1+k.Rng.Intn(4)
	val := 0.5 + k.Rng.Float64()
	full := initializers.NewFull(&initializers.FullConfig{Value: val})
	k.Case = map[string]any{"scenario": "one Full initializer object for Weight and Bias of two layers", "inputs": D, "outputs": O, "value": val}
	k.Key("shared-initializer/%d/%d", D, O)
	k.Count("shared_initializer_cases", 1)
	inits := map[string]layers.Initializer{"Weight": full, "Bias": full}
	var l1, l2 *layers.FC
	var err error
	if p := call(func() {
		l1, err = layers.NewFC(&layers.FCConfig{Inputs: D, Outputs: O, Initializers: inits})
		if err == nil {
			l2, err = layers.NewFC(&layers.FCConfig{Inputs: D, Outputs: O, Initializers: inits})
		}
	}); p != nil || err != nil {
		k.Failf("NewFC with a shared initializer: panic=%v err=%v", p, err)
		return
	}
	x := Shuffled(k.Rng, Unique(k.Rng, []int{1, D}, 0.2, 2)) // batch 1: no expansion, gradients are exact
	g := randG(k, []int{1, O})
	for li, l := range []*layers.FC{l1, l2} {
		var y tensor.Tensor
		if p := call(func() {
			y, err = l.Forward(rt.MustLeaf(x, false))
			if err == nil {
				err = weightedBackprop(y, g)
			}
		}); p != nil || err != nil {
			k.Failf("layer %d built from the shared initializer: Forward/BackPropagate failed: panic=%v err=%v", li+1, p, err)
			return
		}
		w := ref.Full([]int{O}, val)
		yv, _ := ref.FC(x, w, w)
		want := ref.VJP(ref.Instr{Op: "fc"}, []*ref.T{x, w, w}, yv, g, ref.RuleSum)
		ws := l.Weights()
		for i, name := range []string{"Weight", "Bias"} {
			gr := (*ws[i].Value).Gradient()
			if gr == nil {
				k.Failf("layer %d: %s received no gradient (parameters built by one initializer object are not independent tensors?)", li+1, name)
				return
			}
			got, err := rt.Read(gr)
			if err != nil {
				k.Failf("layer %d: %s gradient unreadable: %v", li+1, name, err)
				return
			}
			if e := gradClose(got, want[1+i]); e != nil {
				k.Failf("layer %d: gradient of %s differs from its own derivative (a gradient belonging to another parameter leaked in?): %v", li+1, name, e)
				return
			}
		}
	}
}

// c16Accumulate: several Forward calls on one layer, all made BEFORE the first BackPropagate, then one
// back-propagation per output (micro-batch accumulation): W and B must end with the sum of the shares.
func c16Accumulate(k *fw.K) {
	D, O := 1+k.Rng.Intn(4), 1+k.Rng.Intn(4)
	n := 2 + k.Rng.Intn(3)
	w, b := Shuffled(k.Rng, Unique(k.Rng, []int{O}, 0.2, 2)), Shuffled(k.Rng, Unique(k.Rng, []int{O}, 0.2, 2))
	k.Case = map[string]any{"scenario": "n Forward calls, then n BackPropagate calls (gradient accumulation)", "inputs": D, "outputs": O, "n": n, "W": w.Data, "B": b.Data}
	k.Key("accumulate/%d/%d/%d", D, O, n)
	k.Count("accumulation_cases", 1)
	fc, err := layers.NewFC(&layers.FCConfig{Inputs: D, Outputs: O, Initializers: map[string]layers.Initializer{"Weight": fixedInit{w}, "Bias": fixedInit{b}}})
	if err != nil {
		k.Failf("NewFC: %v", err)
		return
	}
	var ys []tensor.Tensor
	var xs, gs []*ref.T
	for i := 0; i < n; i++ {
		x := Shuffled(k.Rng, Unique(k.Rng, []int{1, D}, 0.2, 2)) // batch 1: no expansion, exact
		g := randG(k, []int{1, O})
		var y tensor.Tensor
		if p := call(func() {
			y, err = fc.Forward(rt.MustLeaf(x, false))
			if err == nil {
				y, err = y.Mul(rt.MustLeaf(g, false))
			}
		}); p != nil || err != nil {
			k.Failf("Forward %d: panic=%v err=%v", i, p, err)
			return
		}
		ys, xs, gs = append(ys, y), append(xs, x), append(gs, g)
	}
	wantW, wantB := ref.Zeros([]int{O}), ref.Zeros([]int{O})
	for i := range ys {
		if p := call(func() { err = tensor.BackPropagate(ys[i]) }); p != nil || err != nil {
			k.Failf("BackPropagate %d of %d: panic=%v err=%v", i+1, n, p, err)
			return
		}
		yv, _ := ref.FC(xs[i], w, b)
		v := ref.VJP(ref.Instr{Op: "fc"}, []*ref.T{xs[i], w, b}, yv, gs[i], ref.RuleSum)
		for o := 0; o < O; o++ {
			wantW.Data[o] += v[1].Data[o]
			wantB.Data[o] += v[2].Data[o]
		}
		if k.Index%2 == 0 {
			// a validation / logging pass through the same layer between the back-propagation and the reading of the gradients:
			// Forward computes an output, it does not touch what the parameters hold
			if p := call(func() { _, err = fc.Forward(rt.MustLeaf(Shuffled(k.Rng, Unique(k.Rng, []int{2, D}, 0.2, 2)), false)) }); p != nil || err != nil {
				k.Failf("extra Forward after back-propagation %d: panic=%v err=%v", i+1, p, err)
				return
			}
			k.Count("forward_passes_between_back_propagation_and_gradient_read", 1)
		}
		for pi, want := range []*ref.T{wantW, wantB} {
			gr := (*fc.Weights()[pi].Value).Gradient()
			if gr == nil {
				k.Failf("after back-propagation %d of %d: parameter %d has no gradient", i+1, n, pi)
				return
			}
			got, err := rt.Read(gr)
			if err != nil {
				k.Failf("gradient unreadable: %v", err)
				return
			}
			if e := gradClose(got, want); e != nil {
				k.Failf("after back-propagation %d of %d graphs that were all built beforehand: gradient of %s is not the sum of the shares: %v", i+1, n, []string{"Weight", "Bias"}[pi], e)
				return
			}
		}
	}
	// a step that is skipped: the parameters are given a fresh context (not replaced) and the layer is used again;
	// the next back-propagation delivers that pass's gradient alone
	for _, wp := range fc.Weights() {
		(*wp.Value).ResetGradContext(true)
	}
	x := Shuffled(k.Rng, Unique(k.Rng, []int{1, D}, 0.2, 2))
	g := randG(k, []int{1, O})
	if p := call(func() {
		var y tensor.Tensor
		if y, err = fc.Forward(rt.MustLeaf(x, false)); err == nil {
			if y, err = y.Mul(rt.MustLeaf(g, false)); err == nil {
				err = tensor.BackPropagate(y)
			}
		}
	}); p != nil || err != nil {
		k.Failf("pass after re-arming the parameters: panic=%v err=%v", p, err)
		return
	}
	yv, _ := ref.FC(x, w, b)
	v := ref.VJP(ref.Instr{Op: "fc"}, []*ref.T{x, w, b}, yv, g, ref.RuleSum)
	for pi := 0; pi < 2; pi++ {
		gr := (*fc.Weights()[pi].Value).Gradient()
		if gr == nil {
			k.Failf("pass after re-arming the parameters: parameter %d has no gradient", pi)
			return
		}
		got, err := rt.Read(gr)
		if err != nil || gradClose(got, v[1+pi]) != nil {
			k.Failf("after ResetGradContext(true) on the parameters (a skipped step) and one more pass: gradient of %s is %v, that pass alone gives %v (%v)", []string{"Weight", "Bias"}[pi], got, v[1+pi].Data, err)
			return
		}
	}
	k.Count("passes_after_re_arming_the_parameters", 1)
}

// c16Overflow: finite parameters and finite features whose output OVERFLOWS for some units (y = +-Inf there) while others stay
// finite. Forward is still the formula evaluated in float64; and d y[b][o] / d B[o] = 1, d y[b][o] / d x[b][d] = W[o] whatever
// the value of y is - back-propagating from the layer's output delivers the number of rows to B and sum_o W[o] to every input.
func c16Overflow(k *fw.K) {
	D, O, B := 1+k.Rng.Intn(3), 2+k.Rng.Intn(2), 1
	w := Shuffled(k.Rng, Unique(k.Rng, []int{O}, 0.2, 0.9))
	w.Data[0] = 1.5 + k.Rng.Float64() // this unit overflows: 1.5 * D * 1e308
	if k.Rng.Intn(2) == 0 {
		w.Data[0] = -w.Data[0]
	}
	b := Shuffled(k.Rng, Unique(k.Rng, []int{O}, 0.2, 2))
	x := ref.Full([]int{B, D}, 1e308/float64(D)) // sum_d x = 1e308: finite in every order of evaluation; only unit 0 (|W| >= 1.5) overflows
	k.Case = map[string]any{"scenario": "outputs that overflow for some units", "W": w.Data, "B": b.Data, "x": x.Data}
	k.Key("overflow/%d/%d", D, O)
	k.Count("overflow_cases", 1)
	fc, err := layers.NewFC(&layers.FCConfig{Inputs: D, Outputs: O, Initializers: map[string]layers.Initializer{"Weight": fixedInit{w}, "Bias": fixedInit{b}}})
	if err != nil {
		k.Failf("NewFC: %v", err)
		return
	}
	rx := rt.MustLeaf(x, true)
	var y tensor.Tensor
	if p := call(func() {
		if y, err = fc.Forward(rx); err == nil {
			err = tensor.BackPropagate(y)
		}
	}); p != nil || err != nil {
		k.Failf("Forward / BackPropagate with overflowing outputs: panic=%v err=%v", p, err)
		return
	}
	yv, err := rt.Read(y)
	if err != nil {
		k.Failf("output unreadable: %v", err)
		return
	}
	for o := 0; o < O; o++ {
		want := w.Data[o]*1e308 + b.Data[o]
		got := yv.Data[o]
		if math.IsInf(want, 0) != math.IsInf(got, 0) || (!math.IsInf(want, 0) && !ref.Close(got, want, 0, 1e-11)) {
			k.Failf("output %d = %v, the formula gives %v", o, got, want)
			return
		}
	}
	gb := (*fc.Weights()[1].Value).Gradient()
	gx := rx.Gradient()
	if gb == nil || gx == nil {
		k.Failf("Bias or the tracked input received no gradient (nil: bias %v, input %v)", gb == nil, gx == nil)
		return
	}
	bv, e1 := rt.Read(gb)
	xv, e2 := rt.Read(gx)
	if e1 != nil || e2 != nil {
		k.Failf("gradients unreadable: %v %v", e1, e2)
		return
	}
	for o, v := range bv.Data {
		if v != 1 {
			k.Failf("d(sum of outputs)/dB[%d] = %v with an overflowing unit in the layer, expected 1 (batch of one row)", o, v)
			return
		}
	}
	sw := 0.
	for _, v := range w.Data {
		sw += v
	}
	for d, v := range xv.Data {
		if !ref.Close(v, sw, 1e-12, 1e-12) {
			k.Failf("d(sum of outputs)/dx[0][%d] = %v with an overflowing unit in the layer, expected sum_o W[o] = %v", d, v, sw)
			return
		}
	}
}

// c16InfiniteFeature: one row of the batch holds an infinite feature (a missing value encoded as Inf, an overflowed
// pre-processing step). Forward still evaluates the formula: that row's outputs are W[o]*(+-Inf) + B[o] = +-Inf (NaN when the
// row holds both infinities), and every other row - which depends on its own input row only - has its finite values.
func c16InfiniteFeature(k *fw.K) {
	r := k.Rng
	D, O, B := 1+r.Intn(4), 1+r.Intn(3), 2+r.Intn(3)
	w, b := Shuffled(r, Unique(r, []int{O}, 0.2, 2)), Shuffled(r, Unique(r, []int{O}, 0.2, 2))
	for o := range w.Data {
		if r.Intn(2) == 0 {
			w.Data[o] = -w.Data[o]
		}
	}
	x := Shuffled(r, Unique(r, []int{B, D}, 0.2, 2))
	row := r.Intn(B)
	x.Data[row*D+r.Intn(D)] = math.Inf(1)
	if r.Intn(2) == 0 {
		x.Data[row*D+r.Intn(D)] = math.Inf(-1)
	}
	k.Case = map[string]any{"scenario": "one input row holds an infinite feature", "W": w.Data, "B": b.Data, "x": x.Data, "batch": B, "inputs": D}
	k.Key("infinite-feature/%d/%d/%d", B, D, O)
	k.Count("infinite_feature_cases", 1)
	fc, err := layers.NewFC(&layers.FCConfig{Inputs: D, Outputs: O, Initializers: map[string]layers.Initializer{"Weight": fixedInit{w}, "Bias": fixedInit{b}}})
	if err != nil {
		k.Failf("NewFC: %v", err)
		return
	}
	var y tensor.Tensor
	if p := call(func() { y, err = fc.Forward(rt.MustLeaf(x, r.Intn(2) == 0)) }); p != nil || err != nil || y == nil {
		k.Failf("Forward on a [%d,%d] batch whose row %d holds an infinite feature: panic=%v err=%v", B, D, row, p, err)
		return
	}
	want, _ := ref.FC(x, w, b)
	if e := rt.Compare(y, want, 1e-12, 1e-12, nil, 0); e != nil {
		k.Failf("Forward on a [%d,%d] batch whose row %d holds an infinite feature: %v", B, D, row, e)
	}
}

// c16OutputUsedTwice: the layer output y reaches the root along two purely additive paths (y + y, (y + c) + y: a residual sum, the
// same gradient object travels both ways), or through a head that is switched off with an exact factor 0 next to a live head
// (l1.Scale(1) + l2.Scale(0)). Batch of one row: no expansion, the parameters' gradients are decided exactly - twice the
// single-path gradient in the first case, zeros of the parameter's shape (not nil) for the switched-off layer in the second.
func c16OutputUsedTwice(k *fw.K) {
	r := k.Rng
	D, O := 1+r.Intn(4), 1+r.Intn(4)
	mk := func() (*layers.FC, *ref.T, *ref.T, error) {
		w, b := Shuffled(r, Unique(r, []int{O}, 0.2, 2)), Shuffled(r, Unique(r, []int{O}, 0.2, 2))
		fc, err := layers.NewFC(&layers.FCConfig{Inputs: D, Outputs: O, Initializers: map[string]layers.Initializer{"Weight": fixedInit{w}, "Bias": fixedInit{b}}})
		return fc, w, b, err
	}
	fc1, w1, b1, err := mk()
	if err != nil {
		k.Failf("NewFC: %v", err)
		return
	}
	x := Shuffled(r, Unique(r, []int{1, D}, 0.2, 2))
	sx := 0.
	for _, v := range x.Data {
		sx += v
	}
	variant := r.Intn(3)
	k.Case = map[string]any{"scenario": []string{"y + y", "(y + c) + y", "head 1 * 1 + head 2 * 0"}[variant], "inputs": D, "outputs": O, "W": w1.Data, "B": b1.Data, "x": x.Data}
	k.Key("output-used-twice/%d/%d/%d", variant, D, O)
	k.Count("output_used_twice_cases", 1)
	var fc2 *layers.FC
	if pn := call(func() {
		var y, z tensor.Tensor
		if y, err = fc1.Forward(rt.MustLeaf(x, false)); err != nil {
			return
		}
		switch variant {
		case 0:
			z, err = y.Add(y)
		case 1:
			if z, err = y.Add(rt.MustLeaf(Shuffled(r, Unique(r, []int{1, O}, 0.2, 2)), false)); err == nil {
				z, err = z.Add(y)
			}
		default:
			if fc2, _, _, err = mk(); err != nil {
				return
			}
			var y2 tensor.Tensor
			if y2, err = fc2.Forward(rt.MustLeaf(x, false)); err == nil {
				z, err = y.Scale(1).Add(y2.Scale(0))
			}
		}
		if err == nil {
			err = tensor.BackPropagate(z)
		}
	}); pn != nil || err != nil {
		k.Failf("forward / back-propagation: panic=%v err=%v", pn, err)
		return
	}
	mult := 2.
	if variant == 2 {
		mult = 1
	}
	check := func(fc *layers.FC, which string, m float64) bool {
		for pi, name := range []string{"Weight", "Bias"} {
			gr := (*fc.Weights()[pi].Value).Gradient()
			if gr == nil {
				k.Failf("%s of %s received no gradient (expected %v times the single-path gradient, of the parameter's shape)", name, which, m)
				return false
			}
			got, err := rt.Read(gr)
			if err != nil || !ref.SameShape(got.Shape, []int{O}) {
				k.Failf("gradient of %s of %s unreadable or of shape %v: %v", name, which, got, err)
				return false
			}
			for o, v := range got.Data {
				want := m
				if pi == 0 {
					want = m * sx
				}
				if !ref.Close(v, want, 1e-12, 1e-12) {
					k.Failf("gradient of %s[%d] of %s = %v, expected %v (batch of one row: d y[0][o]/dW[o] = sum_d x = %v, d y[0][o]/dB[o] = 1; the output reaches the root %v time(s))", name, o, which, v, want, sx, m)
					return false
				}
			}
		}
		return true
	}
	if !check(fc1, "the layer", mult) {
		return
	}
	if fc2 != nil {
		check(fc2, "the layer whose output is multiplied by an exact 0", 0)
	}
}
