package props

import (
	"fmt"
	"math"

	"github.com/sahandsafizadeh/qeep/tensor"

	"qeepverif/internal/fw"
	"qeepverif/internal/ref"
	"qeepverif/internal/rt"
)

// C06 — indexing, reshaping and construction move elements without changing them.

func init() {
	fw.Register(&fw.Prop{
		ID: "C06",
		Rule: "differential monitor, exact comparison (operations are value-parametric and all operand values identify their position): At on every multi-index and NElems = prod(Shape) for every tensor built; Slice with EVERY index list (each position omitted / {0,0} / any 0<=From<To<=d) for rank <= 3 and sampled index lists for rank 4-6; Patch with every source shape <= target, every offset and every omitted/{0,0}/explicit mix for rank <= 3 (sampled above); Concat along every dim of 2-4 operands with different sizes; Reshape to every shape with the same element count (rank <= 4 targets exhaustive, 5-6 sampled); Flatten/Squeeze/UnSqueeze at every dim; Broadcast to every target made of 0-2 new leading dims x each size-1 dim kept or expanded; Full/Zeros/Ones/Eye(1..40 and sizes around 64, 128, 256; to 1000 in thorough)/TensorOf at every nesting depth. " +
			"Round-trip monitors on the real results: Slice(Patch(t,idx,s), region) = s, Slice(Concat(ts), block_i) = ts_i. Non-trivial: the result or operand has >= 2 elements; distinct = (op, shapes, argument form). Later additions: sampled shapes with sizes up to 7; forward chains of 2-8 shape / index / element-wise operations with all earlier nodes re-read at the end; the keepdims idiom on ranks 3-6; one index slice object re-used for calls on tensors of different extents; tensors that took part in rejected calls are used again." +
			" Round 4: constructors on 4096..5000 elements of rank 1-4.",
		Assumptions: []string{"operands of rank <= 4 are built with TensorOf on nested slices, rank 5-6 with TensorOf(flat)+Reshape"},
		FloorQuick:  20000, FloorThor: 100000,
		Run: runC06,
	})
}

// allRanges: {0,0} plus every 0<=f<t<=d
func allRanges(d int) []ref.Range {
	out := []ref.Range{{From: 0, To: 0}}
	for f := 0; f < d; f++ {
		for t := f + 1; t <= d; t++ {
			out = append(out, ref.Range{From: f, To: t})
		}
	}
	return out
}

// indexLists enumerates every index list of length 0..len(shape) whose positions come from opts(i).
func indexLists(n int, opts func(i int) []ref.Range) [][]ref.Range {
	out := [][]ref.Range{nil}
	var rec func(cur []ref.Range)
	rec = func(cur []ref.Range) {
		if len(cur) > 0 {
			out = append(out, append([]ref.Range(nil), cur...))
		}
		if len(cur) == n {
			return
		}
		for _, r := range opts(len(cur)) {
			rec(append(cur, r))
		}
	}
	rec(nil)
	return out
}

func idxKey(index []ref.Range) string {
	s := ""
	for _, r := range index {
		if r.From == 0 && r.To == 0 {
			s += "w"
		} else {
			s += fmt.Sprintf("[%d,%d)", r.From, r.To)
		}
	}
	return fmt.Sprintf("%d:%s", len(index), s)
}

func runC06(c *fw.Ctx) {
	deeperBounds(!c.Quick())
	// ---- construction + At + NElems ----
	for _, shape := range Shapes(0, c.Pick(4, 6), 3) {
		shape := shape
		c.Case(func(k *fw.K) { c06Construct(k, shape) })
	}
	for _, shape := range [][]int{{64, 64}, {65, 63}, {128, 33}, {2, 2048}, {4097, 1}, {1, 4099}, {16, 16, 17}, {8, 8, 8, 9}, {100, 41}, {3, 1366}, {4096}, {5000}} {
		shape := shape // constructors at and beyond a few thousand elements
		c.Case(func(k *fw.K) { c06Construct(k, shape) })
	}
	eyes := []int{-1, 0, 63, 64, 65, 66, 96, 100, 127, 128, 129, 200, 256}
	for n := 1; n <= 40; n++ {
		eyes = append(eyes, n)
	}
	if !c.Quick() {
		eyes = append(eyes, 257, 300, 511, 512, 513, 1000)
	}
	for _, n := range eyes {
		n := n
		c.Case(func(k *fw.K) { c06Eye(k, n) })
	}

	// ---- Slice ----
	small := append(Shapes(1, 3, 3), Shapes(1, 2, 4)...)
	for _, shape := range small {
		shape := shape
		for _, index := range indexLists(len(shape), func(i int) []ref.Range { return allRanges(shape[i]) }) {
			index := index
			c.Case(func(k *fw.K) { c06Slice(k, shape, index) })
		}
	}
	for i := 0; i < c.Pick(10000, 100000); i++ {
		c.Case(func(k *fw.K) {
			shape := RandShape(k.Rng, 4, maxSampledRank, 3)
			n := k.Rng.Intn(len(shape) + 1)
			index := make([]ref.Range, n)
			for q := range index {
				rs := allRanges(shape[q])
				index[q] = rs[k.Rng.Intn(len(rs))]
			}
			c06Slice(k, shape, index)
		})
	}

	// ---- Patch ----
	for _, dst := range Shapes(1, 3, 3) {
		for _, src := range Shapes(len(dst), len(dst), 3) {
			fits := true
			for i := range src {
				fits = fits && src[i] <= dst[i]
			}
			if !fits {
				continue
			}
			dst, src := dst, src
			lists := indexLists(len(dst), func(i int) []ref.Range {
				o := []ref.Range{{From: 0, To: 0}}
				for off := 0; off+src[i] <= dst[i]; off++ {
					o = append(o, ref.Range{From: off, To: off + src[i]})
				}
				return o
			})
			for _, index := range lists {
				index := index
				c.Case(func(k *fw.K) { c06Patch(k, dst, src, index) })
			}
		}
	}
	for i := 0; i < c.Pick(10000, 100000); i++ {
		c.Case(func(k *fw.K) {
			dst := RandShape(k.Rng, 4, maxSampledRank, 3)
			src := make([]int, len(dst))
			for q := range src {
				src[q] = 1 + k.Rng.Intn(dst[q])
			}
			n := k.Rng.Intn(len(dst) + 1)
			index := make([]ref.Range, n)
			for q := range index {
				if k.Rng.Intn(3) == 0 {
					continue // {0,0}
				}
				off := k.Rng.Intn(dst[q] - src[q] + 1)
				index[q] = ref.Range{From: off, To: off + src[q]}
			}
			c06Patch(k, dst, src, index)
		})
	}

	for i := 0; i < c.Pick(4000, 40000); i++ { // sizes up to 7: Slice, Patch, Concat, Reshape, Flatten, Broadcast
		c.Case(func(k *fw.K) {
			shape := BigShape(k.Rng, 1, 500)
			k.Count("big_shape_cases", 1)
			switch k.Rng.Intn(5) {
			case 0:
				index := make([]ref.Range, k.Rng.Intn(len(shape)+1))
				for q := range index {
					rs := allRanges(shape[q])
					index[q] = rs[k.Rng.Intn(len(rs))]
				}
				c06Slice(k, shape, index)
			case 1:
				src := make([]int, len(shape))
				for q := range src {
					src[q] = 1 + k.Rng.Intn(shape[q])
				}
				index := make([]ref.Range, k.Rng.Intn(len(shape)+1))
				for q := range index {
					if k.Rng.Intn(3) == 0 {
						continue
					}
					off := k.Rng.Intn(shape[q] - src[q] + 1)
					index[q] = ref.Range{From: off, To: off + src[q]}
				}
				c06Patch(k, shape, src, index)
			case 2:
				if ref.Prod(shape) <= 120 {
					c06Concat(k, shape, k.Rng.Intn(len(shape)), 2+k.Rng.Intn(3))
				}
			case 3:
				ts := shapesWithProduct(ref.Prod(shape), 4)
				target := ts[k.Rng.Intn(len(ts))]
				c06Simple(k, ref.Instr{Op: "reshape", Shape: target}, shape, "reshape/"+shapeKey(shape)+"/"+shapeKey(target))
			default:
				src := ref.CopyInts(shape)
				for q := range src {
					if k.Rng.Intn(2) == 0 {
						src[q] = 1
					}
				}
				src = src[k.Rng.Intn(len(src)):]
				c06Simple(k, ref.Instr{Op: "broadcast", Shape: shape}, src, "broadcast/"+shapeKey(src)+"/"+shapeKey(shape))
			}
		})
	}

	// ---- one index slice object used for two calls on tensors of different extents ----
	for i := 0; i < c.Pick(2000, 20000); i++ {
		c.Case(func(k *fw.K) { c06IndexReuse(k) })
		c.Case(func(k *fw.K) { c06Siblings(k) })
		c.Case(func(k *fw.K) { c06FirstReader(k) })
	}
	// tensors that took part in REJECTED calls are used again
	for i := 0; i < c.Pick(2000, 20000); i++ {
		c.Case(func(k *fw.K) { rejectThenReuse(k, RandShape(k.Rng, 0, 4, 3)) })
	}
	// ---- chains: operands with a history ----
	for i := 0; i < c.Pick(4000, 60000); i++ {
		c.Case(func(k *fw.K) {
			p := genChain(k.Rng, 2+k.Rng.Intn(6))
			k.Case = c01case{Family: "forward chain of shape / index / element-wise operations", Prog: p}
			k.Key("%s", chainKey(p))
			k.Count("chain_cases", 1)
			runChain(k, p)
		})
	}
	// the keepdims idiom on ranks 3..6: reduce along dim, UnSqueeze at the same dim; the reduced tensor must stay intact
	for _, shape := range Shapes(3, c.Pick(5, 6), 2) {
		for dim := range shape {
			shape, dim := shape, dim
			c.Case(func(k *fw.K) {
				x := Shuffled(k.Rng, Unique(k.Rng, shape, 0.1, 3))
				op := []string{"sumalong", "maxalong", "meanalong"}[k.Rng.Intn(3)]
				p := ref.Prog{{Op: "leaf", Shape: shape, Data: x.Data}, {Op: op, In: []int{0}, Dim: dim}, {Op: "unsqueeze", In: []int{1}, Dim: dim},
					{Op: "unsqueeze", In: []int{1}, Dim: 0}, {Op: "flatten", In: []int{1}, Dim: 0}}
				k.Case = c01case{Family: "keepdims idiom", Prog: p}
				k.Key("keepdims/%s/%d", shapeKey(shape), dim)
				k.Count("chain_cases", 1)
				runChain(k, p)
			})
		}
	}

	// ---- Concat ----
	for _, base := range Shapes(1, c.Pick(3, 4), 3) {
		for dim := range base {
			for nops := 2; nops <= 4; nops++ {
				for rep := 0; rep < 2; rep++ {
					base, dim, nops := base, dim, nops
					c.Case(func(k *fw.K) { c06Concat(k, base, dim, nops) })
				}
			}
		}
	}

	// ---- Concat of many operands (5..65) along every dimension, also with leading dimensions smaller than the operand count ----
	for _, nops := range []int{5, 7, 8, 9, 10, 12, 16, 17, 31, 33, 40, 65} {
		for _, base := range [][]int{{1}, {2, 1}, {1, 2}, {2, 3}, {3, 1, 2}, {2, 2, 1}, {1, 1, 3}, {2, 1, 1, 2}} {
			for dim := range base {
				base, dim, nops := base, dim, nops
				c.Case(func(k *fw.K) { c06Concat(k, base, dim, nops) })
			}
		}
	}

	// ---- Reshape / Flatten / Squeeze / UnSqueeze ----
	for _, shape := range Shapes(0, 4, 3) {
		n := ref.Prod(shape)
		for _, target := range shapesWithProduct(n, c.Pick(3, 4)) {
			shape, target := shape, target
			c.Case(func(k *fw.K) {
				c06Simple(k, ref.Instr{Op: "reshape", Shape: target}, shape, "reshape/"+shapeKey(shape)+"/"+shapeKey(target))
			})
		}
	}
	for i := 0; i < c.Pick(4000, 40000); i++ { // high-rank reshapes
		c.Case(func(k *fw.K) {
			shape := RandShape(k.Rng, 0, maxSampledRank, 3)
			ts := shapesWithProduct(ref.Prod(shape), 6)
			target := ts[k.Rng.Intn(len(ts))]
			c06Simple(k, ref.Instr{Op: "reshape", Shape: target}, shape, "reshape/"+shapeKey(shape)+"/"+shapeKey(target))
		})
	}
	// ---- Reshape between shapes of EQUAL rank that collide under ad-hoc keys (the sizes written one after the other, equal products of
	// prefixes, permutations): [11,1] <-> [1,11], [1,2,12] <-> [12,1,2], [2,6] <-> [3,4] ... every ordered pair inside each group ----
	for gi, group := range CollidingShapes {
		gi, group := gi, group
		c.Case(func(k *fw.K) {
			k.Count("reshape_colliding_group_cases", 1)
			for _, a := range group {
				for _, b := range group {
					if ref.Prod(a) != ref.Prod(b) || ref.SameShape(a, b) {
						continue
					}
					c06Simple(k, ref.Instr{Op: "reshape", Shape: ref.CopyInts(b)}, a, fmt.Sprintf("reshape-colliding/%d/%s/%s", gi, shapeKey(a), shapeKey(b)))
					if k.Failed() {
						return
					}
				}
			}
		})
	}
	for _, shape := range Shapes(0, c.Pick(5, 6), 3) {
		for dim := 0; dim <= len(shape); dim++ {
			shape, dim := shape, dim
			if len(shape) < 6 {
				c.Case(func(k *fw.K) {
					c06Simple(k, ref.Instr{Op: "unsqueeze", Dim: dim}, shape, fmt.Sprintf("unsqueeze/%s/%d", shapeKey(shape), dim))
				})
			}
			if dim < len(shape) {
				c.Case(func(k *fw.K) {
					c06Simple(k, ref.Instr{Op: "flatten", Dim: dim}, shape, fmt.Sprintf("flatten/%s/%d", shapeKey(shape), dim))
				})
				if shape[dim] == 1 {
					c.Case(func(k *fw.K) {
						c06Simple(k, ref.Instr{Op: "squeeze", Dim: dim}, shape, fmt.Sprintf("squeeze/%s/%d", shapeKey(shape), dim))
					})
				}
			}
		}
	}

	// ---- Broadcast ----
	for _, src := range Shapes(0, c.Pick(3, 4), 3) {
		for _, target := range BroadcastTargets(src, 2) {
			src, target := src, target
			c.Case(func(k *fw.K) {
				c06Simple(k, ref.Instr{Op: "broadcast", Shape: target}, src, "broadcast/"+shapeKey(src)+"/"+shapeKey(target))
			})
		}
	}
}

// BroadcastTargets: (0..maxLead new leading dims, each 1..3) x (each size-1 dim kept or expanded to 2..3).
func BroadcastTargets(src []int, maxLead int) [][]int {
	var tails [][]int
	var rec func(i int, cur []int)
	rec = func(i int, cur []int) {
		if i == len(src) {
			tails = append(tails, ref.CopyInts(cur))
			return
		}
		if src[i] == 1 {
			for d := 1; d <= 3; d++ {
				rec(i+1, append(cur, d))
			}
		} else {
			rec(i+1, append(cur, src[i]))
		}
	}
	rec(0, nil)
	var out [][]int
	for _, lead := range Shapes(0, maxLead, 3) {
		for _, t := range tails {
			out = append(out, append(ref.CopyInts(lead), t...))
		}
	}
	return out
}

// shapesWithProduct: every shape of rank 0..maxRank with positive sizes whose product is n.
func shapesWithProduct(n, maxRank int) [][]int {
	var out [][]int
	var rec func(rem int, cur []int)
	rec = func(rem int, cur []int) {
		if rem == 1 {
			out = append(out, ref.CopyInts(cur))
		}
		if len(cur) == maxRank {
			return
		}
		for d := 1; d <= rem; d++ {
			if rem%d == 0 {
				if d == 1 && rem == 1 && len(cur) >= maxRank {
					continue
				}
				rec(rem/d, append(cur, d))
			}
		}
	}
	// the recursion above would loop on trailing 1s: bound by rank only
	rec(n, nil)
	seen := map[string]bool{}
	var uniq [][]int
	for _, s := range out {
		if !seen[fmt.Sprint(s)] {
			seen[fmt.Sprint(s)] = true
			uniq = append(uniq, s)
		}
	}
	return uniq
}

func c06Simple(k *fw.K, in ref.Instr, shape []int, key string) {
	x := Shuffled(k.Rng, Unique(k.Rng, shape, 0.1, 3))
	if k.Index%4 == 0 { // zeros of either sign among the values: copying keeps the sign
		for i := range x.Data {
			if k.Rng.Intn(3) == 0 || len(x.Data) == 1 {
				x.Data[i] = []float64{math.Copysign(0, -1), 0, math.Copysign(0, -1)}[k.Rng.Intn(3)]
			}
		}
		k.Count("cases_with_signed_zeros", 1)
	}
	k.Case = fcase{In: in, Ops: []*ref.T{x}}
	want, err := ref.Apply(in, []*ref.T{x})
	if err != nil {
		k.Failf("harness: %v", err)
		return
	}
	if len(want.Data) >= 2 {
		k.Key("%s", key)
	}
	k.Count(in.Op+"_cases", 1)
	k.Sample()
	if msg := forwardCase(in, []*ref.T{x}, true); msg != "" {
		k.Failf("%s: %s", key, msg)
	}
}

func c06Construct(k *fw.K, shape []int) {
	x := Shuffled(k.Rng, Unique(k.Rng, shape, 0.1, 3))
	k.Case = map[string]any{"op": "TensorOf/Full/Zeros/Ones + At + NElems", "shape": shape}
	if len(x.Data) >= 2 {
		k.Key("construct/%s", shapeKey(shape))
	}
	k.Count("construct_cases", 1)
	var msg string
	if p := call(func() {
		t, err := rt.Leaf(x, false)
		if err != nil {
			msg = "TensorOf: " + err.Error()
			return
		}
		if t.NElems() != len(x.Data) {
			msg = fmt.Sprintf("NElems() = %d, expected %d", t.NElems(), len(x.Data))
			return
		}
		if e := rt.Compare(t, x, 0, 0, nil, 0); e != nil {
			msg = "TensorOf/At: " + e.Error()
			return
		}
		if len(shape) == 2 {
			// TensorOf on rows that are WINDOWS into one buffer (in place, permuted, or with one row living elsewhere while the
			// buffer still holds stale values there): the tensor holds what the rows hold
			d0, d1 := shape[0], shape[1]
			for variant := 0; variant < 3; variant++ {
				buf := make([]float64, d0*d1+3)
				for i := range buf {
					buf[i] = 777
				}
				rows := make([][]float64, d0)
				perm := k.Rng.Perm(d0)
				for i := range rows {
					at := i
					if variant == 1 {
						at = perm[i]
					}
					rows[i] = buf[at*d1 : (at+1)*d1]
					copy(rows[i], x.Data[i*d1:(i+1)*d1])
				}
				if variant == 2 && d0 >= 2 {
					mid := d0 / 2
					if d0 >= 3 {
						mid = 1 + k.Rng.Intn(d0-2)
					}
					rows[mid] = append([]float64(nil), x.Data[mid*d1:(mid+1)*d1]...)
					for j := 0; j < d1; j++ {
						buf[mid*d1+j] = 777 // stale values where the row used to be
					}
				}
				tw, err := tensor.TensorOf(rows, nil)
				if err != nil {
					msg = "TensorOf(rows that are windows into one buffer): " + err.Error()
					return
				}
				if e := rt.Compare(tw, x, 0, 0, nil, 0); e != nil {
					msg = fmt.Sprintf("TensorOf(rows that are windows into one buffer, variant %d): %v", variant, e)
					return
				}
				for i := range buf {
					buf[i] = -1 // the caller's buffer is the caller's: overwriting it afterwards must not reach the tensor
				}
				if e := rt.Compare(tw, x, 0, 0, nil, 0); e != nil {
					msg = fmt.Sprintf("TensorOf kept a reference to the caller's buffer (variant %d): %v", variant, e)
					return
				}
			}
		}
		if len(shape) == 3 && shape[0]*shape[1] >= 3 {
			// the same for depth 3: every innermost row is a window into one buffer, one of them lives elsewhere
			d0, d1, d2 := shape[0], shape[1], shape[2]
			buf := make([]float64, d0*d1*d2)
			nested := make([][][]float64, d0)
			moved := 1 + k.Rng.Intn(d0*d1-2)
			for i := 0; i < d0; i++ {
				nested[i] = make([][]float64, d1)
				for j := 0; j < d1; j++ {
					at := (i*d1 + j) * d2
					nested[i][j] = buf[at : at+d2]
					copy(nested[i][j], x.Data[at:at+d2])
					if i*d1+j == moved {
						nested[i][j] = append([]float64(nil), x.Data[at:at+d2]...)
						for q := 0; q < d2; q++ {
							buf[at+q] = 777
						}
					}
				}
			}
			tw, err := tensor.TensorOf(nested, nil)
			if err != nil {
				msg = "TensorOf(depth-3 data whose rows are windows into one buffer): " + err.Error()
				return
			}
			if e := rt.Compare(tw, x, 0, 0, nil, 0); e != nil {
				msg = "TensorOf(depth-3 data whose rows are windows into one buffer): " + e.Error()
				return
			}
		}
		v := x.Data[0]
		for name, f := range map[string]func() (tensor.Tensor, error){
			"Full":  func() (tensor.Tensor, error) { return tensor.Full(ref.CopyInts(shape), v, nil) },
			"Zeros": func() (tensor.Tensor, error) { return tensor.Zeros(ref.CopyInts(shape), nil) },
			"Ones":  func() (tensor.Tensor, error) { return tensor.Ones(ref.CopyInts(shape), nil) },
		} {
			t, err := f()
			if err != nil {
				msg = name + ": " + err.Error()
				return
			}
			want := map[string]float64{"Full": v, "Zeros": 0, "Ones": 1}[name]
			if t.NElems() != len(x.Data) {
				msg = fmt.Sprintf("%s: NElems() = %d, expected %d", name, t.NElems(), len(x.Data))
				return
			}
			if e := rt.Compare(t, ref.Full(shape, want), 0, 0, nil, 0); e != nil {
				msg = name + ": " + e.Error()
				return
			}
		}
	}); p != nil {
		msg = fmt.Sprintf("panic: %v", p)
	}
	if msg != "" {
		k.Failf("construction of shape %v: %s", shape, msg)
	}
}

func c06Eye(k *fw.K, n int) {
	k.Case = map[string]any{"op": "Eye", "n": n}
	k.Key("eye/%d", n)
	want, werr := ref.Eye(n)
	var got tensor.Tensor
	var err error
	if p := call(func() { got, err = tensor.Eye(n, nil) }); p != nil {
		k.Failf("Eye(%d): panic: %v", n, p)
		return
	}
	if werr != nil {
		if err == nil {
			k.Failf("Eye(%d) accepted", n)
		}
		return
	}
	if err != nil {
		k.Failf("Eye(%d): %v", n, err)
		return
	}
	if e := rt.Compare(got, want, 0, 0, nil, 0); e != nil {
		k.Failf("Eye(%d): %v", n, e)
	}
}

func c06Slice(k *fw.K, shape []int, index []ref.Range) {
	x := Shuffled(k.Rng, Unique(k.Rng, shape, 0.1, 3))
	plantSpecials(k, x)
	in := ref.Instr{Op: "slice", Index: index}
	k.Case = fcase{In: in, Ops: []*ref.T{x}}
	if len(x.Data) >= 2 {
		k.Key("slice/%s/%s", shapeKey(shape), idxKey(index))
	}
	k.Count("slice_cases", 1)
	if len(index) < len(shape) {
		k.Count("slice_cases_partial_index", 1)
	}
	k.Sample()
	if msg := forwardCase(in, []*ref.T{x}, true); msg != "" {
		k.Failf("Slice %v of shape %v: %s", index, shape, msg)
	}
}

func c06Patch(k *fw.K, dst, src []int, index []ref.Range) {
	t := Shuffled(k.Rng, Unique(k.Rng, dst, 0.1, 3))
	s := Shuffled(k.Rng, Unique(k.Rng, src, 10, 13))
	plantSpecials(k, t, s)
	in := ref.Instr{Op: "patch", Index: index}
	k.Case = fcase{In: in, Ops: []*ref.T{t, s}}
	if len(t.Data) >= 2 {
		k.Key("patch/%s/%s/%s", shapeKey(dst), shapeKey(src), idxKey(index))
	}
	k.Count("patch_cases", 1)
	if len(index) < len(dst) {
		k.Count("patch_cases_partial_index", 1)
	}
	if msg := forwardCase(in, []*ref.T{t, s}, true); msg != "" {
		k.Failf("Patch %v of source %v into %v: %s", index, src, dst, msg)
		return
	}
	// round trip on the real result: slicing what was patched returns the source
	region, _ := ref.PatchRegion(index, src, dst)
	rt0, rs := rt.MustLeaf(t, false), rt.MustLeaf(s, false)
	var msg string
	if p := call(func() {
		patched, err := rt0.Patch(rt.Ranges(index), rs)
		if err != nil {
			msg = err.Error()
			return
		}
		back, err := patched.Slice(rt.Ranges(region))
		if err != nil {
			msg = "Slice of patched: " + err.Error()
			return
		}
		msg = sameReal(back, s, "Slice(Patch(t,idx,s), region) = s")
	}); p != nil {
		msg = fmt.Sprintf("panic: %v", p)
	}
	k.Count("roundtrip_checks", 1)
	if msg != "" {
		k.Failf("Patch round trip %v of source %v into %v: %s", index, src, dst, msg)
	}
}

// plantSpecials: the operations of this property move elements without looking at them ("element values arbitrary"): in one case in
// four some elements are NaN, infinities, negative zero or at the ends of the range.
func plantSpecials(k *fw.K, ts ...*ref.T) {
	if k.Rng.Intn(4) != 0 {
		return
	}
	for _, t := range ts {
		for i := range t.Data {
			if k.Rng.Intn(3) == 0 {
				t.Data[i] = []float64{math.NaN(), math.Inf(1), math.Inf(-1), math.Copysign(0, -1), 5e-324, -1.7e308}[k.Rng.Intn(6)]
			}
		}
	}
	k.Count("cases_with_non_finite_and_extreme_element_values", 1)
}

func c06Concat(k *fw.K, base []int, dim, nops int) {
	xs := make([]*ref.T, nops)
	sizes := k.Rng.Perm(4)
	for i := range xs {
		s := ref.CopyInts(base)
		s[dim] = 1 + sizes[i%4]%3
		if i == 1 && s[dim] == xs[0].Shape[dim] { // make sure sizes differ somewhere
			s[dim] = s[dim]%3 + 1
		}
		xs[i] = Shuffled(k.Rng, Unique(k.Rng, s, float64(10*i)+0.1, float64(10*i)+3))
	}
	plantSpecials(k, xs...)
	in := ref.Instr{Op: "concat", Dim: dim}
	k.Case = fcase{In: in, Ops: xs}
	key := fmt.Sprintf("concat/%d/", dim)
	for i, x := range xs {
		if i < 6 {
			key += shapeKey(x.Shape)
		}
	}
	if nops > 6 {
		key += fmt.Sprintf("...(%d operands)", nops)
		k.Count("concat_cases_with_more_than_6_operands", 1)
	}
	k.Key("%s", key)
	k.Count("concat_cases", 1)
	k.Sample()
	if msg := forwardCase(in, xs, true); msg != "" {
		k.Failf("Concat dim %d of %s: %s", dim, key, msg)
		return
	}
	// round trip: slicing the concatenation returns the pieces
	var msg string
	if p := call(func() {
		rs := make([]tensor.Tensor, nops)
		for i, x := range xs {
			rs[i] = rt.MustLeaf(x, false)
		}
		cat, err := tensor.Concat(rs, dim)
		if err != nil {
			msg = err.Error()
			return
		}
		off := 0
		for i, x := range xs {
			idx := make([]tensor.Range, dim+1)
			idx[dim] = tensor.Range{From: off, To: off + x.Shape[dim]}
			piece, err := cat.Slice(idx)
			if err != nil {
				msg = fmt.Sprintf("Slice of concatenation, block %d: %v", i, err)
				return
			}
			if msg = sameReal(piece, x, fmt.Sprintf("Slice(Concat(ts), block %d) = ts[%d]", i, i)); msg != "" {
				return
			}
			off += x.Shape[dim]
		}
	}); p != nil {
		msg = fmt.Sprintf("panic: %v", p)
	}
	k.Count("roundtrip_checks", 1)
	if msg != "" {
		k.Failf("Concat round trip dim %d of %s: %s", dim, key, msg)
	}
}

// c06IndexReuse: the caller keeps ONE []Range (with {0,0} and omitted entries) and uses it for Slice / Patch on a
// second tensor of different extents: each call must be answered from the index as the caller wrote it.
// c06Siblings: results that share an operand. P = Concat(a, b); y1 = Concat(P, c); y2 = Concat(P, d) (and the same with Patch and
// Slice in between): every result is read only after ALL of them were built - a later sibling must not rewrite an earlier one, nor P.
func c06Siblings(k *fw.K) {
	r := k.Rng
	base := RandShape(r, 1, 3, 3)
	dim := r.Intn(len(base))
	part := func() *ref.T {
		s := ref.CopyInts(base)
		s[dim] = 1 + r.Intn(3)
		return Shuffled(r, Unique(r, s, 0.1, 9))
	}
	type kept struct {
		t    tensor.Tensor
		want *ref.T
		what string
	}
	var all []kept
	build := func(what string, in ref.Instr, xs []tensor.Tensor, vs []*ref.T) (tensor.Tensor, *ref.T, bool) {
		want, err := ref.Apply(in, vs)
		if err != nil {
			k.Failf("harness: %v", err)
			return nil, nil, false
		}
		y, err, p := exec(in, xs)
		if p != nil || err != nil || y == nil {
			k.Failf("%s: panic=%v err=%v", what, p, err)
			return nil, nil, false
		}
		all = append(all, kept{y, want, what})
		return y, want, true
	}
	a, b := part(), part()
	ta, tb := rt.MustLeaf(a, false), rt.MustLeaf(b, false)
	cat := ref.Instr{Op: "concat", Dim: dim}
	P, pv, ok := build("P = Concat(a, b)", cat, []tensor.Tensor{ta, tb}, []*ref.T{a, b})
	if !ok {
		return
	}
	n := 2 + r.Intn(3)
	for q := 0; q < n; q++ {
		c := part()
		tc := rt.MustLeaf(c, false)
		switch r.Intn(4) {
		case 0: // P behind
			_, _, ok = build(fmt.Sprintf("sibling %d = Concat(c, P)", q), cat, []tensor.Tensor{tc, P}, []*ref.T{c, pv})
		case 1: // a slice of P in front
			sl := ref.Instr{Op: "slice", Index: []ref.Range{{From: 0, To: 0}}}
			sp, sv, ok2 := build(fmt.Sprintf("sibling %d: Slice(P)", q), sl, []tensor.Tensor{P}, []*ref.T{pv})
			if !ok2 {
				return
			}
			_, _, ok = build(fmt.Sprintf("sibling %d = Concat(Slice(P), c)", q), cat, []tensor.Tensor{sp, tc}, []*ref.T{sv, c})
		default: // P in front: the case in which a result could grow into P's spare room
			_, _, ok = build(fmt.Sprintf("sibling %d = Concat(P, c)", q), cat, []tensor.Tensor{P, tc}, []*ref.T{pv, c})
		}
		if !ok {
			return
		}
	}
	k.Case = map[string]any{"family": "sibling results over one shared operand", "base": base, "dim": dim, "siblings": n}
	k.Key("siblings/%s/%d/%d", shapeKey(base), dim, n)
	k.Count("sibling_result_cases", 1)
	for pass := 0; pass < 2; pass++ {
		for _, e := range all {
			if err := rt.Compare(e.t, e.want, 0, 0, nil, 0); err != nil {
				k.Failf("%s, read after all %d results over the shared operand were built: %v", e.what, len(all), err)
				return
			}
		}
	}
}

// c06FirstReader: the operand of every consumer kind is a tensor straight out of Broadcast (or Reshape / Transpose / Concat) that
// NOTHING has read yet - no At, Shape, reducer or other operation between its construction and this use.
func c06FirstReader(k *fw.K) {
	r := k.Rng
	small := RandShape(r, 1, 2, 3)
	x := Shuffled(r, Unique(r, small, 0.1, 9))
	tx := rt.MustLeaf(x, false)
	var fresh tensor.Tensor
	var fv *ref.T
	var mk ref.Instr
	switch r.Intn(4) {
	case 0, 1:
		mk = ref.Instr{Op: "broadcast", Shape: append([]int{1 + r.Intn(3)}, small...)}
	case 2:
		mk = ref.Instr{Op: "reshape", Shape: []int{len(x.Data)}}
	default:
		mk = ref.Instr{Op: "unsqueeze", Dim: 0}
	}
	fv, err := ref.Apply(mk, []*ref.T{x})
	if err != nil {
		k.Failf("harness: %v", err)
		return
	}
	var p any
	if fresh, err, p = exec(mk, []tensor.Tensor{tx}); p != nil || err != nil || fresh == nil {
		k.Failf("%s %v -> %v: panic=%v err=%v", mk.Op, small, mk.Shape, p, err)
		return
	}
	rank := len(fv.Shape)
	var in ref.Instr
	xs, vs := []tensor.Tensor{fresh}, []*ref.T{fv}
	switch q := r.Intn(9); {
	case q == 0: // Patch SOURCE
		dst := ref.CopyInts(fv.Shape)
		for d := range dst {
			dst[d] += r.Intn(2)
		}
		dv := Shuffled(r, Unique(r, dst, 20, 30))
		in = ref.Instr{Op: "patch"}
		xs, vs = []tensor.Tensor{rt.MustLeaf(dv, false), fresh}, []*ref.T{dv, fv}
	case q == 1: // Patch TARGET
		src := ref.CopyInts(fv.Shape)
		src[0] = 1
		sv := Shuffled(r, Unique(r, src, 20, 30))
		in = ref.Instr{Op: "patch"}
		xs, vs = []tensor.Tensor{fresh, rt.MustLeaf(sv, false)}, []*ref.T{fv, sv}
	case q == 2:
		in = ref.Instr{Op: "concat", Dim: r.Intn(rank)}
		xs, vs = []tensor.Tensor{fresh, fresh}, []*ref.T{fv, fv}
	case q == 3:
		in = ref.Instr{Op: "slice", Index: []ref.Range{{From: 0, To: 1}}}
	case q == 4 && rank >= 2:
		in = ref.Instr{Op: "transpose"}
	case q == 5:
		in = ref.Instr{Op: "sumalong", Dim: r.Intn(rank)}
	case q == 6:
		in = ref.Instr{Op: "flatten", Dim: r.Intn(rank)}
	case q == 7:
		in = ref.Instr{Op: "add"}
		xs, vs = []tensor.Tensor{fresh, fresh}, []*ref.T{fv, fv}
	default:
		in = ref.Instr{Op: "reshape", Shape: []int{len(fv.Data)}}
	}
	want, err := ref.Apply(in, vs)
	if err != nil {
		k.Failf("harness: %v", err)
		return
	}
	k.Case = map[string]any{"family": "first reader", "made_by": mk.Op, "consumer": in.Op, "shape": fv.Shape}
	k.Key("first-reader/%s/%s/%s", mk.Op, in.Op, shapeKey(fv.Shape))
	k.Count("first_reader_cases", 1)
	y, err, p := exec(in, xs)
	if p != nil || err != nil || y == nil {
		k.Failf("%s as the FIRST reader of a fresh %s result of shape %v: panic=%v err=%v", in.Op, mk.Op, fv.Shape, p, err)
		return
	}
	if e := rt.Compare(y, want, 1e-12, 1e-12, nil, 0); e != nil {
		k.Failf("%s as the first reader of a fresh %s result of shape %v: %v", in.Op, mk.Op, fv.Shape, e)
		return
	}
	if e := rt.Compare(fresh, fv, 0, 0, nil, 0); e != nil {
		k.Failf("the %s result of shape %v after its first reader (%s): %v", mk.Op, fv.Shape, in.Op, e)
	}
}

func c06IndexReuse(k *fw.K) {
	rank := 1 + k.Rng.Intn(3)
	s1, s2 := make([]int, rank), make([]int, rank)
	for i := range s1 {
		s1[i], s2[i] = 2+k.Rng.Intn(3), 2+k.Rng.Intn(4)
	}
	n := k.Rng.Intn(rank + 1)
	orig := make([]ref.Range, n)
	for i := range orig {
		if k.Rng.Intn(2) == 0 {
			continue // {0,0}: the whole dimension
		}
		f := k.Rng.Intn(2)
		orig[i] = ref.Range{From: f, To: f + 1} // valid for both tensors (sizes >= 2)
	}
	idx := rt.Ranges(orig) // the one slice object handed to every call
	x1, x2 := Shuffled(k.Rng, Unique(k.Rng, s1, 0.1, 3)), Shuffled(k.Rng, Unique(k.Rng, s2, 0.1, 3))
	k.Case = map[string]any{"index": orig, "first_tensor": s1, "second_tensor": s2}
	k.Key("index-reuse/%s/%s/%s", shapeKey(s1), shapeKey(s2), idxKey(orig))
	k.Count("index_reuse_cases", 1)
	for step, x := range []*ref.T{x1, x2, x1} {
		want, _ := x.Slice(orig)
		var got tensor.Tensor
		var err error
		if p := call(func() { got, err = rt.MustLeaf(x, false).Slice(idx) }); p != nil || err != nil {
			k.Failf("call %d: Slice(%v) on shape %v with a re-used index slice: panic=%v err=%v", step+1, orig, x.Shape, p, err)
			return
		}
		if e := rt.Compare(got, want, 0, 0, nil, 0); e != nil {
			k.Failf("call %d: Slice(%v) on shape %v with a re-used index slice: %v", step+1, orig, x.Shape, e)
			return
		}
		// Patch the slice back with the same index object: a source shaped like the slice fits by construction
		src := ref.Full(want.Shape, 99)
		pw, _ := x.Patch(orig, src)
		if p := call(func() { got, err = rt.MustLeaf(x, false).Patch(idx, rt.MustLeaf(src, false)) }); p != nil || err != nil {
			k.Failf("call %d: Patch(%v) on shape %v with a re-used index slice: panic=%v err=%v", step+1, orig, x.Shape, p, err)
			return
		}
		if e := rt.Compare(got, pw, 0, 0, nil, 0); e != nil {
			k.Failf("call %d: Patch(%v) on shape %v with a re-used index slice: %v", step+1, orig, x.Shape, e)
			return
		}
	}
}
