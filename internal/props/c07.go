package props

import (
	"fmt"
	"math"

	"github.com/sahandsafizadeh/qeep/tensor"
	"qeepverif/internal/rt"

	"qeepverif/internal/fw"
	"qeepverif/internal/ref"
)

// C07 — the gradient of a broadcast operand is the sum over its expanded copies.

func init() {
	fw.Register(&fw.Prop{
		ID: "C07",
		Rule: "per-operation gradient monitor (as C02) restricted to expansion: explicit Broadcast for every (source, target) pair (0-2 new leading dims x each size-1 dim kept or expanded; factor 1 included) and Add/Sub/Mul/Div/Dot/MatMul over every broadcast-compatible shape pair (either operand or both expanded), every non-empty subset of tracked operands, random non-uniform upstream weighting; the gradient delivered to each original operand must have the operand's own shape and equal the SUM of the rule-transformed upstream gradient over all positions the element was copied to. " +
			"A failing operand is attributed to the recorded finding 'broadcast-backward-mean' only if its shape is right and its value equals the reference tape run with BroadcastRule=Avg (mean over the copies) while differing from the sum; everything else is a VIOLATION. " +
			"Non-trivial: some tracked operand has expansion factor > 1; distinct = (op, operand shapes, tracked subset). Later additions: sampled pairs with sizes up to 7; two or three graphs built before any back-propagation that share one expanded leaf; an explicit Broadcast result consumed by 2-3 operations of one graph; upstream weightings that cancel to exactly 0.",
		Assumptions: []string{"operand values unique per position, divisors away from 0; upstream weighting non-uniform so that mean-over-copies, sum-over-copies and reductions over a wrong dimension all differ"},
		FloorQuick:  6000, FloorThor: 50000,
		Run: runC07,
	})
}

func c07NaNUpstream(k *fw.K, src, target []int, via string) {
	x := Shuffled(k.Rng, Unique(k.Rng, src, 0.2, 2))
	g := ref.Full(target, 2)
	nanAt := k.Rng.Intn(len(g.Data))                                           // anywhere, not only at the end
	special := []float64{math.NaN(), math.Inf(1), math.Inf(-1)}[k.Rng.Intn(3)] // an infinity among the copies makes the sum (and the mean) that infinity
	g.Data[nanAt] = special
	k.Case = map[string]any{"op": via, "source": src, "target": target, "upstream": fmt.Sprintf("all 2 except %v at flat position %d", special, nanAt)}
	k.Key("nan-upstream/%s/%s/%s", via, shapeKey(src), shapeKey(target))
	k.Count("cases_with_a_NaN_in_an_otherwise_uniform_upstream_gradient", 1)
	in := ref.Instr{Op: "broadcast", Shape: target}
	want := ref.VJP(in, []*ref.T{x}, nil, g, ref.RuleSum)[0] // NaN pattern is the same under Sum and Avg
	rx := rt.MustLeaf(x, true)
	var err error
	if p := call(func() {
		var y tensor.Tensor
		if via == "broadcast" {
			y, err = rx.Broadcast(ref.CopyInts(target))
		} else {
			y, err = rt.MustLeaf(ref.Zeros(target), false).Add(rx)
		}
		if err == nil {
			err = weightedBackprop(y, g)
		}
	}); p != nil || err != nil {
		k.Failf("%s %v -> %v with a NaN in the upstream gradient: panic=%v err=%v", via, src, target, p, err)
		return
	}
	gr := rx.Gradient()
	if gr == nil {
		k.Failf("%s %v -> %v: no gradient", via, src, target)
		return
	}
	got, err := rt.Read(gr)
	if err != nil || !ref.SameShape(got.Shape, src) {
		k.Failf("%s %v -> %v: gradient unreadable or of shape %v (%v)", via, src, target, got, err)
		return
	}
	for i := range got.Data {
		if math.IsNaN(got.Data[i]) != math.IsNaN(want.Data[i]) || math.IsInf(got.Data[i], 1) != math.IsInf(want.Data[i], 1) || math.IsInf(got.Data[i], -1) != math.IsInf(want.Data[i], -1) {
			k.Failf("%s %v -> %v, upstream gradient uniform except %v at flat position %d: operand element %d is %v, the sum over its copies is %v", via, src, target, special, nanAt, i, got.Data[i], want.Data[i])
			return
		}
	}
}

// c07SubnormalUpstream: every copy of an operand element carries an upstream weight of m units of 2^-1074 (m = 1..6). The sum over
// the copies is an exact multiple of the unit. The recorded finding (mean instead of sum) shows as that sum divided by the number
// of copies, correctly rounded to the subnormal grid - anything else (in particular 0) is a different fault.
func c07SubnormalUpstream(k *fw.K) {
	r := k.Rng
	unit := math.Ldexp(1, -1074)
	kf := 2 + r.Intn(6)
	var src, target []int
	switch r.Intn(3) {
	case 0:
		src, target = []int{2, 1}, []int{2, kf}
	case 1:
		src, target = []int{3}, []int{kf, 3}
	default:
		src, target = []int{}, []int{kf}
	}
	x := Shuffled(r, Unique(r, src, 0.2, 2))
	g := ref.Zeros(target)
	for i := range g.Data {
		g.Data[i] = float64(1+r.Intn(6)) * unit
	}
	in := ref.Instr{Op: "broadcast", Shape: target}
	via := []string{"broadcast", "add"}[r.Intn(2)]
	k.Case = map[string]any{"op": via, "source": src, "target": target, "upstream_in_units_of_2^-1074": g.Map(func(v float64) float64 { return v / unit }).Data}
	k.Key("subnormal-upstream/%s/%s/%s", via, shapeKey(src), shapeKey(target))
	k.Count("cases_with_subnormal_upstream_gradients", 1)
	sum := ref.VJP(in, []*ref.T{x}, nil, g, ref.RuleSum)[0]
	rx := rt.MustLeaf(x, true)
	var err error
	if p := call(func() {
		var y tensor.Tensor
		if via == "broadcast" {
			y, err = rx.Broadcast(ref.CopyInts(target))
		} else {
			y, err = rt.MustLeaf(ref.Zeros(target), false).Add(rx)
		}
		if err == nil {
			err = weightedBackprop(y, g)
		}
	}); p != nil || err != nil {
		k.Failf("%s %v -> %v with subnormal upstream weights: panic=%v err=%v", via, src, target, p, err)
		return
	}
	gr := rx.Gradient()
	if gr == nil {
		k.Failf("%s %v -> %v: no gradient", via, src, target)
		return
	}
	got, err := rt.Read(gr)
	if err != nil || !ref.SameShape(got.Shape, src) {
		k.Failf("%s %v -> %v: gradient unreadable or of shape %v (%v)", via, src, target, got, err)
		return
	}
	isMean := true
	for i := range got.Data {
		if got.Data[i] == sum.Data[i] {
			continue
		}
		if got.Data[i] != sum.Data[i]/float64(kf) {
			isMean = false
		}
		if !isMean {
			k.Failf("%s %v -> %v with upstream weights of a few units of 2^-1074: operand element %d received %v units, the sum over its %d copies is %v units (their mean %v)", via, src, target, i, got.Data[i]/unit, kf, sum.Data[i]/unit, sum.Data[i]/float64(kf)/unit)
			return
		}
	}
	for i := range got.Data {
		if got.Data[i] != sum.Data[i] {
			k.Knownf(knownBroadcastMean, "%s %v -> %v with subnormal upstream weights: the operand receives the MEAN over its %d copies (%v units instead of %v)", via, src, target, kf, got.Data[i]/unit, sum.Data[i]/unit)
			return
		}
	}
}

// nonFinite puts +-Inf / NaN into some elements of an operand of an operation whose backward rule is value-independent.
func nonFinite(k *fw.K, x *ref.T) {
	for i := range x.Data {
		if k.Rng.Intn(2) == 0 {
			x.Data[i] = []float64{math.Inf(-1), math.Inf(1), math.NaN()}[k.Rng.Intn(3)]
		}
	}
	x.Data[k.Rng.Intn(len(x.Data))] = math.Inf(-1)
	k.Count("cases_with_non_finite_operand_values", 1)
}

func runC07(c *fw.Ctx) {
	deeperBounds(!c.Quick())
	u := func(k *fw.K, shape []int) *ref.T { return Shuffled(k.Rng, Unique(k.Rng, shape, 0.2, 2.5)) }
	run := func(k *fw.K, in ref.Instr, xs []*ref.T, mask []bool) {
		y, err := ref.Apply(in, xs)
		if err != nil {
			k.Failf("harness: %v", err)
			return
		}
		g := randG(k, y.Shape)
		k.Case = gcase{In: in, Ops: xs, Tracked: mask, G: g}
		full := y.Shape
		if in.Op == "dot" {
			full, _ = ref.DotShape(xs[0].Shape, xs[1].Shape)
		}
		maxk := 1
		for i, x := range xs {
			if !mask[i] {
				continue
			}
			kf := 1
			switch in.Op {
			case "matmul":
				kf = ref.Prod(full[:len(full)-2]) / ref.Prod(x.Shape[:len(x.Shape)-2])
			default:
				kf = ref.Prod(full) / ref.Prod(x.Shape)
			}
			if kf > maxk {
				maxk = kf
			}
		}
		if maxk > 1 {
			k.Key("%s/%v/%s", in.Op, shapesOf(xs), maskKey(mask))
			k.Count("cases_with_expansion_gt1", 1)
			k.Max("max_expansion_factor", int64(maxk))
		} else {
			k.Count("cases_with_expansion_factor_1", 1)
		}
		k.Count("cases_"+in.Op, 1)
		k.Sample()
		gradCheck(k, in, xs, mask, g, knownBroadcastMean)
	}

	// ---- explicit Broadcast ----
	for _, src := range Shapes(0, c.Pick(3, 4), 3) {
		for _, target := range BroadcastTargets(src, 2) {
			src, target := src, target
			c.Case(func(k *fw.K) {
				x := u(k, src)
				if k.Index%4 == 0 { // the gradient of an expansion does not depend on the operand's VALUES: also +-Inf / NaN entries (a -Inf mask)
					nonFinite(k, x)
				}
				run(k, ref.Instr{Op: "broadcast", Shape: target}, []*ref.T{x}, []bool{true})
			})
		}
	}
	// ---- implicit: arithmetic ----
	for _, dst := range Shapes(0, c.Pick(3, 4), 3) {
		for _, pr := range batchPairs(dst) {
			for oi, op := range c03Arith {
				if !c.Quick() || (len(dst) < 3 || (c.NextIndex()+oi)%2 == 0) { // quick: thin out rank 3
					for _, mask := range subsets(2) {
						pr, op, mask := pr, op, mask
						c.Case(func(k *fw.K) {
							a, b := u(k, pr[0]), u(k, pr[1])
							for i := range b.Data {
								if math.Abs(b.Data[i]) < 0.2 {
									b.Data[i] = 0.7
								}
							}
							if (op == "add" || op == "sub") && k.Index%5 == 0 {
								nonFinite(k, []*ref.T{a, b}[k.Rng.Intn(2)])
							}
							run(k, ref.Instr{Op: op}, []*ref.T{a, b}, mask)
						})
					}
				}
			}
		}
	}
	// ---- implicit: Dot ----
	for _, dst := range Shapes(1, c.Pick(3, 4), 3) {
		last := dst[len(dst)-1]
		for _, pr := range batchPairs(dst) {
			sa, sb := pr[0], pr[1]
			if len(sa) < 1 || len(sb) < 1 || sa[len(sa)-1] != last || sb[len(sb)-1] != last {
				continue
			}
			for _, mask := range subsets(2) {
				mask := mask
				c.Case(func(k *fw.K) { run(k, ref.Instr{Op: "dot"}, []*ref.T{u(k, sa), u(k, sb)}, mask) })
			}
		}
	}
	// ---- implicit: MatMul ----
	for _, dst := range Shapes(0, c.Pick(2, 3), 3) {
		for _, pr := range batchPairs(dst) {
			for _, mask := range subsets(2) {
				for rep := 0; rep < c.Pick(1, 3); rep++ {
					pr, mask := pr, mask
					c.Case(func(k *fw.K) {
						m, n, kk := 1+k.Rng.Intn(3), 1+k.Rng.Intn(3), 1+k.Rng.Intn(3)
						sa := append(ref.CopyInts(pr[0]), m, n)
						sb := append(ref.CopyInts(pr[1]), n, kk)
						run(k, ref.Instr{Op: "matmul"}, []*ref.T{u(k, sa), u(k, sb)}, mask)
					})
				}
			}
		}
	}
	// ---- an upstream gradient that holds a NaN among otherwise EQUAL entries: the operand's gradient is NaN exactly where a copy
	// with a NaN weight contributes (IEEE: a sum or a mean containing NaN is NaN), finite elsewhere ----
	for _, src := range Shapes(0, 2, 3) {
		for _, target := range BroadcastTargets(src, 1) {
			for _, via := range []string{"broadcast", "add"} {
				src, target, via := src, target, via
				c.Case(func(k *fw.K) { c07NaNUpstream(k, src, target, via) })
			}
		}
	}
	// ---- LONG expansions: one axis (the last, a middle or a new leading one) expanded 16..257 times, lengths that are not multiples of
	// 4 or 8 (unrolled or blocked reductions over the copies must not drop the tail) ----
	for i := 0; i < c.Pick(240, 4000); i++ {
		c.Case(func(k *fw.K) {
			r := k.Rng
			kf := []int{17, 18, 19, 23, 33, 66, 127, 129, 257}[r.Intn(9)]
			var src, target []int
			switch r.Intn(4) {
			case 0:
				src, target = []int{3, 1}, []int{3, kf}
			case 1:
				src, target = []int{2}, []int{kf, 2}
			case 2:
				src, target = []int{2, 1, 2}, []int{2, kf, 2}
			default:
				src, target = []int{}, []int{kf}
			}
			x := u(k, src)
			k.Count("long_expansion_cases", 1)
			if r.Intn(2) == 0 {
				run(k, ref.Instr{Op: "broadcast", Shape: target}, []*ref.T{x}, []bool{true})
			} else {
				run(k, ref.Instr{Op: c03Arith[r.Intn(3)]}, []*ref.T{x, u(k, target)}, []bool{true, r.Intn(2) == 0})
			}
		})
	}
	// ---- upstream gradients in the SUBNORMAL range (a few units of 2^-1074 per copy): the sum over the copies is exact; shares that
	// are divided one by one vanish ----
	for i := 0; i < c.Pick(240, 4000); i++ {
		c.Case(func(k *fw.K) { c07SubnormalUpstream(k) })
	}
	// ---- two graphs that share only a leaf, both built BEFORE either is back-propagated; the leaf is expanded to the same shape in both ----
	for i := 0; i < c.Pick(1500, 60000); i++ {
		c.Case(func(k *fw.K) { c07TwoGraphs(k) })
	}
	// ---- an explicit Broadcast result that feeds two (or three) operations of the same graph ----
	for i := 0; i < c.Pick(1500, 60000); i++ {
		c.Case(func(k *fw.K) {
			dst := RandShape(k.Rng, 1, 3, 3)
			srcs := BroadcastSources(dst)
			sx := srcs[k.Rng.Intn(len(srcs))]
			x := Shuffled(k.Rng, Unique(k.Rng, sx, 0.2, 2.5))
			p := ref.Prog{{Op: "leaf", Shape: sx, Data: x.Data, Tracked: true}, {Op: "broadcast", In: []int{0}, Shape: dst}}
			var parts []int
			if k.Rng.Intn(3) == 0 { // the SAME Broadcast result at both operand positions of one operation (two shares from one consumer)
				switch k.Rng.Intn(3) {
				case 0:
					dim := k.Rng.Intn(len(dst))
					idx := make([]ref.Range, dim+1)
					idx[dim] = ref.Range{From: dst[dim] / 2, To: dst[dim]/2 + dst[dim]} // a window over the seam between the two copies
					p = append(p, ref.Instr{Op: "concat", In: []int{1, 1}, Dim: dim}, ref.Instr{Op: "slice", In: []int{2}, Index: idx})
				case 1:
					p = append(p, ref.Instr{Op: "patch", In: []int{1, 1}})
				default:
					p = append(p, ref.Instr{Op: "mul", In: []int{1, 1}})
				}
				parts = append(parts, len(p)-1)
				k.Count("broadcast_results_used_twice_by_one_operation", 1)
			}
			uses := 2 + k.Rng.Intn(2)
			for u := 0; u < uses; u++ {
				switch k.Rng.Intn(4) {
				case 0:
					p = append(p, ref.Instr{Op: "sin", In: []int{1}})
				case 1:
					p = append(p, ref.Instr{Op: "scale", In: []int{1}, F: 0.5 + float64(u)})
				case 2:
					o := Shuffled(k.Rng, Unique(k.Rng, dst, 0.2, 2.5))
					p = append(p, ref.Instr{Op: "leaf", Shape: dst, Data: o.Data}, ref.Instr{Op: "mul", In: []int{1, len(p)}})
				default:
					p = append(p, ref.Instr{Op: "tanh", In: []int{1}})
				}
				parts = append(parts, len(p)-1)
			}
			acc := parts[0]
			for _, q := range parts[1:] {
				p = append(p, ref.Instr{Op: "add", In: []int{acc, q}})
				acc = len(p) - 1
			}
			g := randG(k, dst)
			p = append(p, ref.Instr{Op: "leaf", Shape: dst, Data: g.Data}, ref.Instr{Op: "mul", In: []int{acc, len(p)}})
			root := len(p) - 1
			k.Case = c01case{Family: "explicit Broadcast result with several consumers", Prog: p, Roots: []int{root}}
			if ref.Prod(dst) > ref.Prod(sx) {
				k.Key("broadcast-fanout/%s/%s/%d", shapeKey(sx), shapeKey(dst), uses)
			}
			k.Count("broadcast_fanout_cases", 1)
			vals, err := p.Eval()
			if err != nil {
				k.Failf("harness: %v", err)
				return
			}
			var ts []tensor.Tensor
			if pn := call(func() {
				ts, err = rt.Run(p)
				if err == nil {
					err = tensor.BackPropagate(ts[root])
				}
			}); pn != nil || err != nil {
				k.Failf("explicit Broadcast with %d consumers: panic=%v err=%v", uses, pn, err)
				return
			}
			checkGradsClassified(k, ts, p, vals, root, nil, fmt.Sprintf("explicit Broadcast %v -> %v with %d consumers", sx, dst, uses))
		})
	}
	// ---- a result of the expanded operand was made a leaf of its own (ResetGradContext(true)) before the graph was built ----
	for i := 0; i < c.Pick(600, 20000); i++ {
		c.Case(func(k *fw.K) { c07RearmedSibling(k) })
	}
	// ---- the SAME tensor object at both operand positions (x.Dot(x), x.Mul(x), x.MatMul(x) ...: a squared norm, a Gram matrix): expansion
	// factor 1 on both sides, the operand receives the sum of its two shares ----
	for i := 0; i < c.Pick(400, 8000); i++ {
		c.Case(func(k *fw.K) {
			r := k.Rng
			op := []string{"dot", "mul", "add", "sub", "div", "matmul"}[r.Intn(6)]
			shape := RandShape(r, 1, 3, 3)
			if op == "matmul" {
				n := 1 + r.Intn(3)
				shape = append(RandShape(r, 0, 1, 2), n, n)
			}
			x := Shuffled(r, Unique(r, shape, 0.3, 2))
			p := ref.Prog{{Op: "leaf", Shape: shape, Data: x.Data, Tracked: true}, {Op: op, In: []int{0, 0}}}
			vals, err := p.Eval()
			if err != nil {
				k.Failf("harness: %v", err)
				return
			}
			g := randG(k, vals[1].Shape)
			p = append(p, ref.Instr{Op: "leaf", Shape: g.Shape, Data: g.Data}, ref.Instr{Op: "mul", In: []int{1, 2}})
			if vals, err = p.Eval(); err != nil {
				k.Failf("harness: %v", err)
				return
			}
			k.Case = c01case{Family: "one tensor object at both operand positions", Prog: p, Roots: []int{3}}
			k.Key("same-object-twice/%s/%s", op, shapeKey(shape))
			k.Count("same_object_twice_cases", 1)
			var ts []tensor.Tensor
			if pn := call(func() {
				if ts, err = rt.Run(p); err == nil {
					err = tensor.BackPropagate(ts[3])
				}
			}); pn != nil || err != nil {
				k.Failf("x.%s(x): panic=%v err=%v", op, pn, err)
				return
			}
			checkGradsClassified(k, ts, p, vals, 3, nil, fmt.Sprintf("x.%s(x) on shape %v (the same object at both positions)", op, shape))
		})
	}
	// ---- sampled pairs with sizes up to 7 ----
	for i := 0; i < c.Pick(2000, 60000); i++ {
		c.Case(func(k *fw.K) {
			dst := BigShape(k.Rng, 1, 300)
			srcs := BroadcastSources(dst)
			masks := subsets(2)
			for {
				sa, sb := srcs[k.Rng.Intn(len(srcs))], srcs[k.Rng.Intn(len(srcs))]
				if bs, err := ref.BroadcastShape(sa, sb); err == nil && ref.SameShape(bs, dst) {
					if k.Rng.Intn(4) == 0 {
						run(k, ref.Instr{Op: "broadcast", Shape: dst}, []*ref.T{u(k, sa)}, []bool{true})
					} else {
						run(k, ref.Instr{Op: c03Arith[k.Rng.Intn(4)]}, []*ref.T{u(k, sa), u(k, sb)}, masks[k.Rng.Intn(3)])
					}
					return
				}
			}
		})
	}
	// ---- sampled high-rank pairs ----
	for i := 0; i < c.Pick(5000, 150000); i++ {
		c.Case(func(k *fw.K) {
			dst := RandShape(k.Rng, 4, maxSampledRank-1, 3)
			prs := batchPairs(dst)
			pr := prs[k.Rng.Intn(len(prs))]
			masks := subsets(2)
			op := c03Arith[k.Rng.Intn(4)]
			a, b := u(k, pr[0]), u(k, pr[1])
			run(k, ref.Instr{Op: op}, []*ref.T{a, b}, masks[k.Rng.Intn(3)])
		})
	}
}

func c07TwoGraphs(k *fw.K) {
	dst := RandShape(k.Rng, 1, 3, 3)
	srcs := BroadcastSources(dst)
	sx := srcs[k.Rng.Intn(len(srcs))]
	x := Shuffled(k.Rng, Unique(k.Rng, sx, 0.2, 2.5))
	n := 2 + k.Rng.Intn(2)
	p := ref.Prog{{Op: "leaf", Shape: sx, Data: x.Data, Tracked: true}}
	var roots []int
	var seeds []*ref.T
	for g := 0; g < n; g++ {
		o := Shuffled(k.Rng, Unique(k.Rng, dst, 0.2, 2.5))
		p = append(p, ref.Instr{Op: "leaf", Shape: dst, Data: o.Data, Tracked: k.Rng.Intn(2) == 0})
		op := c03Arith[k.Rng.Intn(3)] // add / sub / mul
		if k.Rng.Intn(4) == 0 {
			p = append(p, ref.Instr{Op: "broadcast", In: []int{0}, Shape: dst})
			p = append(p, ref.Instr{Op: op, In: []int{len(p) - 1, len(p) - 2}})
		} else {
			p = append(p, ref.Instr{Op: op, In: []int{0, len(p) - 1}})
		}
		gw := randG(k, dst)
		p = append(p, ref.Instr{Op: "leaf", Shape: dst, Data: gw.Data})
		p = append(p, ref.Instr{Op: "mul", In: []int{len(p) - 2, len(p) - 1}})
		roots = append(roots, len(p)-1)
		seeds = append(seeds, nil)
	}
	k.Case = c01case{Family: "graphs sharing one expanded leaf, all built before any back-propagation", Prog: p, Roots: roots}
	kf := ref.Prod(dst) / ref.Prod(sx)
	if kf > 1 {
		k.Key("two-graphs/%s/%s/%d", shapeKey(sx), shapeKey(dst), n)
	}
	k.Count("shared_expanded_leaf_histories", 1)
	vals, err := p.Eval()
	if err != nil {
		k.Failf("harness: %v", err)
		return
	}
	var ts []tensor.Tensor
	if pn := call(func() { ts, err = rt.Run(p) }); pn != nil || err != nil {
		k.Failf("forward execution failed: panic=%v err=%v", pn, err)
		return
	}
	sum := make([]*ref.T, len(p))
	avg := make([]*ref.T, len(p))
	accumulate := func(acc []*ref.T, g []*ref.T) {
		for i := range g {
			if g[i] == nil {
				continue
			}
			if acc[i] == nil {
				acc[i] = g[i].Clone()
			} else {
				for q := range acc[i].Data {
					acc[i].Data[q] += g[i].Data[q]
				}
			}
		}
	}
	for gi, root := range roots {
		var berr error
		if pn := call(func() { berr = tensor.BackPropagate(ts[root]) }); pn != nil || berr != nil {
			k.Failf("back-propagation %d failed: panic=%v err=%v", gi+1, pn, berr)
			return
		}
		accumulate(sum, p.Grad(vals, root, seeds[gi], ref.RuleSum))
		accumulate(avg, p.Grad(vals, root, seeds[gi], ref.RuleAvg))
		what := fmt.Sprintf("after back-propagation %d of %d graphs sharing the expanded leaf", gi+1, n)
		if msg := checkGrads(ts, sum, what); msg != "" {
			if kf > 1 && checkGrads(ts, avg, what) == "" {
				k.Knownf(knownBroadcastMean, "%s: every gradient equals the accumulated MEAN over the copies (%s)", what, msg)
				continue
			}
			k.Failf("%s", msg)
			return
		}
	}
}

// c07RearmedSibling: h = f(x) is computed from the operand x that will be expanded, and is made a fresh tracked leaf
// (ResetGradContext(true)) before anything uses it; x (expanded against w, implicitly or through Broadcast) and h (expanded
// too) then feed one root. x receives the sum over the copies of its OWN path only - nothing that flows into h may reach it.
func c07RearmedSibling(k *fw.K) {
	r := k.Rng
	dst := RandShape(r, 1, 3, 3)
	srcs := BroadcastSources(dst)
	sx := srcs[r.Intn(len(srcs))]
	xv := Shuffled(r, Unique(r, sx, 0.2, 2.5))
	x := rt.MustLeaf(xv, true)
	f := []ref.Instr{{Op: "scale", F: 2}, {Op: "sin"}, {Op: "reshape", Shape: ref.CopyInts(sx)}, {Op: "pow", F: 2}, {Op: "scale", F: 1}}[r.Intn(5)]
	hv, err := ref.Apply(f, []*ref.T{xv})
	if err != nil {
		k.Failf("harness: %v", err)
		return
	}
	var h tensor.Tensor
	if pn := call(func() { h, err = rt.Exec(f, []tensor.Tensor{x}) }); pn != nil || err != nil {
		k.Failf("%s: panic=%v err=%v", f.Op, pn, err)
		return
	}
	h.ResetGradContext(true)
	wv, g := Shuffled(r, Unique(r, dst, 0.3, 2)), randG(k, dst)
	p := ref.Prog{{Op: "leaf", Shape: sx, Data: xv.Data, Tracked: true}, {Op: "leaf", Shape: sx, Data: hv.Data, Tracked: true}, {Op: "leaf", Shape: dst, Data: wv.Data}}
	explicit := r.Intn(2) == 0
	if explicit {
		p = append(p, ref.Instr{Op: "broadcast", In: []int{0}, Shape: dst}, ref.Instr{Op: "mul", In: []int{3, 2}})
	} else {
		p = append(p, ref.Instr{Op: "mul", In: []int{0, 2}})
	}
	y := len(p) - 1
	p = append(p, ref.Instr{Op: []string{"add", "sub", "mul"}[r.Intn(3)], In: []int{y, 1}})
	p = append(p, ref.Instr{Op: "leaf", Shape: dst, Data: g.Data}, ref.Instr{Op: "mul", In: []int{len(p) - 1, len(p)}})
	root := len(p) - 1
	vals, err := p.Eval()
	if err != nil {
		k.Failf("harness: %v", err)
		return
	}
	k.Case = c01case{Family: "tensor 1 = " + f.Op + "(tensor 0), re-armed as a leaf before use; both expanded into one root", Prog: p, Roots: []int{root}}
	if ref.Prod(dst) > ref.Prod(sx) {
		k.Key("rearmed-sibling/%s/%s/%s/%v", f.Op, shapeKey(sx), shapeKey(dst), explicit)
	}
	k.Count("rearmed_sibling_cases", 1)
	ts := make([]tensor.Tensor, len(p))
	ts[0], ts[1] = x, h
	if pn := call(func() {
		for i := 2; i < len(p) && err == nil; i++ {
			if p[i].Op == "leaf" {
				ts[i] = rt.MustLeaf(vals[i], p[i].Tracked)
				continue
			}
			xs := make([]tensor.Tensor, len(p[i].In))
			for q, j := range p[i].In {
				xs[q] = ts[j]
			}
			ts[i], err = rt.Exec(p[i], xs)
		}
		if err == nil {
			err = tensor.BackPropagate(ts[root])
		}
	}); pn != nil || err != nil {
		k.Failf("graph over an expanded operand and its re-armed result: panic=%v err=%v", pn, err)
		return
	}
	checkGradsClassified(k, ts, p, vals, root, nil, fmt.Sprintf("operand %v expanded to %v next to its own result (%s) that was re-armed as a leaf before use", sx, dst, f.Op))
}
