package props

import (
	"math"
	"runtime"

	"github.com/sahandsafizadeh/qeep/component/metrics"
	"github.com/sahandsafizadeh/qeep/tensor"

	"qeepverif/internal/fw"
	"qeepverif/internal/ref"
	"qeepverif/internal/rt"
)

// C19 — Accuracy equals matched over total across everything accumulated.

func init() {
	fw.Register(&fw.Prop{
		ID: "C19",
		Rule: "sequential reference-model monitor (two integer counters): seeded histories of 1..60 Accumulate calls with batch sizes 1..50 and labels from {small integer sets, arbitrary reals, values containing NaN (never equal to anything), all-matching and all-differing batches}, interleaved with invalid calls (nil tensors, rank 0 / rank 2, mismatched lengths, foreign tensor) and a Result call after EVERY step. Result must equal matched/total exactly (0 before any accepted call), lie in [0,1], and be unchanged by a rejected call; error <=> invalid. The same data are then replayed into fresh Accuracy objects under 3..6 random re-partitions and as one single batch: the final Result must be bit-identical. " +
			"Non-trivial: >= 2 accepted batches with both matching and non-matching positions; distinct = (label class, number of batches, number of invalid calls, has a zero-match batch after a matching one). Later additions: batches of 100..999 positions; histories of 1100..1700 tiny batches on one object; a label class whose equality the statement leaves open (+-Inf, differences below 1e-240), decided only by partition invariance, range and rejected-call neutrality, with many batches of size 1." +
			" Round 4: one tensor object in both roles (accepted for rank 1, refused for ranks 0, 2, 3); a third of the label tensors are results of earlier operations (Reshape, Flatten, Slice, Concat, row of a matrix, Transpose+Squeeze, Broadcast of one element) on sources whose NElems / Shape / Mean were taken first.",
		Assumptions: []string{"prediction/target values at a position are either bit-identical or differ by >= 1e-3 (or one of them is NaN)"},
		FloorQuick:  1200, FloorThor: 2000,
		Run: runC19,
	})
}

func runC19(c *fw.Ctx) {
	for i := 0; i < c.Pick(10000, 300000); i++ {
		c.Case(func(k *fw.K) { c19History(k) })
	}
	for i := 0; i < c.Pick(160, 3200); i++ {
		c.Case(func(k *fw.K) { c19Collected(k) })
	}
}

// c19Collected: batches of ONE length, each built directly (TensorOf), used once and dropped, with a garbage collection between
// the steps: the allocator hands the next batch the addresses of the previous one - whatever the metric remembers about a batch
// must not be keyed by where its tensors happened to live.
func c19Collected(k *fw.K) {
	r := k.Rng
	n := 1 + r.Intn(6)
	steps := 6 + r.Intn(30)
	acc := metrics.NewAccuracy()
	matched, total := 0, 0
	k.Case = map[string]any{"family": "same-length batches with a garbage collection in between", "batch_length": n, "steps": steps}
	k.Key("collected/%d/%d", n, steps/8)
	k.Count("histories_with_garbage_collections_between_batches", 1)
	for s := 0; s < steps; s++ {
		p, t := make([]float64, n), make([]float64, n)
		for i := range p {
			t[i] = float64(r.Intn(3))
			p[i] = float64(r.Intn(3))
			if p[i] == t[i] {
				matched++
			}
		}
		total += n
		var err error
		if pn := call(func() {
			tp, e1 := tensor.TensorOf(p, rt.Conf(false))
			tt, e2 := tensor.TensorOf(t, rt.Conf(false))
			if e1 != nil || e2 != nil {
				err = e1
				if err == nil {
					err = e2
				}
				return
			}
			err = acc.Accumulate(tp, tt)
		}); pn != nil || err != nil {
			k.Failf("step %d: Accumulate: panic=%v err=%v", s, pn, err)
			return
		}
		got, rerr := acc.Result()
		if want := float64(matched) / float64(total); rerr != nil || got != want {
			k.Failf("step %d of same-length batches (length %d) with a garbage collection after every step: Result = %v, expected matched/total = %d/%d = %v", s, n, got, matched, total, want)
			return
		}
		runtime.GC()
	}
}

func c19History(k *fw.K) {
	r := k.Rng
	class := r.Intn(6)
	cname := []string{"small-ints", "reals", "with-NaN", "extreme-batches", "equality-unspecified(Inf, differences below 1e-240)", "neighbouring-doubles"}[class]
	exact := class != 4 // class 4: only partition invariance, range and rejected-call neutrality are decided
	nb := 1 + r.Intn(60)
	if r.Intn(2) == 0 {
		nb = 1 + r.Intn(8)
	}
	long := k.Index%200 == 7 // a few histories with well over a thousand tiny batches on one object
	if long {
		nb = 1100 + r.Intn(600)
	}
	type batch struct{ P, T []float64 }
	var batches []batch
	for b := 0; b < nb; b++ {
		n := 1 + r.Intn(50)
		switch q := r.Intn(8); {
		case long:
			n = 1 + r.Intn(3)
		default:
			switch q {
			case 0, 1, 2, 3:
				n = 1 + r.Intn(5)
			case 4:
				n = 100 + r.Intn(900) // batches far beyond the sizes the suite uses
			}
		}
		p, t := make([]float64, n), make([]float64, n)
		mode := r.Intn(5) // 0 mixed, 1 all match, 2 none match, 3 mixed, 4 constant prediction
		for i := range p {
			switch class {
			case 4:
				vals := []float64{math.Inf(1), math.Inf(-1), 0, 1e-300, 2e-300, -1e-300, 1, 1 + 1e-300}
				t[i], p[i] = vals[r.Intn(len(vals))], vals[r.Intn(len(vals))]
			case 0, 3:
				t[i] = float64(r.Intn(3))
				p[i] = float64(r.Intn(3))
				// a zero label may carry either sign (math.Round(-0.2), -1 * 0): -0 and +0 are the same label, their difference is exactly 0
				if t[i] == 0 && r.Intn(3) == 0 {
					t[i] = math.Copysign(0, -1)
				}
				if p[i] == 0 && r.Intn(3) == 0 {
					p[i] = math.Copysign(0, -1)
				}
			case 5: // distinct ADJACENT float64 values of ordinary magnitude (0.1+0.2 against 0.3): different labels
				t[i] = []float64{0.3, 1, 2, 0.1, 7, 1e6, -3, 9007199254740992}[r.Intn(8)]
				p[i] = t[i]
				switch r.Intn(5) {
				case 4: // labels of tiny magnitude that differ by far more than 1e-240 (1e-200 against 0): different labels; equal ones match
					t[i] = []float64{0, 1e-200, -1e-180, 3e-170, 1e-120}[r.Intn(5)]
					p[i] = t[i]
					if r.Intn(3) > 0 {
						p[i] = t[i] + []float64{1e-200, 1e-170, -1e-163, 1e-100, -3e-230}[r.Intn(5)]
						if !(math.Abs(p[i]-t[i]) > 1e-232) {
							p[i] = t[i] + 1e-100
						}
					}
				case 0:
					p[i] = math.Nextafter(t[i], math.Inf(1))
				case 1:
					p[i] = math.Nextafter(t[i], math.Inf(-1))
				case 2: // an infinity against the OPPOSITE infinity or a finite label: different labels (same-sign infinities are left to class 4)
					// predictions only ever +Inf, targets only ever -Inf, so that no same-sign pair can arise later in the history
					pair := [][2]float64{{math.Inf(1), math.Inf(-1)}, {math.Inf(1), 1e308}, {5, math.Inf(-1)}}[r.Intn(3)]
					p[i], t[i] = pair[0], pair[1]
				}
			case 1:
				t[i] = r.NormFloat64() * 10
				p[i] = t[i]
				if r.Intn(2) == 0 {
					p[i] += 1e-3 + r.Float64()
				}
			case 2:
				t[i] = float64(r.Intn(3))
				p[i] = float64(r.Intn(3))
				switch r.Intn(6) {
				case 0:
					p[i] = math.NaN()
				case 1:
					t[i] = math.NaN()
				case 2:
					p[i], t[i] = math.NaN(), math.NaN()
				}
			}
			if class == 3 || mode == 1 || mode == 2 {
				if mode == 1 && !math.IsNaN(t[i]) && !math.IsInf(t[i], 0) {
					p[i] = t[i]
				}
				if mode == 2 && p[i] == t[i] {
					p[i] = t[i] + 1
				}
			}
		}
		if mode == 4 && class != 4 {
			for i := range p {
				p[i] = p[0]
			}
		}
		batches = append(batches, batch{p, t})
	}
	k.Case = map[string]any{"label_class": cname, "batches": batches}
	acc := metrics.NewAccuracy()
	if k.Index%3 == 2 {
		acc = new(metrics.Accuracy) // the zero value of the exported type
	}
	matched, total, invalid := 0, 0, 0
	last, lastSet, rejectedJustNow := 0., false, false
	zeroAfterMatch, sawMatch := false, false
	var played []batch // every accepted batch in the order it was fed
	var other, snap *metrics.Accuracy
	omatched, ototal, snapMatched, snapTotal := 0, 0, 0, 0
	result := func(tag string) bool {
		var v float64
		var err error
		if p := call(func() { v, err = acc.Result() }); p != nil || err != nil {
			k.Failf("%s: Result failed: panic=%v err=%v", tag, p, err)
			return false
		}
		want := 0.
		if total > 0 {
			want = float64(matched) / float64(total)
		}
		k.Count("result_calls", 1)
		if !exact {
			if !(v >= 0 && v <= 1) {
				k.Failf("%s: Result = %v outside [0,1]", tag, v)
				return false
			}
			if lastSet && rejectedJustNow && math.Float64bits(v) != math.Float64bits(last) {
				k.Failf("%s: a rejected call changed Result from %v to %v", tag, last, v)
				return false
			}
			last, lastSet = v, true
			return true
		}
		if math.Float64bits(v) != math.Float64bits(want) || v < 0 || v > 1 {
			k.Failf("%s: Result = %v, expected matched/total = %d/%d = %v", tag, v, matched, total, want)
			return false
		}
		return true
	}
	if !result("before any call") {
		return
	}
	bad := func() (tensor.Tensor, tensor.Tensor, string) {
		v := rt.MustLeaf(ref.Full([]int{3}, 1), false)
		switch r.Intn(13) {
		case 12: // the "tensor" is what a REFUSED call returned next to its error (the caller ignored the error): a nil like any other
			refused, _ := v.Broadcast([]int{[]int{-2, 0, 2}[r.Intn(3)], 7})
			if r.Intn(2) == 0 {
				refused, _ = v.Reshape([]int{5})
			}
			if r.Intn(2) == 0 {
				return refused, v, "the (nil) result of a refused Broadcast / Reshape as prediction"
			}
			return v, refused, "the (nil) result of a refused Broadcast / Reshape as target"
		case 9: // a column [n,1] (what a single-unit layer emits) against a vector [n]: ranks differ, the call is invalid
			n := 1 + r.Intn(4)
			return rt.MustLeaf(ref.Full([]int{n, 1}, 1), false), rt.MustLeaf(ref.Full([]int{n}, 1), false), "column prediction [n,1] against a vector target [n]"
		case 10:
			n := 1 + r.Intn(4)
			return rt.MustLeaf(ref.Full([]int{n}, 1), false), rt.MustLeaf(ref.Full([]int{n, 1}, 1), false), "vector prediction [n] against a column target [n,1]"
		case 11:
			n := 1 + r.Intn(4)
			return rt.MustLeaf(ref.Full([]int{1, n}, 1), false), rt.MustLeaf(ref.Full([]int{n}, 1), false), "row prediction [1,n] against a vector target [n]"
		case 6:
			s := rt.MustLeaf(ref.Scalar(1), false)
			return s, s, "one rank-0 tensor object in both roles"
		case 7:
			m := rt.MustLeaf(ref.Full([]int{1 + r.Intn(3), 1 + r.Intn(3)}, 1), false)
			return m, m, "one rank-2 tensor object in both roles"
		case 8:
			m := rt.MustLeaf(ref.Full([]int{2, 1, 2}, 0), r.Intn(2) == 0)
			return m, m, "one rank-3 tensor object in both roles"
		case 0:
			return nil, v, "nil prediction"
		case 1:
			return v, nil, "nil target"
		case 2:
			return rt.MustLeaf(ref.Scalar(1), false), rt.MustLeaf(ref.Scalar(1), false), "rank 0"
		case 3:
			return rt.MustLeaf(ref.Full([]int{3, 1}, 1), false), rt.MustLeaf(ref.Full([]int{3, 1}, 1), false), "rank 2"
		case 4:
			return v, rt.MustLeaf(ref.Full([]int{4}, 1), false), "mismatched lengths"
		}
		return v, foreign{}, "foreign target"
	}
	for bi, b := range batches {
		if r.Intn(8) == 0 {
			// a call whose target (or prediction) is the caller's own struct embedding a library tensor of the right rank and length: it
			// passes every shape test. Whether the library takes it or refuses it is its choice - refused, it counts nothing; taken, it
			// counts like any batch (all positions equal here: both sides hold ones)
			n := 1 + r.Intn(4)
			real, wrapped := rt.MustLeaf(ref.Full([]int{n}, 1), false), tensor.Tensor(namedTensor{Tensor: rt.MustLeaf(ref.Full([]int{n}, 1), false), name: "labels"})
			var err error
			if pn := call(func() {
				if r.Intn(2) == 0 {
					err = acc.Accumulate(real, wrapped)
				} else {
					err = acc.Accumulate(wrapped, real)
				}
			}); pn != nil {
				k.Failf("Accumulate with a caller-side struct embedding a tensor: PANIC: %v", pn)
				return
			}
			if err == nil {
				matched, total = matched+n, total+n
				played = append(played, batch{ref.Full([]int{n}, 1).Data, ref.Full([]int{n}, 1).Data})
				k.Count("embedded_struct_calls_accepted", 1)
				if !result("after the accepted call with a caller-side struct embedding a tensor") {
					return
				}
			} else {
				k.Count("embedded_struct_calls_refused", 1)
				rejectedJustNow = true
				if !result("after the refused call whose target is a caller-side struct embedding a tensor of the right rank and length") {
					return
				}
				rejectedJustNow = false
			}
		}
		if r.Intn(4) == 0 { // an invalid call in between
			p, t, what := bad()
			var err error
			if pn := call(func() { err = acc.Accumulate(p, t) }); pn != nil {
				k.Failf("Accumulate(%s): PANIC: %v", what, pn)
				return
			}
			if err == nil {
				k.Failf("Accumulate(%s) was accepted", what)
				return
			}
			invalid++
			k.Count("rejected_calls", 1)
			rejectedJustNow = true
			if !result("after the rejected call (" + what + ")") {
				return
			}
			rejectedJustNow = false
		}
		var err error
		var tp, tt tensor.Tensor
		if pn := call(func() {
			if r.Intn(3) == 0 {
				var how string
				tp, how = c19Derived(k, b.P)
				k.Count("predictions_"+how, 1)
			} else {
				tp = rt.MustLeaf(ref.New([]int{len(b.P)}, b.P), r.Intn(4) == 0)
			}
			same := true
			for i := range b.P {
				same = same && math.Float64bits(b.P[i]) == math.Float64bits(b.T[i])
			}
			switch {
			case same && r.Intn(2) == 0:
				tt = tp // the very same tensor object in both roles
				k.Count("batches_with_one_object_in_both_roles", 1)
			case r.Intn(4) == 0:
				tt, _ = c19Derived(k, b.T)
			default:
				tt = rt.MustLeaf(ref.New([]int{len(b.T)}, b.T), false)
			}
			err = acc.Accumulate(tp, tt)
		}); pn != nil || err != nil {
			k.Failf("Accumulate(batch %d of size %d): panic=%v err=%v", bi, len(b.P), pn, err)
			return
		}
		account := func(b batch, tag string) bool {
			m := 0
			for i := range b.P {
				if b.P[i] == b.T[i] {
					m++
				}
			}
			if m == 0 && sawMatch {
				zeroAfterMatch = true
			}
			sawMatch = sawMatch || m > 0
			matched += m
			total += len(b.P)
			played = append(played, b)
			k.Count("accepted_batches", 1)
			return result(tag)
		}
		if !account(b, "after batch "+itoa(bi)) {
			return
		}
		// a VALUE COPY of the metric taken mid-history is an independent metric holding the counts of that moment
		if !long && snap == nil && r.Intn(6) == 0 {
			cp := *acc
			snap, snapMatched, snapTotal = &cp, matched, total
			k.Count("value_copies_taken_mid_history", 1)
		} else if snap != nil && r.Intn(2) == 0 {
			var sv float64
			if pn := call(func() { sv, err = snap.Result() }); pn != nil || err != nil {
				k.Failf("Result of a value copy of the metric: panic=%v err=%v", pn, err)
				return
			}
			want := 0.
			if snapTotal > 0 {
				want = float64(snapMatched) / float64(snapTotal)
			}
			if exact && sv != want {
				k.Failf("a value copy of the metric taken after %d of %d matches reports %v after the original went on accumulating (expected %v)", snapMatched, snapTotal, sv, want)
				return
			}
		}
		// a second metric object (a "validation" accuracy next to the "training" one) is alive and fed in between
		if !long && r.Intn(3) == 0 {
			if other == nil {
				other = metrics.NewAccuracy()
			}
			n := 1 + r.Intn(4)
			op, ot := make([]float64, n), make([]float64, n)
			for i := range op {
				op[i], ot[i] = float64(r.Intn(2)), float64(r.Intn(2))
				if op[i] == ot[i] {
					omatched++
				}
			}
			ototal += n
			var ov float64
			if pn := call(func() {
				if err = other.Accumulate(rt.MustLeaf(ref.New([]int{n}, op), false), rt.MustLeaf(ref.New([]int{n}, ot), false)); err == nil {
					ov, err = other.Result()
				}
			}); pn != nil || err != nil {
				k.Failf("second Accuracy object: panic=%v err=%v", pn, err)
				return
			}
			k.Count("batches_fed_to_a_second_metric_object", 1)
			if ov != float64(omatched)/float64(ototal) {
				k.Failf("second Accuracy object fed alternately with the first: Result = %v, expected %d/%d", ov, omatched, ototal)
				return
			}
			if !result("after feeding the OTHER metric object (batch " + itoa(bi) + ")") {
				return
			}
		}
		// the next accepted call shares exactly ONE tensor object with this one: the same target object scored against a
		// different prediction tensor, or the same prediction object against a different target tensor
		if r.Intn(4) == 0 && !long {
			other := make([]float64, len(b.P))
			reuseTarget := r.Intn(2) == 0
			for i := range other {
				src := b.P
				if r.Intn(2) == 0 {
					src = b.T
				}
				if class == 5 { // values of the role being replaced only (keeps the signs of infinities per role)
					src = b.T
					if reuseTarget {
						src = b.P
					}
				}
				other[i] = src[r.Intn(len(src))]
				if class == 1 && r.Intn(2) == 0 {
					other[i] += 1e-3 + r.Float64()
				}
			}
			nb2 := batch{P: other, T: b.T}
			if !reuseTarget {
				nb2 = batch{P: b.P, T: other}
			}
			fresh := rt.MustLeaf(ref.New([]int{len(other)}, other), false)
			if pn := call(func() {
				if reuseTarget {
					err = acc.Accumulate(fresh, tt)
				} else {
					err = acc.Accumulate(tp, fresh)
				}
			}); pn != nil || err != nil {
				k.Failf("Accumulate sharing one tensor object with the previous call (batch %d): panic=%v err=%v", bi, pn, err)
				return
			}
			k.Count("calls_sharing_one_object_with_the_previous_call", 1)
			if !account(nb2, "after the call that shares one tensor object with batch "+itoa(bi)) {
				return
			}
		}
	}
	final, _ := acc.Result()
	if nb >= 2 && matched > 0 && matched < total {
		k.Key("%s/%d/%d/%v", cname, nb, invalid, zeroAfterMatch)
	}
	if k.Index%60 == 0 {
		k.Sample()
	}
	// re-partitions of the same data
	var allP, allT []float64
	for _, b := range played {
		allP, allT = append(allP, b.P...), append(allT, b.T...)
	}
	for rep := 0; rep < 3+r.Intn(4); rep++ {
		a2 := metrics.NewAccuracy()
		pos := 0
		single := rep == 0
		for pos < len(allP) {
			n := 1 + r.Intn(1+len(allP)/2)
			if rep%2 == 1 {
				n = 1 + r.Intn(3) // many tiny batches, including batches of one
			}
			if single || pos+n > len(allP) {
				n = len(allP) - pos
			}
			if err := a2.Accumulate(rt.MustLeaf(ref.New([]int{n}, allP[pos:pos+n]), false), rt.MustLeaf(ref.New([]int{n}, allT[pos:pos+n]), false)); err != nil {
				k.Failf("re-partition %d: Accumulate failed: %v", rep, err)
				return
			}
			pos += n
		}
		v, _ := a2.Result()
		k.Count("repartitions", 1)
		if math.Float64bits(v) != math.Float64bits(final) {
			k.Failf("Result depends on how the data were split: %v for the original batches, %v for re-partition %d (single batch: %v)", final, v, rep, single)
			return
		}
	}
}

// c19Derived builds the rank-1 tensor with the given elements NOT as a leaf but as the result of
// earlier operations on a source whose statistics (NElems, Shape, Mean) were already asked for.
func c19Derived(k *fw.K, data []float64) (tensor.Tensor, string) {
	r := k.Rng
	n := len(data)
	touch := func(t tensor.Tensor) {
		if r.Intn(3) != 0 {
			_ = t.NElems()
		}
		if r.Intn(3) == 0 {
			_ = t.Shape()
		}
		if r.Intn(4) == 0 {
			_ = t.Mean()
		}
	}
	must := func(t tensor.Tensor, err error) tensor.Tensor {
		if err != nil || t == nil {
			panic("harness: derived label tensor: " + err.Error())
		}
		touch(t)
		return t
	}
	constant := true
	for _, v := range data {
		constant = constant && math.Float64bits(v) == math.Float64bits(data[0])
	}
	route := r.Intn(6)
	if constant && r.Intn(2) == 0 {
		route = 6
	}
	switch route {
	case 0: // Reshape of [n,1] / [1,n] / a factorisation
		shape := [][]int{{n, 1}, {1, n}, {1, n, 1}}[r.Intn(3)]
		for a := 2; a < n; a++ {
			if n%a == 0 && r.Intn(2) == 0 {
				shape = []int{a, n / a}
				break
			}
		}
		src := rt.MustLeaf(ref.New(shape, data), r.Intn(4) == 0)
		touch(src)
		if r.Intn(2) == 0 {
			return must(src.Flatten(0)), "flattened"
		}
		return must(src.Reshape([]int{n})), "reshaped"
	case 1: // Slice of a longer tensor
		pre, post := r.Intn(3), r.Intn(3)
		long := make([]float64, 0, n+pre+post)
		for i := 0; i < pre; i++ {
			long = append(long, 9)
		}
		long = append(long, data...)
		for i := 0; i < post; i++ {
			long = append(long, 9)
		}
		src := rt.MustLeaf(ref.New([]int{len(long)}, long), false)
		touch(src)
		return must(src.Slice([]tensor.Range{{From: pre, To: pre + n}})), "sliced"
	case 2: // Concat of two pieces
		if n < 2 {
			break
		}
		cut := 1 + r.Intn(n-1)
		a := rt.MustLeaf(ref.New([]int{cut}, data[:cut]), false)
		b := rt.MustLeaf(ref.New([]int{n - cut}, data[cut:]), false)
		touch(a)
		touch(b)
		return must(tensor.Concat([]tensor.Tensor{a, b}, 0)), "concatenated"
	case 3: // row of a matrix
		rows := 1 + r.Intn(3)
		row := r.Intn(rows)
		m := ref.Full([]int{rows, n}, 9)
		copy(m.Data[row*n:], data)
		src := rt.MustLeaf(m, false)
		touch(src)
		sl := must(src.Slice([]tensor.Range{{From: row, To: row + 1}}))
		return must(sl.Squeeze(0)), "row of a matrix"
	case 4: // Transpose of a row into a column, squeezed
		src := rt.MustLeaf(ref.New([]int{1, n}, data), false)
		touch(src)
		return must(must(src.Transpose()).Squeeze(1)), "transposed"
	case 6: // all positions equal: expansion of a one-element source
		var src tensor.Tensor
		if r.Intn(2) == 0 {
			src = rt.MustLeaf(ref.Scalar(data[0]), false)
		} else {
			src = rt.MustLeaf(ref.New([]int{1}, data[:1]), false)
		}
		touch(src)
		return must(src.Broadcast([]int{n})), "broadcast from one element"
	}
	t := rt.MustLeaf(ref.New([]int{n}, data), false)
	touch(t)
	return t, "leaf with statistics taken"
}

func itoa(i int) string {
	if i == 0 {
		return "0"
	}
	s := ""
	for i > 0 {
		s = string(rune('0'+i%10)) + s
		i /= 10
	}
	return s
}
