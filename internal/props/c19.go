package props

import (
	"math"

	"github.com/sahandsafizadeh/qeep/component/metrics"
	"github.com/sahandsafizadeh/qeep/tensor"

	"qeepverif/internal/fw"
	"qeepverif/internal/ref"
	"qeepverif/internal/rt"
)

// C19 — Accuracy equals matched over total across everything accumulated.

func init() {
	fw.Register(&fw.Prop{
		ID: "C19",
		Rule: "sequential reference-model monitor (two integer counters): seeded histories of 1..60 Accumulate calls with batch sizes 1..50 and labels from {small integer sets, arbitrary reals, values containing NaN (never equal to anything), all-matching and all-differing batches}, interleaved with invalid calls (nil tensors, rank 0 / rank 2, mismatched lengths, foreign tensor) and a Result call after EVERY step. Result must equal matched/total exactly (0 before any accepted call), lie in [0,1], and be unchanged by a rejected call; error <=> invalid. The same data are then replayed into fresh Accuracy objects under 3..6 random re-partitions and as one single batch: the final Result must be bit-identical. " +
			"Non-trivial: >= 2 accepted batches with both matching and non-matching positions; distinct = (label class, number of batches, number of invalid calls, has a zero-match batch after a matching one). Later additions: batches of 100..999 positions; histories of 1100..1700 tiny batches on one object; a label class whose equality the statement leaves open (+-Inf, differences below 1e-240), decided only by partition invariance, range and rejected-call neutrality, with many batches of size 1.",
		Assumptions: []string{"prediction/target values at a position are either bit-identical or differ by >= 1e-3 (or one of them is NaN)"},
		FloorQuick:  1200, FloorThor: 2000,
		Run: runC19,
	})
}

func runC19(c *fw.Ctx) {
	for i := 0; i < c.Pick(10000, 300000); i++ {
		c.Case(func(k *fw.K) { c19History(k) })
	}
}

func c19History(k *fw.K) {
	r := k.Rng
	class := r.Intn(5)
	cname := []string{"small-ints", "reals", "with-NaN", "extreme-batches", "equality-unspecified(Inf, differences below 1e-240)"}[class]
	exact := class != 4 // class 4: only partition invariance, range and rejected-call neutrality are decided
	nb := 1 + r.Intn(60)
	if r.Intn(2) == 0 {
		nb = 1 + r.Intn(8)
	}
	long := k.Index%200 == 7 // a few histories with well over a thousand tiny batches on one object
	if long {
		nb = 1100 + r.Intn(600)
	}
	type batch struct{ P, T []float64 }
	var batches []batch
	for b := 0; b < nb; b++ {
		n := 1 + r.Intn(50)
		switch q := r.Intn(8); {
		case long:
			n = 1 + r.Intn(3)
		default:
			switch q {
			case 0, 1, 2, 3:
				n = 1 + r.Intn(5)
			case 4:
				n = 100 + r.Intn(900) // batches far beyond the sizes the suite uses
			}
		}
		p, t := make([]float64, n), make([]float64, n)
		mode := r.Intn(4) // 0 mixed, 1 all match, 2 none match, 3 mixed
		for i := range p {
			switch class {
			case 4:
				vals := []float64{math.Inf(1), math.Inf(-1), 0, 1e-300, 2e-300, -1e-300, 1, 1 + 1e-300}
				t[i], p[i] = vals[r.Intn(len(vals))], vals[r.Intn(len(vals))]
			case 0, 3:
				t[i] = float64(r.Intn(3))
				p[i] = float64(r.Intn(3))
			case 1:
				t[i] = r.NormFloat64() * 10
				p[i] = t[i]
				if r.Intn(2) == 0 {
					p[i] += 1e-3 + r.Float64()
				}
			case 2:
				t[i] = float64(r.Intn(3))
				p[i] = float64(r.Intn(3))
				switch r.Intn(6) {
				case 0:
					p[i] = math.NaN()
				case 1:
					t[i] = math.NaN()
				case 2:
					p[i], t[i] = math.NaN(), math.NaN()
				}
			}
			if class == 3 || mode == 1 || mode == 2 {
				if mode == 1 && !math.IsNaN(t[i]) {
					p[i] = t[i]
				}
				if mode == 2 && p[i] == t[i] {
					p[i] = t[i] + 1
				}
			}
		}
		batches = append(batches, batch{p, t})
	}
	k.Case = map[string]any{"label_class": cname, "batches": batches}
	acc := metrics.NewAccuracy()
	matched, total, invalid := 0, 0, 0
	last, lastSet, rejectedJustNow := 0., false, false
	zeroAfterMatch, sawMatch := false, false
	result := func(tag string) bool {
		var v float64
		var err error
		if p := call(func() { v, err = acc.Result() }); p != nil || err != nil {
			k.Failf("%s: Result failed: panic=%v err=%v", tag, p, err)
			return false
		}
		want := 0.
		if total > 0 {
			want = float64(matched) / float64(total)
		}
		k.Count("result_calls", 1)
		if !exact {
			if !(v >= 0 && v <= 1) {
				k.Failf("%s: Result = %v outside [0,1]", tag, v)
				return false
			}
			if lastSet && rejectedJustNow && math.Float64bits(v) != math.Float64bits(last) {
				k.Failf("%s: a rejected call changed Result from %v to %v", tag, last, v)
				return false
			}
			last, lastSet = v, true
			return true
		}
		if math.Float64bits(v) != math.Float64bits(want) || v < 0 || v > 1 {
			k.Failf("%s: Result = %v, expected matched/total = %d/%d = %v", tag, v, matched, total, want)
			return false
		}
		return true
	}
	if !result("before any call") {
		return
	}
	bad := func() (tensor.Tensor, tensor.Tensor, string) {
		v := rt.MustLeaf(ref.Full([]int{3}, 1), false)
		switch r.Intn(6) {
		case 0:
			return nil, v, "nil prediction"
		case 1:
			return v, nil, "nil target"
		case 2:
			return rt.MustLeaf(ref.Scalar(1), false), rt.MustLeaf(ref.Scalar(1), false), "rank 0"
		case 3:
			return rt.MustLeaf(ref.Full([]int{3, 1}, 1), false), rt.MustLeaf(ref.Full([]int{3, 1}, 1), false), "rank 2"
		case 4:
			return v, rt.MustLeaf(ref.Full([]int{4}, 1), false), "mismatched lengths"
		}
		return v, foreign{}, "foreign target"
	}
	for bi, b := range batches {
		if r.Intn(4) == 0 { // an invalid call in between
			p, t, what := bad()
			var err error
			if pn := call(func() { err = acc.Accumulate(p, t) }); pn != nil {
				k.Failf("Accumulate(%s): PANIC: %v", what, pn)
				return
			}
			if err == nil {
				k.Failf("Accumulate(%s) was accepted", what)
				return
			}
			invalid++
			k.Count("rejected_calls", 1)
			rejectedJustNow = true
			if !result("after the rejected call (" + what + ")") {
				return
			}
			rejectedJustNow = false
		}
		var err error
		if pn := call(func() {
			err = acc.Accumulate(rt.MustLeaf(ref.New([]int{len(b.P)}, b.P), r.Intn(4) == 0), rt.MustLeaf(ref.New([]int{len(b.T)}, b.T), false))
		}); pn != nil || err != nil {
			k.Failf("Accumulate(batch %d of size %d): panic=%v err=%v", bi, len(b.P), pn, err)
			return
		}
		m := 0
		for i := range b.P {
			if b.P[i] == b.T[i] {
				m++
			}
		}
		if m == 0 && sawMatch {
			zeroAfterMatch = true
		}
		sawMatch = sawMatch || m > 0
		matched += m
		total += len(b.P)
		k.Count("accepted_batches", 1)
		if !result("after batch " + itoa(bi)) {
			return
		}
	}
	final, _ := acc.Result()
	if nb >= 2 && matched > 0 && matched < total {
		k.Key("%s/%d/%d/%v", cname, nb, invalid, zeroAfterMatch)
	}
	if k.Index%60 == 0 {
		k.Sample()
	}
	// re-partitions of the same data
	var allP, allT []float64
	for _, b := range batches {
		allP, allT = append(allP, b.P...), append(allT, b.T...)
	}
	for rep := 0; rep < 3+r.Intn(4); rep++ {
		a2 := metrics.NewAccuracy()
		pos := 0
		single := rep == 0
		for pos < len(allP) {
			n := 1 + r.Intn(1+len(allP)/2)
			if rep%2 == 1 {
				n = 1 + r.Intn(3) // many tiny batches, including batches of one
			}
			if single || pos+n > len(allP) {
				n = len(allP) - pos
			}
			if err := a2.Accumulate(rt.MustLeaf(ref.New([]int{n}, allP[pos:pos+n]), false), rt.MustLeaf(ref.New([]int{n}, allT[pos:pos+n]), false)); err != nil {
				k.Failf("re-partition %d: Accumulate failed: %v", rep, err)
				return
			}
			pos += n
		}
		v, _ := a2.Result()
		k.Count("repartitions", 1)
		if math.Float64bits(v) != math.Float64bits(final) {
			k.Failf("Result depends on how the data were split: %v for the original batches, %v for re-partition %d (single batch: %v)", final, v, rep, single)
			return
		}
	}
}

func itoa(i int) string {
	if i == 0 {
		return "0"
	}
	s := ""
	for i > 0 {
		s = string(rune('0'+i%10)) + s
		i /= 10
	}
	return s
}
