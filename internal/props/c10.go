package props

import (
	"fmt"
	"math"

	"github.com/sahandsafizadeh/qeep/component/layers"
	"github.com/sahandsafizadeh/qeep/component/losses"
	"github.com/sahandsafizadeh/qeep/component/optimizers"
	"github.com/sahandsafizadeh/qeep/tensor"

	"qeepverif/internal/fw"
	"qeepverif/internal/ref"
	"qeepverif/internal/rt"
)

// C10 — tensors behave as immutable values decoupled from caller-owned slices.

func init() {
	fw.Register(&fw.Prop{
		ID: "C10",
		Rule: "snapshot-registry monitor with argument scribbling: seeded random histories (C08's state machine supplies what each step may change) over TensorOf at every nesting depth / Full / Slice / Patch / Concat / Reshape / Broadcast / UnSqueeze / Flatten / Transpose / reductions / element-wise and implicitly broadcasting operations / Dot / MatMul / comparisons, BackPropagate and ResetGradContext. " +
			"After EVERY call: (1) every slice that was passed in (dims, shape, nested data at every level, []Range, []Tensor, At index) and every slice handed out (Shape()) is overwritten with garbage - a random mix of invalid values and valid-but-different ones; (2) the registry re-reads EVERY tensor created so far: Shape(), every element's bits, gradient identity, the gradient's own elements, hooked tracked/spent flags - only the set the state machine allows may differ (BackPropagate: gradients/spent flags of the reachable tracked set; ResetGradContext: its receiver). " +
			"At the end the same history is re-executed WITHOUT scribbling and every tensor and every final gradient must be bit-identical. A component scenario (NewFC with initializers that scribble the shape they were given, Weights() slice scribbled, variadic Forward inputs scribbled, loss, BackPropagate, SGD.Update through pointers) is monitored the same way. " +
			"Non-trivial: the history passes >= 1 slice argument and back-propagates after scribbling; distinct = multiset of (operation kinds with slice arguments) x number of back-propagations x length class. Later additions: MatMul / Dot / keepdims / Pow(0) / Var/StdAlong and ranks up to 6 in the generator; after every call the argument slices are compared with what was passed (the library must not write into them) before they are scribbled; rejected calls and adopted gradient tensors as actions." +
			" Round 4: Sigmoid / Relu objects and the MSE component as operations over existing tensors; action 'reset one operand of an earlier mixed-shape operation and apply it again'.",
		Assumptions: []string{"what a step may legitimately change is taken from the C08 state machine (only BackPropagate assigns gradients and spends, only ResetGradContext changes tracking)"},
		FloorQuick:  3000, FloorThor: 50000,
		Run: runC10,
	})
}

type c10snap struct {
	shape []int
	bits  []uint64
	grad  tensor.Tensor
	gbits []uint64
}

func bitsOf(t tensor.Tensor) ([]int, []uint64, error) {
	r, err := rt.Read(t)
	if err != nil {
		return nil, nil, err
	}
	b := make([]uint64, len(r.Data))
	for i, v := range r.Data {
		b[i] = math.Float64bits(v)
	}
	return r.Shape, b, nil
}

func sameBits(a, b []uint64) bool {
	if len(a) != len(b) {
		return false
	}
	for i := range a {
		if a[i] != b[i] {
			return false
		}
	}
	return true
}

// scribbling executor -------------------------------------------------------

type c10exec struct {
	k        *fw.K
	scribble bool
	kinds    map[string]int
}

// the library must not write into a slice the caller passed in
func (e *c10exec) argUnchanged(got []tensor.Range, orig []ref.Range, what string) {
	for i := range orig {
		if got[i].From != orig[i].From || got[i].To != orig[i].To {
			e.k.Failf("%s modified the caller's index slice: position %d was %v and is now %v", what, i, orig[i], got[i])
			return
		}
	}
}

func (e *c10exec) intsUnchanged(got, orig []int, what string) {
	for i := range orig {
		if got[i] != orig[i] {
			e.k.Failf("%s modified the caller's shape slice: %v became %v", what, orig, got)
			return
		}
	}
}

func (e *c10exec) garbageInts(s []int) {
	for i := range s {
		s[i] = []int{-7, 0, 1, 2, 5}[e.k.Rng.Intn(5)]
	}
}

func (e *c10exec) garbageRanges(idx []tensor.Range, shapeHint []int) {
	for i := range idx {
		switch e.k.Rng.Intn(3) {
		case 0:
			idx[i] = tensor.Range{From: -3, To: 99}
		case 1: // valid but different: another window of the dimension
			d := 3
			if i < len(shapeHint) {
				d = shapeHint[i]
			}
			f := e.k.Rng.Intn(d)
			idx[i] = tensor.Range{From: f, To: f + 1}
		default:
			idx[i] = tensor.Range{From: idx[i].To, To: idx[i].From}
		}
	}
}

func garbageNested(v any) {
	switch d := v.(type) {
	case []float64:
		for i := range d {
			d[i] = math.NaN()
		}
	case [][]float64:
		for i := range d {
			garbageNested(d[i])
			if i%2 == 1 {
				d[i] = nil
			}
		}
	case [][][]float64:
		for i := range d {
			garbageNested(d[i])
			if i%2 == 1 {
				d[i] = d[i][:0]
			}
		}
	case [][][][]float64:
		for i := range d {
			garbageNested(d[i])
		}
	}
}

func (e *c10exec) exec(in ref.Instr, xs []tensor.Tensor) (t tensor.Tensor, err error, panicked any) {
	panicked = call(func() {
		switch in.Op {
		case "leaf":
			x := ref.New(in.Shape, in.Data)
			if len(in.Shape) > 4 {
				t, err = rt.Leaf(x, in.Tracked)
				return
			}
			nested := rt.Nested(x)
			switch d := nested.(type) {
			case float64:
				t, err = tensor.TensorOf(d, rt.Conf(in.Tracked))
			case []float64:
				t, err = tensor.TensorOf(d, rt.Conf(in.Tracked))
			case [][]float64:
				t, err = tensor.TensorOf(d, rt.Conf(in.Tracked))
			case [][][]float64:
				t, err = tensor.TensorOf(d, rt.Conf(in.Tracked))
			case [][][][]float64:
				t, err = tensor.TensorOf(d, rt.Conf(in.Tracked))
			}
			e.kinds["TensorOf"]++
			if e.scribble {
				garbageNested(nested)
			}
		case "full":
			dims := ref.CopyInts(in.Shape)
			switch in.F { // the constants 0 and 1 come from the dedicated constructors
			case 0:
				t, err = tensor.Zeros(dims, rt.Conf(in.Tracked))
			case 1:
				t, err = tensor.Ones(dims, rt.Conf(in.Tracked))
			default:
				t, err = tensor.Full(dims, in.F, rt.Conf(in.Tracked))
			}
			e.kinds["Full"]++
			if e.scribble {
				e.garbageInts(dims)
			}
		case "slice":
			idx := rt.Ranges(in.Index)
			t, err = xs[0].Slice(idx)
			e.argUnchanged(idx, in.Index, "Slice")
			e.kinds["Slice"]++
			if e.scribble {
				e.garbageRanges(idx, xs[0].Shape())
			}
		case "patch":
			idx := rt.Ranges(in.Index)
			t, err = xs[0].Patch(idx, xs[1])
			e.argUnchanged(idx, in.Index, "Patch")
			e.kinds["Patch"]++
			if e.scribble {
				e.garbageRanges(idx, xs[0].Shape())
			}
		case "reshape":
			shape := ref.CopyInts(in.Shape)
			t, err = xs[0].Reshape(shape)
			e.intsUnchanged(shape, in.Shape, "Reshape")
			e.kinds["Reshape"]++
			if e.scribble {
				e.garbageInts(shape)
			}
		case "broadcast":
			shape := ref.CopyInts(in.Shape)
			t, err = xs[0].Broadcast(shape)
			e.intsUnchanged(shape, in.Shape, "Broadcast")
			e.kinds["Broadcast"]++
			if e.scribble {
				e.garbageInts(shape)
			}
		case "concat":
			ts := append([]tensor.Tensor(nil), xs...)
			t, err = tensor.Concat(ts, in.Dim)
			e.kinds["Concat"]++
			for i := range xs { // the list is the caller's: the library reads it, it does not rearrange it
				if ts[i] != xs[i] {
					e.k.Failf("Concat modified the caller's tensor list: entry %d of %d now holds another tensor", i, len(xs))
					return
				}
			}
			if e.scribble {
				for i := range ts {
					switch e.k.Rng.Intn(3) {
					case 0:
						ts[i] = nil
					case 1:
						ts[i] = t // a tensor with a different extent along the concat dimension
					default:
						ts[i] = ts[(i+1)%len(ts)]
					}
				}
			}
		default:
			t, err = rt.Exec(in, xs)
		}
		if e.scribble && t != nil && err == nil {
			s := t.Shape()
			e.garbageInts(s) // a slice handed out to the caller
		}
	})
	return
}

// history --------------------------------------------------------------------

func c10GenOp(h *c08hist) (ref.Instr, bool) {
	r := h.k.Rng
	us := h.usable()
	if len(us) == 0 || r.Intn(6) == 0 {
		shape := RandShape(r, 0, 4, 3)
		if r.Intn(6) == 0 {
			shape = RandShape(r, 4, 6, 2)
		}
		if r.Intn(5) == 0 {
			if r.Intn(3) == 0 { // identity matrices of a few orders, again and again: every call returns a tensor of its own
				return ref.Instr{Op: "eye", Dim: 1 + r.Intn(3), Tracked: r.Intn(3) == 0}, true
			}
			return ref.Instr{Op: "full", Shape: shape, F: []float64{0.5 + r.Float64(), 0, 1}[r.Intn(3)], Tracked: r.Intn(3) > 0}, true
		}
		t := Shuffled(r, Unique(r, shape, 0.2, 1.5))
		if r.Intn(10) == 0 { // an untracked constant holding +Inf, -Inf or NaN: products with it give later back-propagations and optimizer steps non-finite gradients
			for i := range t.Data {
				if i == 0 || r.Intn(3) == 0 {
					t.Data[i] = []float64{math.Inf(1), math.Inf(-1), math.NaN()}[r.Intn(3)]
				}
			}
			h.k.Count("non_finite_constants_in_histories", 1)
			return ref.Instr{Op: "leaf", Shape: shape, Data: t.Data, Tracked: false}, true
		}
		return ref.Instr{Op: "leaf", Shape: shape, Data: t.Data, Tracked: r.Intn(3) > 0}, true
	}
	x := us[r.Intn(len(us))]
	v := h.nodes[x].val
	rank := len(v.Shape)
	compat := func(pred func(s []int) bool) (int, bool) {
		var c []int
		for _, j := range us {
			if pred(h.nodes[j].val.Shape) {
				c = append(c, j)
			}
		}
		if len(c) == 0 {
			return 0, false
		}
		return c[r.Intn(len(c))], true
	}
	switch r.Intn(15) {
	case 12: // MatMul / Dot: the receiver is used again afterwards by later steps
		if rank >= 2 && len(v.Data) <= 36 {
			if y, ok := compat(func(s []int) bool { // any partner the product is defined for: equal rank, or a lower / higher rank with broadcastable batch dimensions
				if len(s) < 2 || ref.Prod(s) > 36 {
					return false
				}
				_, _, _, _, err := ref.MatMulShapes(v.Shape, s)
				return err == nil
			}); ok && maxAbs(v) < 10 && maxAbs(h.nodes[y].val) < 10 {
				return ref.Instr{Op: "matmul", In: []int{x, y}}, true
			}
			return ref.Instr{Op: "transpose", In: []int{x}}, true
		}
		if y, ok := compat(func(s []int) bool { return ref.SameShape(s, v.Shape) }); ok && rank >= 1 && maxAbs(v) < 10 && maxAbs(h.nodes[y].val) < 10 {
			return ref.Instr{Op: "dot", In: []int{x, y}}, true
		}
	case 13: // reductions whose backward rule is built from the operand alone (size-1 dimension), Pow(0)
		if rank >= 1 {
			dim := r.Intn(rank)
			if v.Shape[dim] == 1 || fibresSeparated(v, dim, 1e-2) {
				return ref.Instr{Op: []string{"varalong", "stdalong", "maxalong"}[r.Intn(3)], In: []int{x}, Dim: dim}, true
			}
		}
		return ref.Instr{Op: "pow", In: []int{x}, F: 0}, true
	case 14: // keepdims idiom on a higher-rank tensor
		if rank >= 3 {
			return ref.Instr{Op: []string{"sumalong", "meanalong"}[r.Intn(2)], In: []int{x}, Dim: r.Intn(rank)}, true
		}
		return ref.Instr{Op: "unsqueeze", In: []int{x}, Dim: r.Intn(rank + 1)}, true
	case 0, 1:
		if rank >= 1 {
			idx := make([]ref.Range, r.Intn(rank+1))
			for q := range idx {
				rs := allRanges(v.Shape[q])
				idx[q] = rs[r.Intn(len(rs))]
			}
			return ref.Instr{Op: "slice", In: []int{x}, Index: idx}, true
		}
	case 2, 3:
		if rank >= 1 {
			// source: a slice-shaped tensor among existing ones, else patch x into itself
			y, ok := compat(func(s []int) bool {
				if len(s) != rank {
					return false
				}
				for i := range s {
					if s[i] > v.Shape[i] {
						return false
					}
				}
				return true
			})
			if !ok {
				y = x
			}
			src := h.nodes[y].val.Shape
			idx := make([]ref.Range, r.Intn(rank+1))
			for q := range idx {
				if r.Intn(3) == 0 {
					continue
				}
				off := r.Intn(v.Shape[q] - src[q] + 1)
				idx[q] = ref.Range{From: off, To: off + src[q]}
			}
			return ref.Instr{Op: "patch", In: []int{x, y}, Index: idx}, true
		}
	case 4:
		if r.Intn(2) == 0 { // siblings: an earlier Concat result is extended again, in front position and along the same dimension
			var cs []int
			for _, j := range us {
				if n := h.nodes[j]; n.in.Op == "concat" && len(n.val.Data) <= 40 {
					cs = append(cs, j)
				}
			}
			if len(cs) > 0 {
				x = cs[r.Intn(len(cs))]
				v = h.nodes[x].val
				rank = len(v.Shape)
				dim := h.nodes[x].in.Dim
				y, found := compat(func(s []int) bool {
					if len(s) != rank || s[dim] > 2 {
						return false
					}
					for i := range s {
						if i != dim && s[i] != v.Shape[i] {
							return false
						}
					}
					return true
				})
				if !found { // no short partner yet: make one (one or two slabs along the concat dimension)
					shape := ref.CopyInts(v.Shape)
					shape[dim] = 1 + r.Intn(2)
					t := Shuffled(r, Unique(r, shape, 0.2, 1.5))
					return ref.Instr{Op: "leaf", Shape: shape, Data: t.Data, Tracked: r.Intn(3) == 0}, true
				}
				return ref.Instr{Op: "concat", In: []int{x, y}, Dim: dim}, true
			}
		}
		if rank >= 1 && len(v.Data) <= 27 {
			dim := r.Intn(rank)
			y, _ := compat(func(s []int) bool {
				if len(s) != rank {
					return false
				}
				for i := range s {
					if i != dim && s[i] != v.Shape[i] {
						return false
					}
				}
				return true
			})
			return ref.Instr{Op: "concat", In: []int{x, y}, Dim: dim}, true
		}
	case 5:
		ts := shapesWithProduct(len(v.Data), 4)
		ts = append(ts, v.Shape)
		return ref.Instr{Op: "reshape", In: []int{x}, Shape: ts[r.Intn(len(ts))]}, true
	case 6:
		if len(v.Data) <= 9 && rank <= 3 {
			ts := BroadcastTargets(v.Shape, 1)
			return ref.Instr{Op: "broadcast", In: []int{x}, Shape: ts[r.Intn(len(ts))]}, true
		}
	case 7:
		if y, ok := compat(func(s []int) bool { _, err := ref.BroadcastShape(s, v.Shape); return err == nil }); ok {
			op := []string{"add", "sub", "mul"}[r.Intn(3)]
			if maxAbs(v)*maxAbs(h.nodes[y].val) > 50 {
				op = "sub"
			}
			if bs, _ := ref.BroadcastShape(h.nodes[y].val.Shape, v.Shape); ref.Prod(bs) <= 81 {
				return ref.Instr{Op: op, In: []int{x, y}}, true
			}
		}
	case 8:
		if rank >= 2 {
			return ref.Instr{Op: "transpose", In: []int{x}}, true
		}
		return ref.Instr{Op: "unsqueeze", In: []int{x}, Dim: r.Intn(rank + 1)}, true
	case 9:
		if rank >= 1 {
			return ref.Instr{Op: []string{"sumalong", "meanalong", "flatten"}[r.Intn(3)], In: []int{x}, Dim: r.Intn(rank)}, true
		}
	case 10:
		if y, ok := compat(func(s []int) bool { return ref.SameShape(s, v.Shape) }); ok {
			return ref.Instr{Op: []string{"gt", "eq", "ge", "lt", "le", "ne"}[r.Intn(6)], In: []int{x, y}}, true
		}
	case 11: // component calls over existing tensors: a loss (rank 1), an activation object
		if y, ok := compat(func(s []int) bool { return ref.SameShape(s, v.Shape) }); ok && rank == 1 {
			return ref.Instr{Op: "mse", In: []int{x, y}}, true
		}
		return ref.Instr{Op: []string{"sigmoid", "relu"}[r.Intn(2)], In: []int{x}}, true
	}
	return ref.Instr{Op: []string{"sin", "tanh", "cos"}[r.Intn(3)], In: []int{x}}, true
}

// c10Run executes a recorded action list (or generates one when actions == nil).
func c10Run(k *fw.K, actions []c08action, scribble bool) (h *c08hist, ex *c10exec, ok bool) {
	ex = &c10exec{k: k, scribble: scribble, kinds: map[string]int{}}
	h = &c08hist{k: k, trans: map[string]bool{}, flags: map[string]bool{}, execFn: ex.exec, skipValues: true}
	var snaps []*c10snap
	h.afterObserve = func(step int, changed map[int]bool) bool {
		for i, n := range h.nodes {
			if i >= len(snaps) { // new tensor: take its snapshot
				shape, bits, err := bitsOf(n.real)
				if err != nil {
					k.Failf("step %d: cannot read new tensor %d: %v", step, i, err)
					return false
				}
				snaps = append(snaps, &c10snap{shape: shape, bits: bits})
			}
			sn := snaps[i]
			shape, bits, err := bitsOf(n.real)
			if err != nil {
				k.Failf("step %d (%s): tensor %d became unreadable: %v", step, h.last(), i, err)
				return false
			}
			if !ref.SameShape(shape, sn.shape) {
				k.Failf("step %d (%s): the shape of existing tensor %d changed from %v to %v", step, h.last(), i, sn.shape, shape)
				return false
			}
			if !sameBits(bits, sn.bits) {
				k.Failf("step %d (%s): elements of existing tensor %d (shape %v) changed", step, h.last(), i, shape)
				return false
			}
			g := n.real.Gradient()
			if g != sn.grad {
				sn.grad, sn.gbits = g, nil
				if g != nil {
					_, sn.gbits, err = bitsOf(g)
					if err != nil {
						k.Failf("step %d: gradient of tensor %d unreadable: %v", step, i, err)
						return false
					}
				}
			} else if g != nil {
				_, gb, err := bitsOf(g)
				if err != nil || !sameBits(gb, sn.gbits) {
					k.Failf("step %d (%s): the gradient tensor of tensor %d was modified in place (err=%v)", step, h.last(), i, err)
					return false
				}
			}
		}
		k.Count("registry_rereads", int64(len(h.nodes)))
		return true
	}
	ok = true
	if actions != nil {
		for _, a := range actions {
			switch a.Kind {
			case "op":
				ok = h.doOp(a.Instr)
			case "backprop":
				ok = h.doBackprop(a.Target)
			case "reset":
				ok = h.doReset(a.Target, a.Flag)
			case "reject":
				ok = h.doReject(a.Instr.Dim, a.Instr.In[0], a.Instr.In[1])
			case "adopt-gradient":
				ok = h.doAdopt(a.Target, a.Flag)
			case "sgd":
				ok = h.doSGD(a.Target, a.Flag)
			}
			if !ok {
				return h, ex, false
			}
		}
		return h, ex, true
	}
	steps := 8 + k.Rng.Intn(50)
	for s := 0; s < steps && ok && len(h.nodes) < 45; s++ {
		switch q := k.Rng.Intn(10); {
		case len(h.nodes) >= 3 && q == 9 && k.Rng.Intn(2) == 0:
			ok = h.doReject(k.Rng.Intn(64), k.Rng.Intn(len(h.nodes)), k.Rng.Intn(len(h.nodes)))
		case len(h.nodes) >= 3 && q == 9 && k.Rng.Intn(2) == 0:
			ok = h.doAdopt(k.Rng.Intn(len(h.nodes)), k.Rng.Intn(2) == 0)
		case len(h.nodes) >= 3 && q < 2:
			t := k.Rng.Intn(len(h.nodes))
			if h.backpropAllowed(t) {
				ok = h.doBackprop(t)
			}
		case len(h.nodes) >= 3 && q == 2:
			t := k.Rng.Intn(len(h.nodes))
			if h.resetAllowed(t) {
				ok = h.doReset(t, k.Rng.Intn(2) == 0)
			}
		case len(h.nodes) >= 3 && q == 3 && k.Rng.Intn(3) == 0:
			ok = h.doResetAndRepeat()
		case len(h.nodes) >= 3 && q == 3: // an optimizer step (sometimes with learning rate 0) on a tensor that holds a gradient
			var c []int
			for i, n := range h.nodes {
				if n.grad != nil && !n.cmpOfSpent {
					c = append(c, i)
				}
			}
			if len(c) > 0 {
				ok = h.doSGD(c[k.Rng.Intn(len(c))], k.Rng.Intn(3) == 0)
			}
		default:
			if in, good := c10GenOp(h); good {
				ok = h.doOp(in)
			}
		}
	}
	// make sure gradients flow after all the scribbling: back-propagate every tensor that still can be
	for t := len(h.nodes) - 1; t >= 0 && ok; t-- {
		if h.nodes[t].tracked && !h.nodes[t].spent && h.backpropAllowed(t) {
			ok = h.doBackprop(t)
		}
	}
	return h, ex, ok
}

func runC10(c *fw.Ctx) {
	for i := 0; i < c.Pick(6000, 150000); i++ {
		c.Case(func(k *fw.K) {
			h, ex, ok := c10Run(k, nil, true)
			k.Case = map[string]any{"history": h.actions}
			if k.Index%40 == 0 {
				k.Sample()
			}
			nb := 0
			for _, a := range h.actions {
				if a.Kind == "backprop" {
					nb++
				}
			}
			k.Count("steps", int64(len(h.actions)))
			k.Count("backprops", int64(nb))
			nslice := 0
			for kind, n := range ex.kinds {
				k.Count("scribbled_calls_"+kind, int64(n))
				nslice += n
			}
			if nslice > 0 && nb > 0 {
				k.Key("%v/bp%d/len%d", ex.kinds, min(nb, 6), len(h.actions)/8)
			}
			if !ok || k.Failed() {
				return
			}
			// twin run without scribbling: everything must be bit-identical
			h2, _, ok2 := c10Run(k, h.actions, false)
			if !ok2 || k.Failed() {
				if !k.Failed() {
					k.Failf("twin run without scribbling failed")
				}
				return
			}
			for i := range h.nodes {
				_, a, e1 := bitsOf(h.nodes[i].real)
				_, b, e2 := bitsOf(h2.nodes[i].real)
				if e1 != nil || e2 != nil || !sameBits(a, b) {
					k.Failf("tensor %d differs between the scribbled run and the twin run without scribbling (%v %v)", i, e1, e2)
					return
				}
				g1, g2 := h.nodes[i].real.Gradient(), h2.nodes[i].real.Gradient()
				if (g1 == nil) != (g2 == nil) {
					k.Failf("tensor %d: gradient nil-ness differs between the scribbled run and its twin", i)
					return
				}
				if g1 != nil {
					s1, a, e1 := bitsOf(g1)
					s2, b, e2 := bitsOf(g2)
					if e1 != nil || e2 != nil || !ref.SameShape(s1, s2) || !sameBits(a, b) {
						k.Failf("the final gradient of tensor %d differs between the scribbled run (shape %v) and the twin run without scribbling (shape %v): mutating caller-owned slices changed the outcome of a later back-propagation (%v %v)", i, s1, s2, e1, e2)
						return
					}
				}
			}
			k.Count("twin_histories", 1)
		})
	}
	for i := 0; i < c.Pick(1000, 20000); i++ {
		c.Case(func(k *fw.K) { c10Components(k) })
	}
	for i := 0; i < c.Pick(600, 12000); i++ {
		c.Case(func(k *fw.K) { c10HeldParameters(k) })
	}
	for i := 0; i < c.Pick(400, 8000); i++ {
		c.Case(func(k *fw.K) { c10RecycledBuffers(k) })
	}
}

// c10RecycledBuffers: the caller keeps ONE dims buffer (and one nested-data buffer) and refills it for every constructor
// call, the way a loop over layer sizes does. Each tensor has the shape and the elements requested at its own call - whatever
// the buffer held before or holds afterwards - and earlier tensors are unaffected by later calls.
func c10RecycledBuffers(k *fw.K) {
	r := k.Rng
	rank := 1 + r.Intn(3)
	buf := make([]int, rank)
	ctor := r.Intn(6)
	val := []float64{0, 1, 0.5, -2}[r.Intn(4)]
	name := []string{"Zeros", "Ones", "Full", "RandU", "RandN", "TensorOf"}[ctor]
	type made struct {
		t     tensor.Tensor
		shape []int
		bits  []uint64
	}
	var all []made
	calls := 3 + r.Intn(6)
	var data [][]float64
	for q := 0; q < calls; q++ {
		shape := RandShape(r, rank, rank, 4)
		if q > 0 && r.Intn(3) == 0 {
			shape = ref.CopyInts(all[r.Intn(len(all))].shape) // an earlier shape again
		}
		copy(buf, shape)
		conf := rt.Conf(r.Intn(3) == 0)
		var t tensor.Tensor
		var err error
		pn := call(func() {
			switch ctor {
			case 0:
				t, err = tensor.Zeros(buf, conf)
			case 1:
				t, err = tensor.Ones(buf, conf)
			case 2:
				t, err = tensor.Full(buf, val, conf)
			case 3:
				t, err = tensor.RandU(buf, -1, 1, conf)
			case 4:
				t, err = tensor.RandN(buf, 0, 1, conf)
			default: // one nested buffer, re-sliced and refilled: [rows][cols]
				rows, cols := 1+r.Intn(4), 1+r.Intn(4)
				shape = []int{rows, cols}
				if data == nil {
					data = make([][]float64, 4)
					for i := range data {
						data[i] = make([]float64, 4)
					}
				}
				view := make([][]float64, rows)
				for i := range view {
					view[i] = data[i][:cols]
					for j := range view[i] {
						view[i][j] = float64(100*q+10*i+j) + 0.5
					}
				}
				t, err = tensor.TensorOf(view, conf)
			}
		})
		if pn != nil || err != nil || t == nil {
			k.Failf("%s call %d with the recycled buffer holding %v: panic=%v err=%v", name, q, shape, pn, err)
			return
		}
		sh, bits, err := bitsOf(t)
		if err != nil || !ref.SameShape(sh, shape) || len(bits) != ref.Prod(shape) || t.NElems() != ref.Prod(shape) {
			k.Failf("%s call %d with the recycled buffer holding %v: the result has shape %v, %d readable elements, NElems %d (%v)", name, q, shape, sh, len(bits), t.NElems(), err)
			return
		}
		for i, b := range bits {
			v := math.Float64frombits(b)
			want, decided := 0., true
			switch ctor {
			case 0:
				want = 0
			case 1:
				want = 1
			case 2:
				want = val
			case 5:
				want = float64(100*q+10*(i/shape[1])+i%shape[1]) + 0.5
			default:
				decided = false
			}
			if decided && v != want {
				k.Failf("%s call %d with the recycled buffer holding %v: element %d is %v, requested %v", name, q, shape, i, v, want)
				return
			}
		}
		if ctor <= 2 {
			if sum := t.Sum(); sum != val*float64(ref.Prod(shape)) && ctor == 2 || ctor == 1 && sum != float64(ref.Prod(shape)) || ctor == 0 && sum != 0 {
				k.Failf("%s call %d with the recycled buffer holding %v: Sum() = %v over %d elements", name, q, shape, sum, ref.Prod(shape))
				return
			}
		}
		all = append(all, made{t, ref.CopyInts(shape), bits})
		for j, m := range all { // every earlier tensor is what it was
			sh, bits, err := bitsOf(m.t)
			if err != nil || !ref.SameShape(sh, m.shape) || !sameBits(bits, m.bits) {
				k.Failf("%s: the tensor of call %d (shape %v) changed after call %d refilled the caller's buffer with %v: shape %v (%v)", name, j, m.shape, q, shape, sh, err)
				return
			}
		}
	}
	k.Key("recycled-buffer/%s/rank%d/%d-calls", name, rank, calls)
	k.Count("recycled_buffer_constructor_calls", int64(calls))
}

// scribbleInit is an initializer that overwrites the shape slice the library handed to it.
type scribbleInit struct {
	vals     []float64
	scribble bool
}

func (s scribbleInit) Init(shape []int) (tensor.Tensor, error) {
	t, err := tensor.TensorOf(append([]float64(nil), s.vals...), rt.Conf(true))
	if s.scribble {
		for i := range shape {
			shape[i] = -9
		}
	}
	return t, err
}

// heldInit hands the layer a tensor that already exists and that the caller keeps using (pretrained, frozen or shared parameters).
type heldInit struct{ t tensor.Tensor }

func (h heldInit) Init([]int) (tensor.Tensor, error) { return h.t, nil }

// c10HeldParameters: a layer built over EXISTING tensors (custom initializers returning tensors the caller holds: frozen = untracked,
// or tracked ones that already hold a gradient from an earlier pass) leaves those tensors as they are - values, gradient object,
// tracked and spent flags; constructing the layer and running it forward assigns no gradient and changes no tracking.
func c10HeldParameters(k *fw.K) {
	r := k.Rng
	B, D, O := 1+r.Intn(3), 1+r.Intn(3), 1+r.Intn(3)
	kinds := [2]int{r.Intn(3), r.Intn(3)} // 0 frozen (untracked), 1 tracked fresh, 2 tracked and already holding a gradient (spent)
	var held [2]tensor.Tensor
	var vals [2]*ref.T
	for i := range held {
		vals[i] = RandT(r, []int{O}, -1, 1)
		held[i] = rt.MustLeaf(vals[i], kinds[i] != 0)
		if kinds[i] == 2 {
			if err := tensor.BackPropagate(held[i].Scale(3)); err != nil {
				k.Failf("harness: %v", err)
				return
			}
		}
	}
	k.Case = map[string]any{"scenario": "NewFC over tensors the caller holds", "batch": B, "features": D, "outputs": O, "weight_kind": kinds[0], "bias_kind": kinds[1]}
	k.Key("held-parameters/%d/%d/%d/%v", B, D, O, kinds)
	k.Count("held_parameter_scenarios", 1)
	type snap struct {
		st   tensor.VerifState
		ok   bool
		grad tensor.Tensor
	}
	take := func() (o [2]snap) {
		for i, t := range held {
			o[i].st, o[i].ok = tensor.VerifGradState(t)
			o[i].grad = t.Gradient()
		}
		return
	}
	before := take()
	check := func(stage string) bool {
		now := take()
		for i := range held {
			name := []string{"weight", "bias"}[i]
			if now[i].grad != before[i].grad {
				k.Failf("%s: the gradient of the held %s tensor changed (nil before: %v, nil now: %v) although nothing was back-propagated", stage, name, before[i].grad == nil, now[i].grad == nil)
				return false
			}
			if now[i].ok && before[i].ok && (now[i].st.Tracked != before[i].st.Tracked || now[i].st.BPDirty != before[i].st.BPDirty) {
				k.Failf("%s: tracking of the held %s tensor changed from tracked=%v spent=%v to tracked=%v spent=%v although the caller never called ResetGradContext", stage, name, before[i].st.Tracked, before[i].st.BPDirty, now[i].st.Tracked, now[i].st.BPDirty)
				return false
			}
			if e := rt.Compare(held[i], vals[i], 0, 0, nil, 0); e != nil {
				k.Failf("%s: the held %s tensor changed: %v", stage, name, e)
				return false
			}
		}
		return true
	}
	var fc *layers.FC
	var err error
	if p := call(func() {
		fc, err = layers.NewFC(&layers.FCConfig{Inputs: D, Outputs: O, Initializers: map[string]layers.Initializer{"Weight": heldInit{held[0]}, "Bias": heldInit{held[1]}}})
	}); p != nil || err != nil || fc == nil {
		k.Failf("NewFC over held tensors: panic=%v err=%v", p, err)
		return
	}
	if !check("after NewFC") {
		return
	}
	var y tensor.Tensor
	if p := call(func() { y, err = fc.Forward(rt.MustLeaf(RandT(r, []int{B, D}, -1, 1), r.Intn(2) == 0)) }); p != nil || err != nil || y == nil {
		k.Failf("Forward of a layer over held tensors: panic=%v err=%v", p, err)
		return
	}
	if !check("after Forward") {
		return
	}
	// a frozen parameter stays frozen through a back-propagation of the layer's output
	if kinds[0] != 2 && kinds[1] != 2 {
		if p := call(func() { err = tensor.BackPropagate(y) }); p != nil || err != nil {
			k.Failf("BackPropagate through a layer over held tensors: panic=%v err=%v", p, err)
			return
		}
		for i, t := range held {
			if kinds[i] == 0 && t.Gradient() != nil {
				k.Failf("a frozen (untracked) %s tensor handed to NewFC received a gradient", []string{"weight", "bias"}[i])
				return
			}
		}
	}
}

// c10Components: FC / loss / optimizer scenario under scribbling, compared with a twin without.
func c10Components(k *fw.K) {
	B, D, O := 1+k.Rng.Intn(3), 1+k.Rng.Intn(3), 1+k.Rng.Intn(3)
	w0, b0 := RandT(k.Rng, []int{O}, -1, 1), RandT(k.Rng, []int{O}, -1, 1)
	x0, t0 := RandT(k.Rng, []int{B, D}, -1, 1), RandT(k.Rng, []int{B * O}, -1, 1)
	steps := 1 + k.Rng.Intn(3)
	k.Case = map[string]any{"scenario": "FC->Flatten->MSE->BackPropagate->SGD.Update", "batch": B, "features": D, "outputs": O, "steps": steps, "W": w0.Data, "B": b0.Data, "x": x0.Data, "target": t0.Data}
	k.Key("components/%d/%d/%d/%d", B, D, O, steps)
	k.Count("component_scenarios", 1)
	run := func(scribble bool) (out [][]uint64, msg string) {
		if p := call(func() {
			fc, err := layers.NewFC(&layers.FCConfig{Inputs: D, Outputs: O, Initializers: map[string]layers.Initializer{
				"Weight": scribbleInit{w0.Data, scribble}, "Bias": scribbleInit{b0.Data, scribble}}})
			if err != nil {
				msg = "NewFC: " + err.Error()
				return
			}
			opt := optimizers.NewSGD(&optimizers.SGDConfig{LearningRate: 0.1})
			loss := losses.NewMSE()
			var olds []tensor.Tensor
			var oldBits [][]uint64
			for s := 0; s < steps; s++ {
				x, tt := rt.MustLeaf(x0, false), rt.MustLeaf(t0, false)
				ins := []tensor.Tensor{x}
				y, err := fc.Forward(ins...)
				if scribble {
					ins[0] = nil
				}
				if err != nil {
					msg = "Forward: " + err.Error()
					return
				}
				yf, err := y.Flatten(0)
				if err != nil {
					msg = "Flatten: " + err.Error()
					return
				}
				l, err := loss.Compute(yf, tt)
				if err != nil {
					msg = "Compute: " + err.Error()
					return
				}
				if err = tensor.BackPropagate(l); err != nil {
					msg = "BackPropagate: " + err.Error()
					return
				}
				ws := fc.Weights()
				ptrs := []*tensor.Tensor{ws[0].Value, ws[1].Value}
				if scribble {
					for i := range ws {
						ws[i] = layers.Weight{}
					}
				}
				for _, p := range ptrs {
					old := *p
					_, ob, _ := bitsOf(old)
					_, gb, _ := bitsOf(old.Gradient())
					if err = opt.Update(p); err != nil {
						msg = "Update: " + err.Error()
						return
					}
					olds = append(olds, old, old.Gradient())
					oldBits = append(oldBits, ob, gb)
					(*p).ResetGradContext(true)
				}
				_, wb, _ := bitsOf(fc.Weight)
				_, bb, _ := bitsOf(fc.Bias)
				_, lb, _ := bitsOf(l)
				out = append(out, wb, bb, lb)
			}
			// nothing that existed before an optimizer step may have changed
			for i, o := range olds {
				if _, nb, err := bitsOf(o); err != nil || !sameBits(nb, oldBits[i]) {
					msg = fmt.Sprintf("a previous weight tensor or its gradient (object %d) was modified by a later step", i)
					return
				}
			}
		}); p != nil {
			msg = fmt.Sprintf("panic: %v", p)
		}
		return
	}
	a, m1 := run(true)
	if m1 != "" {
		k.Failf("component scenario with scribbling: %s", m1)
		return
	}
	b, m2 := run(false)
	if m2 != "" {
		k.Failf("component scenario twin: %s", m2)
		return
	}
	for i := range a {
		if !sameBits(a[i], b[i]) {
			k.Failf("component scenario: observation %d (weight / bias / loss per step) differs between the scribbled run and its twin", i)
			return
		}
	}
}
