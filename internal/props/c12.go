package props

import (
	"fmt"
	"math"

	"github.com/sahandsafizadeh/qeep/component/losses"
	"github.com/sahandsafizadeh/qeep/tensor"

	"qeepverif/internal/fw"
	"qeepverif/internal/ref"
	"qeepverif/internal/rt"
)

// C12 — loss functions return the defined scalar for every prediction / target pair.

func init() {
	fw.Register(&fw.Prop{
		ID: "C12",
		Rule: "differential monitor of MSE / BCE / CE values: batch 1..8 x classes 1..6, every element of prediction and target drawn from a hostile value class (exactly 0, exactly 1, interior, soft targets, < 0, > 1, within 1e-12 x {0.5,1,2} of 0 / 1 / eps / 1-eps, magnitudes up to 1e6, negative zero), every tracked/untracked combination of the two inputs; one loss object is reused for all calls of a case. The result must be a scalar-shaped tensor, finite, >= 0, equal to the statement's formula evaluated in float64 with the same clipping constants, and bit-identical across the four tracking combinations. " +
			"Non-trivial: the batch contains a clipped prediction or a soft target, or more than one element; distinct = (loss, batch, classes, multiset of value classes present). Later additions: one loss object evaluated on a sequence of 2-5 batches of different shapes (transposed shapes of equal element count, batch or class sizes 127..4097); every third loss object is the zero value of its exported struct." +
			" Round 4: the tracking state, gradient object and element bits of both arguments are compared before and after every Compute.",
		Assumptions: []string{
			"tolerance = 1e-9 relative + the conditioning bound of the formula (1.2e-16 x sum_i (t_i/p_i + (1-t_i)/(1-p_i))/N): log(1-p) at p = 1-1e-12 amplifies the rounding of 1-p by 1e12, and a reformulation of the same mathematical value must not alarm",
		},
		FloorQuick: 8000, FloorThor: 100000,
		Run: runC12,
	})
}

var lossClassNames = []string{"zero", "one", "interior", "below0", "above1", "near0", "near1", "neareps", "near1-eps", "huge", "negzero"}

func lossValue(k *fw.K, class int) float64 {
	r := k.Rng
	d := []float64{0.5e-12, 1e-12, 2e-12}[r.Intn(3)]
	if r.Intn(2) == 0 {
		d = -d
	}
	switch class {
	case 0:
		return 0
	case 1:
		return 1
	case 2:
		return 0.02 + 0.96*r.Float64()
	case 3:
		return -0.01 - 3*r.Float64()
	case 4:
		return 1.01 + 3*r.Float64()
	case 5:
		return 0 + d
	case 6:
		return 1 + d
	case 7:
		return ref.Eps + d
	case 8:
		return 1 - ref.Eps + d
	case 9:
		return (r.Float64()*2 - 1) * 1e6
	}
	return math.Copysign(0, -1)
}

type lossCase struct {
	Loss   string `json:"loss"`
	Pred   *ref.T `json:"prediction"`
	Target *ref.T `json:"target"`
}

var lossObjCalls int

// lossObj returns a loss object: from the constructor, or (every third call) the zero value of the exported struct.
func lossObj(kind string) interface {
	Compute(tensor.Tensor, tensor.Tensor) (tensor.Tensor, error)
} {
	lossObjCalls++
	if lossObjCalls%3 == 0 {
		switch kind {
		case "mse":
			return &losses.MSE{}
		case "bce":
			return new(losses.BCE)
		}
		var ce losses.CE
		return &ce
	}
	switch kind {
	case "mse":
		return losses.NewMSE()
	case "bce":
		return losses.NewBCE()
	}
	return losses.NewCE()
}

// lossTol: conditioning-aware absolute tolerance of the loss value.
func lossTol(kind string, p, t *ref.T) float64 {
	n := float64(p.Shape[0])
	s := 0.
	for i := range p.Data {
		pv, tv := p.Data[i], t.Data[i]
		switch kind {
		case "mse":
			s += 4e-16 * (pv - tv) * (pv - tv)
		default:
			pc, tc := ref.Clip(pv, ref.Eps, 1-ref.Eps), ref.Clip(tv, 0, 1)
			s += 1.2e-16 * tc / pc
			if kind == "bce" {
				s += 1.2e-16 * (1 - tc) / (1 - pc)
			}
		}
	}
	return s/n + 1e-13
}

// ceStructuredRows overwrites target rows of a CE case with rows that LOOK like labels under some aggregate test but are not
// (all values exactly representable): one-hot rows; a one-hot row plus a cancelling pair +a / -a (maximum 1, sum 1, one entry
// negative); {-1, 1, 1, 0...}; soft labels summing to exactly 1; a row summing to 1 with an entry above 1; an all-zero row.
func ceStructuredRows(k *fw.K, t *ref.T, present map[string]bool) {
	r := k.Rng
	b, cl := t.Shape[0], t.Shape[1]
	for row := 0; row < b; row++ {
		v := t.Data[row*cl : (row+1)*cl]
		if r.Intn(4) == 0 {
			continue // keep the unstructured row
		}
		for i := range v {
			v[i] = 0
		}
		hot := r.Intn(cl)
		pattern := r.Intn(6)
		if cl < 3 && (pattern == 1 || pattern == 2) {
			pattern = 0
		}
		perm := r.Perm(cl)
		switch pattern {
		case 0:
			v[hot] = 1
		case 1: // maximum exactly 1, sum exactly 1, one negative entry
			a := []float64{0.5, 0.25, 1, 0.125}[r.Intn(4)]
			v[perm[0]], v[perm[1]], v[perm[2]] = 1, a, -a
		case 2:
			v[perm[0]], v[perm[1]], v[perm[2]] = -1, 1, 1
		case 3: // soft labels
			if cl >= 2 {
				v[perm[0]], v[perm[1]] = 0.75, 0.25
			} else {
				v[0] = 1
			}
		case 4: // sums to 1 with an entry above 1
			if cl >= 2 {
				v[perm[0]], v[perm[1]] = 1.5, -0.5
			} else {
				v[0] = 1.5
			}
		}
		present[fmt.Sprintf("t:row-pattern-%d", pattern)] = true
	}
	k.Count("ce_cases_with_structured_target_rows", 1)
}

func runC12(c *fw.Ctx) {
	deeperBounds(!c.Quick())
	// one loss object used for a sequence of batches of DIFFERENT shapes (equal element counts included), long batches included
	for _, kind := range []string{"mse", "bce", "ce"} {
		for i := 0; i < c.Pick(400, 20000); i++ {
			kind := kind
			c.Case(func(k *fw.K) {
				obj := lossObj(kind)
				var seq []lossCase
				defer func() { k.Case = map[string]any{"one_loss_object_sequence": seq} }()
				n := 2 + k.Rng.Intn(4)
				var prev []int
				key := ""
				for s := 0; s < n; s++ {
					var shape []int
					switch {
					case kind == "ce" && prev != nil && k.Rng.Intn(2) == 0:
						shape = []int{prev[1], prev[0]} // same element count, transposed shape
					case kind == "ce":
						shape = []int{1 + k.Rng.Intn(6), 1 + k.Rng.Intn(6)}
						if k.Rng.Intn(6) == 0 {
							shape[k.Rng.Intn(2)] = LongSizes[k.Rng.Intn(10)]
						}
					case k.Rng.Intn(5) == 0:
						shape = []int{LongSizes[k.Rng.Intn(len(LongSizes))]}
					default:
						shape = []int{1 + k.Rng.Intn(9)}
					}
					prev = shape
					key += shapeKey(shape)
					p, t := ref.Zeros(shape), ref.Zeros(shape)
					for i := range p.Data {
						p.Data[i], t.Data[i] = lossValue(k, []int{2, 2, 2, 0, 1, 3, 4}[k.Rng.Intn(7)]), lossValue(k, []int{0, 1, 2, 2}[k.Rng.Intn(4)])
					}
					if len(p.Data) <= 64 {
						seq = append(seq, lossCase{Loss: kind, Pred: p, Target: t})
					} else {
						seq = append(seq, lossCase{Loss: fmt.Sprintf("%s on shape %v (values omitted)", kind, shape)})
					}
					want, err := ref.Loss(kind, p, t)
					if err != nil {
						k.Failf("harness: %v", err)
						return
					}
					if k.Rng.Intn(3) == 0 { // a diverged batch of the same shape first (NaN / +-Inf predictions): its outcome is ignored
						bad := p.Clone()
						for i := range bad.Data {
							bad.Data[i] = []float64{math.NaN(), math.Inf(1), math.Inf(-1), 0.5}[k.Rng.Intn(4)]
						}
						bad.Data[0] = math.NaN()
						k.Count("non_finite_batches_fed_before_a_finite_one", 1)
						call(func() { _, _ = obj.Compute(rt.MustLeaf(bad, k.Rng.Intn(2) == 0), rt.MustLeaf(t, false)) })
					}
					if k.Rng.Intn(3) == 0 { // a second loss object of the same kind evaluates another batch in between
						dp, dt := ref.Full(shape, 0.3), ref.Full(shape, 1)
						call(func() { _, _ = lossObj(kind).Compute(rt.MustLeaf(dp, false), rt.MustLeaf(dt, false)) })
						k.Count("calls_on_a_second_object_of_the_same_kind_in_between", 1)
					}
					tp, tt := rt.MustLeaf(p, k.Rng.Intn(2) == 0), rt.MustLeaf(t, false)
					evaluate := func(tp, tt tensor.Tensor, p, t *ref.T, want float64, tag string) bool {
						var l tensor.Tensor
						if pn := call(func() { l, err = obj.Compute(tp, tt) }); pn != nil || err != nil || l == nil {
							k.Failf("%s.Compute call %d%s on one object (shape %v, previous shapes %s): panic=%v err=%v", kind, s+1, tag, shape, key, pn, err)
							return false
						}
						v, err := l.At()
						if err != nil || len(l.Shape()) != 0 {
							k.Failf("%s.Compute result of shape %v unreadable: %v", kind, l.Shape(), err)
							return false
						}
						if !ref.Close(v, want, lossTol(kind, p, t), 1e-9) {
							k.Failf("%s.Compute call %d%s on one object (shape %v) = %v, the defined value is %v", kind, s+1, tag, shape, v, want)
							return false
						}
						k.Count("loss_evaluations", 1)
						return true
					}
					if !evaluate(tp, tt, p, t, want.Data[0], "") {
						return
					}
					if k.Rng.Intn(5) == 0 { // ONE tensor object as prediction and as target (a loss of a tensor against itself is defined like any other pair)
						if ws, e := ref.Loss(kind, p, p); e == nil && !evaluate(tp, tp, p, p, ws.Data[0], " (the same tensor object as prediction and as target)") {
							return
						}
						k.Count("evaluations_of_a_tensor_against_itself", 1)
					}
					if k.Rng.Intn(4) == 0 { // the loss is back-propagated, then read out AGAIN from the same prediction object (now spent, holding a gradient if it was tracked)
						var bl tensor.Tensor
						if pn := call(func() {
							if bl, err = obj.Compute(tp, tt); err == nil {
								err = tensor.BackPropagate(bl)
							}
						}); pn != nil || err != nil {
							k.Failf("%s.Compute + BackPropagate on one object (shape %v): panic=%v err=%v", kind, shape, pn, err)
							return
						}
						k.Count("evaluations_of_a_prediction_that_was_back_propagated_before", 1)
						if !evaluate(tp, tt, p, t, want.Data[0], " (the prediction object took part in a back-propagation before)") {
							return
						}
					}
					if k.Rng.Intn(3) == 0 { // the next call shares exactly one tensor OBJECT with this one (the targets, or the predictions)
						q := Shuffled(k.Rng, p)
						if k.Rng.Intn(2) == 0 {
							if w2, e := ref.Loss(kind, q, t); e == nil && !evaluate(rt.MustLeaf(q, false), tt, q, t, w2.Data[0], " (same target object, other predictions)") {
								return
							}
						} else {
							u := Shuffled(k.Rng, t)
							if w2, e := ref.Loss(kind, p, u); e == nil && !evaluate(tp, rt.MustLeaf(u, false), p, u, w2.Data[0], " (same prediction object, other targets)") {
								return
							}
						}
					}
				}
				k.Key("%s/sequence/%s", kind, key)
				k.Count("object_reuse_sequences", 1)
			})
		}
	}
	for _, kind := range []string{"mse", "bce", "ce"} {
		for b := 1; b <= 8; b++ {
			for cl := 1; cl <= 6; cl++ {
				if kind != "ce" && cl > 1 {
					continue
				}
				reps := c.Pick(150, 3000)
				if kind != "ce" {
					reps *= 4
				}
				for rep := 0; rep < reps; rep++ {
					kind, b, cl := kind, b, cl
					c.Case(func(k *fw.K) {
						shape := []int{b}
						if kind == "ce" {
							shape = []int{b, cl}
						}
						p, t := ref.Zeros(shape), ref.Zeros(shape)
						present := map[string]bool{}
						// a case concentrates on 1-3 value classes so that every class also appears alone
						nc := 1 + k.Rng.Intn(3)
						pcs, tcs := make([]int, nc), make([]int, nc)
						for i := range pcs {
							pcs[i], tcs[i] = k.Rng.Intn(11), k.Rng.Intn(11)
						}
						for i := range p.Data {
							pc, tc := pcs[k.Rng.Intn(nc)], tcs[k.Rng.Intn(nc)]
							p.Data[i], t.Data[i] = lossValue(k, pc), lossValue(k, tc)
							present["p:"+lossClassNames[pc]] = true
							present["t:"+lossClassNames[tc]] = true
						}
						if kind == "ce" && k.Rng.Intn(3) == 0 {
							ceStructuredRows(k, t, present)
						}
						if kind == "bce" && len(t.Data) >= 4 && k.Rng.Intn(4) == 0 {
							// a 0, a 1 and soft labels pairing up to whole numbers (minimum 0, maximum 1, integer sum - yet not hard labels)
							t.Data[0], t.Data[1] = 0, 1
							for i := 2; i+1 < len(t.Data); i += 2 {
								a := []float64{0.5, 0.25, 0.125, 0.75}[k.Rng.Intn(4)]
								t.Data[i], t.Data[i+1] = a, 1-a
							}
							present["t:paired-soft"] = true
						}
						k.Case = lossCase{Loss: kind, Pred: p, Target: t}
						k.Key("%s/%d/%d/%v", kind, b, cl, present)
						k.Count("cases_"+kind, 1)
						k.Sample()
						want, err := ref.Loss(kind, p, t)
						if err != nil {
							k.Failf("harness: %v", err)
							return
						}
						tol := lossTol(kind, p, t)
						obj := lossObj(kind)
						var first uint64
						for combo := 0; combo < 4; combo++ {
							rp, rtt := rt.MustLeaf(p, combo&1 != 0), rt.MustLeaf(t, combo&2 != 0)
							var l tensor.Tensor
							var err error
							guard := argGuard(rp, rtt)
							if pn := call(func() { l, err = obj.Compute(rp, rtt) }); pn != nil || err != nil || l == nil {
								k.Failf("%s.Compute (tracked pred=%v target=%v): panic=%v err=%v", kind, combo&1 != 0, combo&2 != 0, pn, err)
								return
							}
							if msg := guard(); msg != "" {
								k.Failf("%s.Compute (tracked pred=%v target=%v) changed an argument tensor: %s", kind, combo&1 != 0, combo&2 != 0, msg)
								return
							}
							if sh := l.Shape(); len(sh) != 0 {
								k.Failf("%s.Compute returned shape %v, expected a scalar []", kind, sh)
								return
							}
							v, err := l.At()
							if err != nil {
								k.Failf("%s.Compute result unreadable: %v", kind, err)
								return
							}
							if math.IsNaN(v) || math.IsInf(v, 0) {
								k.Failf("%s.Compute = %v for finite inputs", kind, v)
								return
							}
							if v < 0 {
								k.Failf("%s.Compute = %v is negative", kind, v)
								return
							}
							if !ref.Close(v, want.Data[0], tol, 1e-9) {
								k.Failf("%s.Compute = %v, the defined value is %v (tolerance %g)", kind, v, want.Data[0], tol+1e-9*math.Abs(v))
								return
							}
							if combo == 0 {
								first = math.Float64bits(v)
							} else if math.Float64bits(v) != first {
								k.Failf("%s.Compute depends on tracking: %v with tracked pred=%v target=%v, %v with both untracked", kind, v, combo&1 != 0, combo&2 != 0, math.Float64frombits(first))
								return
							}
						}
						k.Count("loss_evaluations", 4)
					})
				}
			}
		}
	}
	_ = fmt.Sprint
	// ---- shapes that collide under ad-hoc cache keys, evaluated one after the other in ONE process (and on one loss object in half
	// the cases): batch / class counts whose digits run together ([11,2] and [1,12]), equal element counts, transposed pairs ----
	groups := [][][]int{{{11, 2}, {1, 12}}, {{1, 12}, {11, 2}}, {{12, 3}, {1, 23}}, {{2, 11}, {21, 1}}, {{1, 11}, {11, 1}}, {{3, 4}, {4, 3}, {2, 6}, {6, 2}, {12, 1}, {1, 12}},
		{{10, 1}, {1, 1}, {1, 10}, {1, 101}, {10, 11}, {101, 1}}, {{2, 5}, {25, 1}, {5, 2}, {1, 25}}}
	for gi, group := range groups {
		for _, kind := range []string{"ce", "bce", "mse"} {
			for rep := 0; rep < 2; rep++ {
				gi, group, kind, rep := gi, group, kind, rep
				c.Case(func(k *fw.K) {
					k.Key("colliding-batch-shapes/%s/%d/%d", kind, gi, rep)
					k.Count("colliding_batch_shape_groups", 1)
					obj := lossObj(kind)
					for _, sh := range group {
						shape := sh
						if kind != "ce" {
							shape = []int{sh[0] * sh[1]}
						}
						p, t := RandT(k.Rng, shape, 0.05, 0.95), RandT(k.Rng, shape, 0, 1)
						want, err := ref.Loss(kind, p, t)
						if err != nil {
							k.Failf("harness: %v", err)
							return
						}
						if rep == 1 {
							obj = lossObj(kind)
						}
						k.Case = lossCase{Loss: kind, Pred: p, Target: t}
						var l tensor.Tensor
						if pn := call(func() { l, err = obj.Compute(rt.MustLeaf(p, k.Rng.Intn(2) == 0), rt.MustLeaf(t, false)) }); pn != nil || err != nil || l == nil {
							k.Failf("%s.Compute on shape %v, after the shapes %v in the same process: panic=%v err=%v", kind, shape, group, pn, err)
							return
						}
						lv, err := l.At()
						if err != nil || !ref.Close(lv, want.Data[0], lossTol(kind, p, t), 1e-12) {
							k.Failf("%s.Compute on shape %v, after other shapes of the group %v = %v, the defined value is %v (%v)", kind, shape, group, lv, want.Data[0], err)
							return
						}
						k.Count("loss_evaluations", 1)
					}
				})
			}
		}
	}
}
