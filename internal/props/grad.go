package props

import (
	"fmt"
	"math"

	"github.com/sahandsafizadeh/qeep/tensor"

	"qeepverif/internal/fw"
	"qeepverif/internal/ref"
	"qeepverif/internal/rt"
)

// gcase is one single-application gradient case (C02, C07, C15, ...).
type gcase struct {
	In      ref.Instr `json:"instr"`
	Ops     []*ref.T  `json:"operands"`
	Tracked []bool    `json:"tracked"`
	G       *ref.T    `json:"upstream_weighting"`
}

func maxAbs(t *ref.T) float64 {
	m := 0.
	for _, v := range t.Data {
		if a := math.Abs(v); a > m && !math.IsInf(a, 0) {
			m = a
		}
	}
	return m
}

// gradTol: absolute tolerance scaled to the magnitude of the whole gradient
// tensor (so cancellation inside one element cannot alarm), relative 1e-9.
func gradClose(got, want *ref.T) error {
	return rt.CompareRef(got, want, 1e-10*(1+maxAbs(want)), 1e-9, nil, 0)
}

// weightedBackprop computes BackPropagate(y * G) with G an untracked leaf of y's shape.
func weightedBackprop(y tensor.Tensor, g *ref.T) error {
	rg := rt.MustLeaf(g, false)
	w, err := y.Mul(rg)
	if err != nil {
		return fmt.Errorf("weighting the result (y.Mul(G), same shapes): %w", err)
	}
	return tensor.BackPropagate(w)
}

// knownBroadcastMean is the key of recorded finding D9.
const knownBroadcastMean = "broadcast-backward-mean"

// gradCheck runs one application of `in` on fresh leaves, back-propagates the
// random upstream weighting g and compares each operand's gradient with the
// reference VJP (RuleSum = the specification). If knownKey != "" a tracked
// operand whose gradient has the right shape, whose expansion factor is > 1
// and whose value equals the RuleAvg model (mean over the copies) is recorded
// under that known-finding key instead of as a violation.
func gradCheck(k *fw.K, in ref.Instr, xs []*ref.T, tracked []bool, g *ref.T, knownKey string) (ok bool) {
	name := fmt.Sprintf("%s%v", in.Op, shapesOf(xs))
	y, err := ref.Apply(in, xs)
	if err != nil {
		k.Failf("harness: reference rejects generated case %s: %v", name, err)
		return false
	}
	want := ref.VJP(in, xs, y, g, ref.RuleSum)
	leaves := make([]tensor.Tensor, len(xs))
	origins := make([]tensor.Tensor, len(xs)) // for a tracked operand that is itself a RESULT: the flat tracked leaf it was reshaped from
	var ry tensor.Tensor
	var perr error
	stage := "forward"
	if p := call(func() {
		for i, x := range xs {
			if tracked[i] && len(x.Data) > 0 && k.Rng.Intn(4) == 0 {
				// the tracked operand is not a leaf but the result of a shape operation on a tracked leaf; it must receive
				// the vector-Jacobian product all the same (and its origin the same values, laid out flat)
				origins[i] = rt.MustLeaf(ref.New([]int{len(x.Data)}, x.Data), true)
				switch {
				case len(x.Shape) == 1:
					var u tensor.Tensor
					if u, perr = origins[i].UnSqueeze(0); perr == nil {
						leaves[i], perr = u.Squeeze(0)
					}
				default:
					leaves[i], perr = origins[i].Reshape(ref.CopyInts(x.Shape))
				}
				if perr != nil {
					return
				}
				k.Count("tracked_operands_that_are_results_of_a_shape_operation", 1)
				continue
			}
			leaves[i] = rt.MustLeaf(x, tracked[i])
		}
		ry, perr = rt.Exec(in, leaves)
		if perr != nil || ry == nil {
			return
		}
		// between the operation and the weighting sits, one time in three, a pure data-movement consumer of the result
		// (UnSqueeze at either end, Reshape to flat, Transpose): the weighting goes through the same movement, so the
		// gradient arriving at the result is still G
		top, gtop := ry, g
		if rank := len(y.Shape); k.Rng.Intn(3) == 0 {
			cons := []ref.Instr{{Op: "unsqueeze", Dim: rank}, {Op: "unsqueeze", Dim: 0}, {Op: "reshape", Shape: []int{len(y.Data)}}}
			if rank >= 2 {
				cons = append(cons, ref.Instr{Op: "transpose"})
			}
			c := cons[k.Rng.Intn(len(cons))]
			if gt, e := ref.Apply(c, []*ref.T{g}); e == nil {
				if top, perr = rt.Exec(c, []tensor.Tensor{ry}); perr != nil {
					return
				}
				gtop = gt
				k.Count("results_consumed_by_a_"+c.Op+"_before_the_weighting", 1)
			}
		}
		// one time in four the result (and every non-leaf stage above it) has further consumers that are built before the
		// back-propagation and never back-propagated themselves (a logged statistic, a second head that is dropped)
		if k.Rng.Intn(4) == 0 {
			_ = ry.Scale(2)
			_ = top.Scale(-1)
			if ry.NElems() > 0 {
				_, _ = ry.Add(ry)
			}
			for i, l := range leaves {
				if tracked[i] && l != nil {
					_ = l.Scale(3)
				}
			}
			k.Count("cases_with_abandoned_consumers_of_the_result_and_the_operands", 1)
		}
		stage = "back-propagation"
		perr = weightedBackprop(top, gtop)
	}); p != nil {
		k.Failf("%s: panic during %s: %v", name, stage, p)
		return false
	}
	if perr != nil {
		k.Failf("%s: %s failed although the arguments are valid: %v", name, stage, perr)
		return false
	}
	if ry == nil {
		k.Failf("%s: nil result without error", name)
		return false
	}
	ok = true
	for i, x := range xs {
		gr := leaves[i].Gradient()
		if !tracked[i] {
			if gr != nil {
				k.Failf("%s: untracked operand %d received a gradient", name, i)
				ok = false
			}
			continue
		}
		if gr == nil {
			k.Failf("%s: tracked operand %d has no gradient after back-propagation", name, i)
			ok = false
			continue
		}
		got, err := rt.Read(gr)
		if err != nil {
			k.Failf("%s: cannot read gradient of operand %d: %v", name, i, err)
			ok = false
			continue
		}
		if !ref.SameShape(got.Shape, x.Shape) {
			k.Failf("%s: gradient of operand %d has shape %v, the operand has %v", name, i, got.Shape, x.Shape)
			ok = false
			continue
		}
		for _, v := range got.Data {
			if math.IsNaN(v) || math.IsInf(v, 0) {
				k.Failf("%s: gradient of operand %d is not finite: %v", name, i, got.Data)
				ok = false
				break
			}
		}
		if !ok {
			continue
		}
		e := gradClose(got, want[i])
		if e == nil && origins[i] != nil {
			og := origins[i].Gradient()
			if og == nil {
				k.Failf("%s: the tracked leaf that operand %d was reshaped from received no gradient", name, i)
				ok = false
				continue
			}
			if ov, err := rt.Read(og); err != nil || gradClose(ov, ref.New([]int{len(x.Data)}, got.Data)) != nil {
				k.Failf("%s: the tracked leaf that operand %d was reshaped from received %v, the operand itself %v (%v)", name, i, ov, got.Data, err)
				ok = false
			}
			continue
		}
		if e == nil {
			continue
		}
		if knownKey != "" {
			// exact signature of the recorded finding: mean over the copies instead of their sum
			avg := ref.VJP(in, xs, y, g, ref.RuleAvg)
			if gradClose(got, avg[i]) == nil && gradClose(avg[i], want[i]) != nil {
				k.Knownf(knownKey, "%s: gradient of operand %d equals the MEAN over its expanded copies instead of their sum (%v)", name, i, e)
				continue
			}
		}
		k.Failf("%s: gradient of operand %d (tracked=%v) differs from the vector-Jacobian product: %v", name, i, tracked, e)
		ok = false
	}
	return ok
}

func shapesOf(xs []*ref.T) [][]int {
	o := make([][]int, len(xs))
	for i, x := range xs {
		o[i] = x.Shape
	}
	return o
}

// crossOracle: central differences of the REAL forward function, an oracle
// independent of the analytic VJPs. Returns a failure text or "".
func crossOracle(in ref.Instr, xs []*ref.T, g *ref.T, which int) string {
	const h = 1e-6
	y, _ := ref.Apply(in, xs)
	want := ref.VJP(in, xs, y, g, ref.RuleSum)[which]
	evalReal := func() (*ref.T, error) {
		ls := make([]tensor.Tensor, len(xs))
		for i, x := range xs {
			ls[i] = rt.MustLeaf(x, false)
		}
		r, err := rt.Exec(in, ls)
		if err != nil {
			return nil, err
		}
		return rt.Read(r)
	}
	x := xs[which]
	for i := range x.Data {
		orig := x.Data[i]
		x.Data[i] = orig + h
		yp, e1 := evalReal()
		x.Data[i] = orig - h
		ym, e2 := evalReal()
		x.Data[i] = orig
		if e1 != nil || e2 != nil {
			return fmt.Sprintf("forward failed at a perturbed point: %v %v", e1, e2)
		}
		fd := 0.
		for q := range yp.Data {
			fd += g.Data[q] * (yp.Data[q] - ym.Data[q]) / (2 * h)
		}
		if !ref.Close(want.Data[i], fd, 1e-4*(1+maxAbs(want)), 1e-4) {
			return fmt.Sprintf("operand %d element %v: analytic VJP %v, central difference of the real forward function %v", which, ref.Unravel(i, x.Shape), want.Data[i], fd)
		}
	}
	return ""
}

// subsets enumerates the non-empty subsets of n operands as bool masks.
func subsets(n int) [][]bool {
	var out [][]bool
	for m := 1; m < 1<<n; m++ {
		s := make([]bool, n)
		for i := range s {
			s[i] = m&(1<<i) != 0
		}
		out = append(out, s)
	}
	return out
}

func maskKey(m []bool) string {
	s := ""
	for _, b := range m {
		if b {
			s += "T"
		} else {
			s += "u"
		}
	}
	return s
}

// randG: random non-uniform upstream weighting (never all-equal for >= 2 elements).
func randG(k *fw.K, shape []int) *ref.T {
	if n := ref.Prod(shape); n >= 2 && k.Rng.Intn(5) == 0 {
		// small integers that cancel exactly over the whole tensor (non-uniform, total exactly 0)
		g := ref.Zeros(shape)
		s := 0.
		for i := 0; i < n-1; i++ {
			g.Data[i] = float64(1 + k.Rng.Intn(3))
			if k.Rng.Intn(2) == 0 {
				g.Data[i] = -g.Data[i]
			}
			s += g.Data[i]
		}
		g.Data[n-1] = -s
		if g.Data[n-1] == 0 {
			g.Data[0] += 1
			g.Data[n-1] -= 1
		}
		return g
	}
	g := RandT(k.Rng, shape, 0.5, 2)
	for i := range g.Data {
		if k.Rng.Intn(2) == 0 {
			g.Data[i] = -g.Data[i]
		}
	}
	return g
}

// CollidingShapes: same-rank shape pairs (triples) that are different but coincide under keys an
// implementation might be tempted to cache by: equal element count, equal sum of sizes, equal
// concatenation of the decimal digits, equal 31-polynomial hash  (rank*31+d0)*31+d1 ...
var CollidingShapes = [][][]int{
	{{1, 11}, {11, 1}}, {{12, 3}, {1, 23}}, {{2, 13}, {21, 3}}, {{1, 32}, {2, 1}}, {{2, 33}, {3, 2}}, {{1, 63}, {3, 1}},
	{{2, 6}, {3, 4}, {4, 3}}, {{12, 1}, {1, 12}, {6, 2}}, {{2, 3}, {3, 2}}, {{1, 4}, {4, 1}, {2, 2}},
	{{1, 1, 32}, {1, 2, 1}}, {{2, 1, 3}, {1, 3, 2}, {3, 2, 1}}, {{11}, {1, 1}}, {{32}, {1}}, {{1, 2, 13}, {1, 21, 3}},
	{{3, 1, 4}, {4, 1, 3}}, {{2, 2, 3}, {3, 2, 2}, {2, 3, 2}}, {{1, 3, 4}, {4, 3, 1}}, {{2, 3, 4}, {4, 3, 2}}, {{1, 11, 2}, {11, 1, 2}}, {{1, 2, 12}, {12, 1, 2}}, {{1, 111}, {111, 1}, {11, 11}}, {{5, 7}, {7, 5}, {35, 1}}, {{10, 1}, {1, 10}, {2, 5}},
	// shapes of DIFFERENT rank that share a prefix or a suffix (a key built from the first or last few sizes, or one that ignores the rank)
	{{2, 1, 2, 2, 3}, {2, 1, 2, 2, 5}, {2, 1, 2, 2}}, {{1, 2, 1, 2, 2, 2}, {1, 2, 1, 2, 2, 3}, {1, 2, 1, 2, 2}}, {{2, 3}, {2, 3, 1}, {2, 3, 2}, {1, 2, 3}},
	{{3}, {3, 1}, {1, 3}, {1}}, {{2, 2}, {64}, {2, 1, 2}}, {{4, 4}, {128}, {4}},
	// shapes that coincide under polynomial hashes of their sizes (31a + b, 37a + b, 33a + b, 131a + b) although nothing else relates them
	{{3, 5}, {2, 36}, {1, 67}}, {{2, 3}, {1, 40}}, {{2, 2}, {1, 33}}, {{2, 4}, {1, 35}, {1, 37}}, {{2, 1}, {1, 132}}, {{2, 1, 3}, {1, 32, 3}}, {{3, 2, 2}, {2, 33, 2}},
}
