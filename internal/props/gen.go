package props

import (
	"fmt"
	"math"
	"math/rand"
	"strings"

	"github.com/sahandsafizadeh/qeep/component/layers"
	"github.com/sahandsafizadeh/qeep/component/layers/activations"
	"github.com/sahandsafizadeh/qeep/component/losses"
	"github.com/sahandsafizadeh/qeep/component/metrics"
	"github.com/sahandsafizadeh/qeep/component/optimizers"
	"github.com/sahandsafizadeh/qeep/tensor"

	"qeepverif/internal/ref"
	"qeepverif/internal/rt"
)

// Shapes enumerates every shape of rank minRank..maxRank with all sizes in 1..maxDim.
func Shapes(minRank, maxRank, maxDim int) [][]int {
	var out [][]int
	var rec func(cur []int, rank int)
	rec = func(cur []int, rank int) {
		if len(cur) == rank {
			out = append(out, ref.CopyInts(cur))
			return
		}
		for d := 1; d <= maxDim; d++ {
			rec(append(cur, d), rank)
		}
	}
	for r := minRank; r <= maxRank; r++ {
		rec(nil, r)
	}
	return out
}

func RandShape(r *rand.Rand, minRank, maxRank, maxDim int) []int {
	rank := minRank + r.Intn(maxRank-minRank+1)
	s := make([]int, rank)
	for i := range s {
		s[i] = 1 + r.Intn(maxDim)
	}
	return s
}

// Unique fills a tensor with values that identify their row-major position:
// sign-alternating, strictly increasing magnitude, plus a random fraction, so
// a permuted element mapping can never cancel. Magnitudes stay in [lo, hi).
func Unique(r *rand.Rand, shape []int, lo, hi float64) *ref.T {
	t := ref.Zeros(shape)
	n := len(t.Data)
	step := (hi - lo) / float64(n)
	for i := range t.Data {
		v := lo + step*(float64(i)+0.1+0.8*r.Float64())
		if r.Intn(2) == 0 {
			v = -v
		}
		t.Data[i] = v
	}
	return t
}

// UniquePos: like Unique but all values positive.
func UniquePos(r *rand.Rand, shape []int, lo, hi float64) *ref.T {
	t := Unique(r, shape, lo, hi)
	for i := range t.Data {
		t.Data[i] = math.Abs(t.Data[i])
	}
	return t
}

// UniqueInts: distinct small integers (exact arithmetic), sign-alternating.
func UniqueInts(r *rand.Rand, shape []int) *ref.T {
	t := ref.Zeros(shape)
	perm := r.Perm(len(t.Data))
	for i := range t.Data {
		v := float64(perm[i] + 1)
		if r.Intn(2) == 0 {
			v = -v
		}
		t.Data[i] = v
	}
	return t
}

// Shuffled returns a random permutation of the tensor's values (keeps the multiset, breaks monotonicity).
func Shuffled(r *rand.Rand, t *ref.T) *ref.T {
	o := t.Clone()
	r.Shuffle(len(o.Data), func(i, j int) { o.Data[i], o.Data[j] = o.Data[j], o.Data[i] })
	return o
}

func RandT(r *rand.Rand, shape []int, lo, hi float64) *ref.T {
	t := ref.Zeros(shape)
	for i := range t.Data {
		t.Data[i] = lo + (hi-lo)*r.Float64()
	}
	return t
}

// BroadcastSources enumerates every shape that broadcasts to dst by dropping
// leading dimensions and/or replacing dimensions by 1.
func BroadcastSources(dst []int) [][]int {
	var out [][]int
	seen := map[string]bool{}
	for drop := 0; drop <= len(dst); drop++ {
		tail := dst[drop:]
		for mask := 0; mask < 1<<len(tail); mask++ {
			s := ref.CopyInts(tail)
			for i := range s {
				if mask&(1<<i) != 0 {
					s[i] = 1
				}
			}
			k := fmt.Sprint(s)
			if !seen[k] {
				seen[k] = true
				out = append(out, s)
			}
		}
	}
	return out
}

// BigShape: a random shape with sizes up to 7 (rank minRank..4, at most maxElems elements): the
// enumerated families stop at size 3, these sampled ones reach the larger extents.
func BigShape(r *rand.Rand, minRank, maxElems int) []int {
	for {
		s := RandShape(r, minRank, 4, 7)
		if ref.Prod(s) <= maxElems {
			big := len(s) == 0
			for _, d := range s {
				big = big || d > 3
			}
			if big {
				return s
			}
		}
	}
}

// LongSizes: extents around the thresholds at which an implementation might switch to a
// different code path (blocked / pairwise / parallel loops): 128, 256, 512, 1024, 2048, 4096.
var LongSizes = []int{127, 128, 129, 130, 131, 255, 256, 257, 258, 511, 512, 513, 1000, 1001, 1023, 1024, 1025, 2047, 2048, 2049, 4095, 4096, 4097}

// deeperBounds widens the sampled families for the thorough tier: sizes around 2^13..2^16, ranks up to 8.
var maxSampledRank = 6

func deeperBounds(thorough bool) {
	if !thorough || maxSampledRank > 6 {
		return
	}
	maxSampledRank = 8
	LongSizes = append(LongSizes, 8191, 8192, 8193, 16383, 16385, 32767, 32769, 65535, 65537)
}

// LongShape: rank 1..maxRank with exactly one long dimension (from LongSizes, at most maxLong) and the others in 1..3.
func LongShape(r *rand.Rand, maxRank, maxLong int) (shape []int, longDim int) {
	for {
		n := LongSizes[r.Intn(len(LongSizes))]
		if n > maxLong {
			continue
		}
		rank := 1 + r.Intn(maxRank)
		shape = make([]int, rank)
		for i := range shape {
			shape[i] = 1 + r.Intn(3)
		}
		longDim = r.Intn(rank)
		shape[longDim] = n
		return shape, longDim
	}
}

func shapeKey(s []int) string { return strings.ReplaceAll(fmt.Sprint(s), " ", ",") }

func rankOf(s []int) int { return len(s) }

// call runs f under recover and reports a panic as an error string.
func call(f func()) (panicked any) {
	defer func() {
		if r := recover(); r != nil {
			panicked = r
		}
	}()
	f()
	return nil
}

// exec runs one instruction on the real library under recover.
func exec(in ref.Instr, xs []tensor.Tensor) (t tensor.Tensor, err error, panicked any) {
	panicked = call(func() { t, err = rt.Exec(in, xs) })
	return
}

// forwardCase executes `in` on real leaves built from operands xs, compares the result with
// the reference (exactly when exact is true, else within rel 1e-12) and returns a failure text or "".
func forwardCase(in ref.Instr, xs []*ref.T, exact bool) string {
	want, werr := ref.Apply(in, xs)
	if werr != nil {
		return "harness: reference rejects a case it generated: " + werr.Error()
	}
	rs := make([]tensor.Tensor, len(xs))
	for i, x := range xs {
		// operands are tracked or untracked at (pseudo-)random: forward values must not depend on it
		tracked := len(x.Data) > 0 && (math.Float64bits(x.Data[0])>>(3+uint(i)))&1 == 1
		l, err := rt.Leaf(x, tracked)
		if err != nil {
			return fmt.Sprintf("cannot build operand %d of shape %v: %v", i, x.Shape, err)
		}
		rs[i] = l
	}
	got, err, p := exec(in, rs)
	if p != nil {
		return fmt.Sprintf("panic: %v", p)
	}
	if err != nil {
		return "unexpected error: " + err.Error()
	}
	if got == nil {
		return "nil result without error"
	}
	if got.NElems() != ref.Prod(want.Shape) {
		return fmt.Sprintf("NElems() = %d, expected %d for shape %v", got.NElems(), ref.Prod(want.Shape), want.Shape)
	}
	rel := 1e-12
	if exact {
		rel = 0
	}
	if e := rt.Compare(got, want, 0, rel, nil, 0); e != nil {
		return e.Error()
	}
	if dataMovement[in.Op] { // these operations copy elements: the sign of a zero travels with it
		if g, err := rt.Read(got); err == nil {
			for i, v := range g.Data {
				if v == 0 && want.Data[i] == 0 && math.Signbit(v) != math.Signbit(want.Data[i]) {
					return fmt.Sprintf("element %v: got %v, expected %v (the sign of a zero was lost)", ref.Unravel(i, want.Shape), v, want.Data[i])
				}
			}
		}
	}
	return ""
}

var dataMovement = map[string]bool{"slice": true, "patch": true, "concat": true, "transpose": true, "reshape": true,
	"unsqueeze": true, "squeeze": true, "flatten": true, "broadcast": true}

type fcase struct {
	In  ref.Instr `json:"instr"`
	Ops []*ref.T  `json:"operands"`
	Tag string    `json:"tag,omitempty"`
}

// argGuard snapshots the tracking state, gradient object and element values of tensors handed to a component
// (Forward / Compute / Accumulate). The returned function reports the first difference: a component call
// computes a result, it never changes its arguments (values are immutable; only ResetGradContext and
// BackPropagate change a context).
func argGuard(ts ...tensor.Tensor) func() string {
	type snap struct {
		st   tensor.VerifState
		ok   bool
		g    tensor.Tensor
		vals *ref.T
	}
	ss := make([]snap, len(ts))
	for i, t := range ts {
		ss[i].st, ss[i].ok = tensor.VerifGradState(t)
		ss[i].g = t.Gradient()
		ss[i].vals, _ = rt.Read(t)
	}
	return func() string {
		for i, t := range ts {
			st, ok := tensor.VerifGradState(t)
			if ok != ss[i].ok || st != ss[i].st {
				return fmt.Sprintf("argument %d: tracking state changed from %+v to %+v", i, ss[i].st, st)
			}
			if t.Gradient() != ss[i].g {
				return fmt.Sprintf("argument %d: its gradient object changed", i)
			}
			v, err := rt.Read(t)
			if err != nil || ss[i].vals == nil || !ref.SameShape(v.Shape, ss[i].vals.Shape) {
				return fmt.Sprintf("argument %d: unreadable or reshaped after the call (%v)", i, err)
			}
			for e := range v.Data {
				if math.Float64bits(v.Data[e]) != math.Float64bits(ss[i].vals.Data[e]) {
					return fmt.Sprintf("argument %d: element %d changed from %v to %v", i, e, ss[i].vals.Data[e], v.Data[e])
				}
			}
		}
		return ""
	}
}

// coinLeaf builds an operand that is tracked or not by a coin derived from its values (a case replays identically):
// forward values must not depend on tracking.
func coinLeaf(x *ref.T) tensor.Tensor {
	return rt.MustLeaf(x, len(x.Data) > 0 && (math.Float64bits(x.Data[0])>>3)&1 == 1)
}

// refusedCalls makes a few calls that the library must REFUSE (each returns an error), on fresh objects of its own: an optimizer
// step on a tensor without gradient and on a nil tensor, an Accuracy call with mismatched lengths, a Concat of unfit shapes, a
// Softmax with a negative dimension, an FC forward with a wrong input width. A refused call must not leave anything behind that
// changes what later, unrelated calls do; the checks call this before the behaviour they decide.
func refusedCalls(k interface{ Count(string, int64) }) {
	call(func() {
		opt := optimizers.NewSGD(nil)
		w := rt.MustLeaf(ref.Full([]int{2}, 1), true)
		_ = opt.Update(&w)
		var none tensor.Tensor
		_ = opt.Update(&none)
		_ = opt.Update(nil)
		acc := metrics.NewAccuracy()
		_ = acc.Accumulate(rt.MustLeaf(ref.Full([]int{2}, 1), false), rt.MustLeaf(ref.Full([]int{3}, 1), false))
		_, _ = tensor.Concat([]tensor.Tensor{rt.MustLeaf(ref.Full([]int{2, 3}, 1), false), rt.MustLeaf(ref.Full([]int{4, 5}, 1), false)}, 0)
		_, _ = activations.NewSoftmax(&activations.SoftmaxConfig{Dim: -1})
		if fc, err := layers.NewFC(&layers.FCConfig{Inputs: 2, Outputs: 2}); err == nil {
			_, _ = fc.Forward(rt.MustLeaf(ref.Full([]int{1, 5}, 1), false))
		}
		_, _ = losses.NewBCE().Compute(rt.MustLeaf(ref.Full([]int{2}, 0.5), false), rt.MustLeaf(ref.Full([]int{3}, 1), false))
		_, _ = tensor.Full([]int{-1}, 1, nil)
	})
	k.Count("batches_of_refused_calls_made_before_the_decided_behaviour", 1)
}
