package props

import (
	"fmt"
	"math"
	"sort"

	xrand "golang.org/x/exp/rand"

	"github.com/sahandsafizadeh/qeep/component/initializers"
	"github.com/sahandsafizadeh/qeep/tensor"

	"qeepverif/internal/fw"
	"qeepverif/internal/ref"
	"qeepverif/internal/rt"
)

// C18 — initializers and random constructors honour shape, support and scale.

func init() {
	fw.Register(&fw.Prop{
		ID: "C18",
		Rule: "statistical conformance monitor: for every parameter set of Full / Uniform / Normal / HeUniform / HeNormal / XavierUniform / XavierNormal / RandU / RandN (nil configs, asymmetric bounds, sigma != 1, odd and even fan sums, fans 1..101) the generator is called thousands of times over shapes of rank 0..4 with odd and even element counts, ALTERNATING with a 'disturber' generator of wildly different parameters, until N >= 40000 (quick) / 400000 (thorough) samples are collected; gonum's global source is seeded from (VERIF_SEED, case) so a run is reproducible. " +
			"Hard checks on every call: exact shape, tracked (hook; a back-propagation probe on a sample), Full constant, support [lower, upper) / +-sqrt(6/fan). Statistical checks with thresholds fixed in advance (each at >= 6.5 standard errors or Kolmogorov 3.5/sqrt(N), i.e. < 1e-10 per statistic): mean, variance, Kolmogorov distance to the configured CDF - on all samples AND separately on the samples at flat position 0 and at the last position of each tensor; lag-1 autocorrelation of the call-ordered stream; correlation between positions 0 and 1; freshness: consecutive tensors of one generator share (almost) no value at equal positions. " +
			"Non-trivial: every parameter set; distinct = (generator, parameter set).",
		Assumptions: []string{
			"decides conformance of the observed sample at this power; 'moments converge' as N -> infinity is not decidable by a finite run",
			"gonum's standard-normal ziggurat has about 32 bits of resolution, so exact repeats between normal draws are legitimate: freshness for normal generators demands < 1% equal positions, for uniform ones none",
		},
		FloorQuick: 40, FloorThor: 40,
		Run: runC18,
	})
}

type distSpec struct {
	gen     string
	params  string
	normal  bool
	a, b    float64 // uniform: [a,b)   normal: mean a, sigma b
	init    func(shape []int) (tensor.Tensor, error)
	tracked bool
}

func mustInit[T any](v T, err error) T {
	if err != nil {
		panic(fmt.Sprintf("c18: constructor rejected valid parameters: %v", err))
	}
	return v
}

func c18Specs() []distSpec {
	var out []distSpec
	T := rt.Conf(true)
	for _, p := range [][2]float64{{0, 1}, {-3, -1}, {2, 7}, {-0.5, 10}, {1e-3, 2e-3}} {
		p := p
		out = append(out, distSpec{"RandU", fmt.Sprintf("[%g,%g)", p[0], p[1]), false, p[0], p[1], func(s []int) (tensor.Tensor, error) { return tensor.RandU(s, p[0], p[1], T) }, true})
	}
	out = append(out, distSpec{"RandU(untracked conf)", "[0,1)", false, 0, 1, func(s []int) (tensor.Tensor, error) { return tensor.RandU(s, 0, 1, nil) }, false})
	for _, p := range [][2]float64{{0, 1}, {5, 0.1}, {-2, 3}, {100, 25}} {
		p := p
		out = append(out, distSpec{"RandN", fmt.Sprintf("mean %g sigma %g", p[0], p[1]), true, p[0], p[1], func(s []int) (tensor.Tensor, error) { return tensor.RandN(s, p[0], p[1], T) }, true})
	}
	u0 := mustInit(initializers.NewUniform(nil))
	out = append(out, distSpec{"Uniform", "nil config", false, -0.05, 0.05, u0.Init, true})
	for _, p := range [][2]float64{{-1, 4}, {0.25, 0.75}, {-7, -6.5}} {
		u := mustInit(initializers.NewUniform(&initializers.UniformConfig{Lower: p[0], Upper: p[1]}))
		out = append(out, distSpec{"Uniform", fmt.Sprintf("[%g,%g)", p[0], p[1]), false, p[0], p[1], u.Init, true})
	}
	n0 := mustInit(initializers.NewNormal(nil))
	out = append(out, distSpec{"Normal", "nil config", true, 0, 0.05, n0.Init, true})
	for _, p := range [][2]float64{{1, 2}, {-3, 0.5}, {0, 10}} {
		n := mustInit(initializers.NewNormal(&initializers.NormalConfig{Mean: p[0], StdDev: p[1]}))
		out = append(out, distSpec{"Normal", fmt.Sprintf("mean %g sigma %g", p[0], p[1]), true, p[0], p[1], n.Init, true})
	}
	for _, f := range []int{1, 2, 3, 7, 50} {
		r := math.Sqrt(6 / float64(f))
		hu := mustInit(initializers.NewHeUniform(&initializers.HeUniformConfig{FanIn: f}))
		out = append(out, distSpec{"HeUniform", fmt.Sprintf("fanIn %d", f), false, -r, r, hu.Init, true})
		hn := mustInit(initializers.NewHeNormal(&initializers.HeNormalConfig{FanIn: f}))
		out = append(out, distSpec{"HeNormal", fmt.Sprintf("fanIn %d", f), true, 0, math.Sqrt(2 / float64(f)), hn.Init, true})
	}
	for _, f := range [][2]int{{1, 1}, {2, 1}, {2, 3}, {5, 8}, {16, 4}, {101, 100}} {
		r := math.Sqrt(6 / float64(f[0]+f[1]))
		xu := mustInit(initializers.NewXavierUniform(&initializers.XavierUniformConfig{FanIn: f[0], FanOut: f[1]}))
		out = append(out, distSpec{"XavierUniform", fmt.Sprintf("fanIn %d fanOut %d", f[0], f[1]), false, -r, r, xu.Init, true})
		xn := mustInit(initializers.NewXavierNormal(&initializers.XavierNormalConfig{FanIn: f[0], FanOut: f[1]}))
		out = append(out, distSpec{"XavierNormal", fmt.Sprintf("fanIn %d fanOut %d", f[0], f[1]), true, 0, math.Sqrt(2 / float64(f[0]+f[1])), xn.Init, true})
	}
	return out
}

var c18Shapes = [][]int{{}, {3}, {1}, {5}, {2, 3}, {7}, {3, 3}, {2, 2, 2}, {1, 5}, {4, 5}, {3, 1, 3}, {2, 1, 2, 3}, {9}, {2}}

func (d distSpec) cdf(x float64) float64 {
	if d.normal {
		return 0.5 * (1 + math.Erf((x-d.a)/(d.b*math.Sqrt2)))
	}
	return math.Min(1, math.Max(0, (x-d.a)/(d.b-d.a)))
}

func (d distSpec) moments() (mu, sigma, kurt float64) {
	if d.normal {
		return d.a, d.b, 3
	}
	return (d.a + d.b) / 2, (d.b - d.a) / math.Sqrt(12), 1.8
}

// conform runs the moment and Kolmogorov checks on one sample.
func (d distSpec) conform(xs []float64, what string) string {
	n := float64(len(xs))
	mu, sigma, kurt := d.moments()
	m := 0.
	for _, x := range xs {
		m += x
	}
	m /= n
	v := 0.
	for _, x := range xs {
		v += (x - m) * (x - m)
	}
	v /= n - 1
	if math.Abs(m-mu) > 6.5*sigma/math.Sqrt(n) {
		return fmt.Sprintf("%s: sample mean %v of %d draws, configured mean %v (threshold 6.5 sigma/sqrt(N) = %v)", what, m, len(xs), mu, 6.5*sigma/math.Sqrt(n))
	}
	if math.Abs(v-sigma*sigma) > 6.5*sigma*sigma*math.Sqrt((kurt-1)/n) {
		return fmt.Sprintf("%s: sample standard deviation %v of %d draws, configured %v (variance threshold %v relative)", what, math.Sqrt(v), len(xs), sigma, 6.5*math.Sqrt((kurt-1)/n))
	}
	s := append([]float64(nil), xs...)
	sort.Float64s(s)
	ks := 0.
	for i, x := range s {
		f := d.cdf(x)
		ks = math.Max(ks, math.Max(math.Abs(f-float64(i)/n), math.Abs(float64(i+1)/n-f)))
	}
	if ks > 3.5/math.Sqrt(n) {
		return fmt.Sprintf("%s: Kolmogorov distance %v between %d draws and the configured distribution (threshold 3.5/sqrt(N) = %v)", what, ks, len(xs), 3.5/math.Sqrt(n))
	}
	return ""
}

func corr(a, b []float64) float64 {
	n := float64(len(a))
	ma, mb := 0., 0.
	for i := range a {
		ma += a[i]
		mb += b[i]
	}
	ma /= n
	mb /= n
	sab, saa, sbb := 0., 0., 0.
	for i := range a {
		sab += (a[i] - ma) * (b[i] - mb)
		saa += (a[i] - ma) * (a[i] - ma)
		sbb += (b[i] - mb) * (b[i] - mb)
	}
	return sab / math.Sqrt(saa*sbb)
}

func runC18(c *fw.Ctx) {
	target := c.Pick(40000, 400000)
	for _, d := range c18Specs() {
		d := d
		c.Case(func(k *fw.K) { c18Dist(k, d, target) })
	}
	c.Case(func(k *fw.K) { c18Full(k) })
}

func c18Full(k *fw.K) {
	k.Case = map[string]any{"generator": "Full", "values": []any{"nil config (0)", -3.5, 1e10}}
	k.Key("Full")
	for _, f := range []struct {
		in   *initializers.Full
		want float64
	}{{initializers.NewFull(nil), 0}, {initializers.NewFull(&initializers.FullConfig{Value: -3.5}), -3.5}, {initializers.NewFull(&initializers.FullConfig{Value: 1e10}), 1e10}} {
		for _, s := range c18Shapes {
			t, err := f.in.Init(ref.CopyInts(s))
			if err != nil {
				k.Failf("Full(%v).Init(%v): %v", f.want, s, err)
				return
			}
			if e := rt.Compare(t, ref.Full(s, f.want), 0, 0, nil, 0); e != nil {
				k.Failf("Full(%v).Init(%v): %v", f.want, s, e)
				return
			}
			if st, ok := tensor.VerifGradState(t); ok && !st.Tracked {
				k.Failf("Full(%v).Init(%v) returned an untracked tensor", f.want, s)
				return
			}
			k.Count("init_calls", 1)
		}
	}
}

func c18Dist(k *fw.K, d distSpec, target int) {
	xrand.Seed(uint64(k.Rng.Int63()))
	k.Case = map[string]any{"generator": d.gen, "parameters": d.params, "target_samples": target}
	k.Key("%s/%s", d.gen, d.params)
	k.Sample()
	name := d.gen + "(" + d.params + ")"
	var all, pos0, posLast, p0pair, p1pair []float64
	var prev *ref.T
	equalPos, comparedPos := 0, 0
	calls := 0
	disturbers := []func(s []int) (tensor.Tensor, error){
		func(s []int) (tensor.Tensor, error) { return tensor.RandN(s, 1000, 500, nil) },
		func(s []int) (tensor.Tensor, error) { return tensor.RandU(s, -1e4, 1e4, nil) },
	}
	for len(all) < target {
		shape := c18Shapes[(calls*5+calls/len(c18Shapes))%len(c18Shapes)]
		// a disturber call of odd or even size in between
		if _, err := disturbers[calls%2](c18Shapes[(calls*3)%len(c18Shapes)]); err != nil {
			k.Failf("disturber call failed: %v", err)
			return
		}
		var t tensor.Tensor
		var err error
		if p := call(func() { t, err = d.init(ref.CopyInts(shape)) }); p != nil || err != nil || t == nil {
			k.Failf("%s.Init(%v): panic=%v err=%v", name, shape, p, err)
			return
		}
		calls++
		x, err := rt.Read(t)
		if err != nil || !ref.SameShape(x.Shape, shape) {
			k.Failf("%s.Init(%v) returned shape %v (%v)", name, shape, x, err)
			return
		}
		if st, ok := tensor.VerifGradState(t); ok && st.Tracked != d.tracked {
			k.Failf("%s.Init(%v): tracked = %v, expected %v", name, shape, st.Tracked, d.tracked)
			return
		}
		if calls%997 == 1 && d.tracked { // public-API probe of trackedness
			if err := tensor.BackPropagate(t.Scale(2)); err != nil || t.Gradient() == nil {
				k.Failf("%s.Init(%v): result is not tracked (a back-propagation did not reach it; err=%v)", name, shape, err)
				return
			}
		}
		for i, v := range x.Data {
			if math.IsNaN(v) || math.IsInf(v, 0) {
				k.Failf("%s.Init(%v): element %d is %v", name, shape, i, v)
				return
			}
			if !d.normal && !(v >= d.a && v < d.b) {
				k.Failf("%s.Init(%v): element %d = %v outside the support [%v, %v)", name, shape, i, v, d.a, d.b)
				return
			}
		}
		all = append(all, x.Data...)
		pos0 = append(pos0, x.Data[0])
		posLast = append(posLast, x.Data[len(x.Data)-1])
		if len(x.Data) >= 2 {
			p0pair, p1pair = append(p0pair, x.Data[0]), append(p1pair, x.Data[1])
		}
		if prev != nil {
			n := len(prev.Data)
			if len(x.Data) < n {
				n = len(x.Data)
			}
			for i := 0; i < n; i++ {
				comparedPos++
				if prev.Data[i] == x.Data[i] {
					equalPos++
				}
			}
		}
		prev = x
	}
	k.Count("init_calls", int64(calls))
	k.Count("samples", int64(len(all)))
	for _, chk := range []struct {
		xs   []float64
		what string
	}{{all, "all elements"}, {pos0, "elements at flat position 0 of each tensor"}, {posLast, "elements at the last position of each tensor"}} {
		if msg := d.conform(chk.xs, chk.what); msg != "" {
			k.Failf("%s: %s", name, msg)
			return
		}
		k.Count("statistical_checks", 3)
	}
	if r := corr(all[:len(all)-1], all[1:]); math.Abs(r) > 6.5/math.Sqrt(float64(len(all))) {
		k.Failf("%s: lag-1 autocorrelation of the draw stream is %v over %d draws (threshold %v)", name, r, len(all), 6.5/math.Sqrt(float64(len(all))))
		return
	}
	if r := corr(p0pair, p1pair); math.Abs(r) > 6.5/math.Sqrt(float64(len(p0pair))) {
		k.Failf("%s: positions 0 and 1 of the returned tensors are correlated: r = %v over %d tensors (threshold %v)", name, r, len(p0pair), 6.5/math.Sqrt(float64(len(p0pair))))
		return
	}
	k.Count("statistical_checks", 2)
	limit := 0
	if d.normal {
		limit = comparedPos / 100
	}
	if equalPos > limit {
		k.Failf("%s: draws are not fresh: consecutive tensors agree at %d of %d compared positions", name, equalPos, comparedPos)
	}
}
