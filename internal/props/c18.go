package props

import (
	"fmt"
	"math"
	"sort"
	"sync"

	xrand "golang.org/x/exp/rand"

	"github.com/sahandsafizadeh/qeep/component/initializers"
	"github.com/sahandsafizadeh/qeep/tensor"

	"qeepverif/internal/fw"
	"qeepverif/internal/ref"
	"qeepverif/internal/rt"
)

// C18 — initializers and random constructors honour shape, support and scale.

func init() {
	fw.Register(&fw.Prop{
		ID: "C18",
		Rule: "statistical conformance monitor: for every parameter set of Full / Uniform / Normal / HeUniform / HeNormal / XavierUniform / XavierNormal / RandU / RandN (nil configs, asymmetric bounds, sigma != 1, odd and even fan sums, fans 1..101) the generator is called thousands of times over shapes of rank 0..4 with odd and even element counts, ALTERNATING with a 'disturber' generator of wildly different parameters, until N >= 40000 (quick) / 2000000 (thorough) samples are collected; gonum's global source is seeded from (VERIF_SEED, case) so a run is reproducible. " +
			"Hard checks on every call: exact shape, tracked (hook; a back-propagation probe on a sample), Full constant, support [lower, upper) / +-sqrt(6/fan). Statistical checks with thresholds fixed in advance (each at >= 6.5 standard errors or Kolmogorov 3.5/sqrt(N), i.e. < 1e-10 per statistic): mean, variance, Kolmogorov distance to the configured CDF - on all samples AND separately on the samples at flat position 0 and at the last position of each tensor; lag-1 autocorrelation of the call-ordered stream; correlation between positions 0 and 1; freshness: consecutive tensors of one generator share (almost) no value at equal positions. " +
			"Non-trivial: every parameter set; distinct = (generator, parameter set). Later additions: every config struct overwritten right after construction; distinct values inside every drawn tensor, rank-4/5 shapes; large tensors (up to 131 072 elements, several layouts): distinct values, no block repeated at n/2, n/4, n/8, n/16 or one row; consecutive Init results of one Full object are independent tensors." +
			" Round 4: parameter sets with a bound or mean of exactly 0 and values equal to the defaults.",
		Assumptions: []string{
			"decides conformance of the observed sample at this power; 'moments converge' as N -> infinity is not decidable by a finite run",
			"gonum's standard-normal ziggurat has about 32 bits of resolution, so exact repeats between normal draws are legitimate: freshness for normal generators demands < 1% equal positions, for uniform ones none",
		},
		FloorQuick: 40, FloorThor: 40,
		Run:    runC18,
		Finish: finishC18,
	})
}

type distSpec struct {
	gen     string
	params  string
	normal  bool
	a, b    float64 // uniform: [a,b)   normal: mean a, sigma b
	init    func(shape []int) (tensor.Tensor, error)
	tracked bool
	fan     int // fan-based initializers: the fan total (fanIn, or fanIn + fanOut)
}

func mustInit[T any](v T, err error) T {
	if err != nil {
		panic(fmt.Sprintf("c18: constructor rejected valid parameters: %v", err))
	}
	return v
}

func c18Specs() []distSpec {
	var out []distSpec
	T := rt.Conf(true)
	for _, p := range [][2]float64{{0, 1}, {-3, -1}, {2, 7}, {-0.5, 10}, {1e-3, 2e-3}, {-1, 0}} {
		p := p
		out = append(out, distSpec{"RandU", fmt.Sprintf("[%g,%g)", p[0], p[1]), false, p[0], p[1], func(s []int) (tensor.Tensor, error) { return tensor.RandU(s, p[0], p[1], T) }, true, 0})
	}
	out = append(out, distSpec{"RandU(untracked conf)", "[0,1)", false, 0, 1, func(s []int) (tensor.Tensor, error) { return tensor.RandU(s, 0, 1, nil) }, false, 0})
	out = append(out, distSpec{"RandU(untracked conf)", "[-1,1)", false, -1, 1, func(s []int) (tensor.Tensor, error) { return tensor.RandU(s, -1, 1, nil) }, false, 0})
	out = append(out, distSpec{"RandU(untracked conf)", "[0.5,1)", false, 0.5, 1, func(s []int) (tensor.Tensor, error) { return tensor.RandU(s, 0.5, 1, rt.Conf(false)) }, false, 0})
	out = append(out, distSpec{"RandN(untracked conf)", "mean 3 sigma 2", true, 3, 2, func(s []int) (tensor.Tensor, error) { return tensor.RandN(s, 3, 2, nil) }, false, 0})
	for _, p := range [][2]float64{{0, 1}, {5, 0.1}, {-2, 3}, {100, 25}, {0, 1e200}, {0, 1e-180}, {3, 1}, {-2, 1}, {1, 1}, {1, 2}} {
		p := p
		out = append(out, distSpec{"RandN", fmt.Sprintf("mean %g sigma %g", p[0], p[1]), true, p[0], p[1], func(s []int) (tensor.Tensor, error) { return tensor.RandN(s, p[0], p[1], T) }, true, 0})
	}
	// every config struct is overwritten with different (valid) values right after construction:
	// an initializer must keep what it was configured with, not a reference to the caller's struct
	u0 := mustInit(initializers.NewUniform(nil))
	out = append(out, distSpec{"Uniform", "nil config", false, -0.05, 0.05, u0.Init, true, 0})
	for _, p := range [][2]float64{{-1, 4}, {0.25, 0.75}, {-7, -6.5}, {0, 1}, {-2, 0}, {0, 1e-3}, {-0.05, 0.5}, {-1e300, 1e300}, {0, 1e-300}, {1000.00007, 1000.00017}, {-65536.5, -65536.25}, {1, 2}, {-1, 1}, {-0.5, 0.5}, {0, 2}} {
		uc := &initializers.UniformConfig{Lower: p[0], Upper: p[1]}
		u := mustInit(initializers.NewUniform(uc))
		uc.Lower, uc.Upper = 100, 200
		out = append(out, distSpec{"Uniform", fmt.Sprintf("[%g,%g)", p[0], p[1]), false, p[0], p[1], u.Init, true, 0})
	}
	n0 := mustInit(initializers.NewNormal(nil))
	out = append(out, distSpec{"Normal", "nil config", true, 0, 0.05, n0.Init, true, 0})
	for _, p := range [][2]float64{{1, 2}, {-3, 0.5}, {0, 10}, {0, 0.05}, {2, 0.05}, {0, 1}, {0, 1e-170}, {0, 1e160}, {0, 1e-200}, {1e150, 1e150}, {2048.5, 1e-5}, {-300, 1e-6}, {10, 1}, {-0.05, 1}, {1, 1}, {0.05, 0.05}} {
		nc := &initializers.NormalConfig{Mean: p[0], StdDev: p[1]}
		n := mustInit(initializers.NewNormal(nc))
		nc.Mean, nc.StdDev = -50, 7
		out = append(out, distSpec{"Normal", fmt.Sprintf("mean %g sigma %g", p[0], p[1]), true, p[0], p[1], n.Init, true, 0})
	}
	for _, f := range []int{1, 2, 3, 7, 50} {
		r := math.Sqrt(6 / float64(f))
		huc := &initializers.HeUniformConfig{FanIn: f}
		hu := mustInit(initializers.NewHeUniform(huc))
		huc.FanIn = 1000
		out = append(out, distSpec{"HeUniform", fmt.Sprintf("fanIn %d", f), false, -r, r, hu.Init, true, f})
		hnc := &initializers.HeNormalConfig{FanIn: f}
		hn := mustInit(initializers.NewHeNormal(hnc))
		hnc.FanIn = 1000
		out = append(out, distSpec{"HeNormal", fmt.Sprintf("fanIn %d", f), true, 0, math.Sqrt(2 / float64(f)), hn.Init, true, f})
	}
	for _, f := range [][2]int{{1, 1}, {2, 1}, {2, 3}, {5, 8}, {16, 4}, {101, 100}} {
		r := math.Sqrt(6 / float64(f[0]+f[1]))
		xuc := &initializers.XavierUniformConfig{FanIn: f[0], FanOut: f[1]}
		xu := mustInit(initializers.NewXavierUniform(xuc))
		xuc.FanIn, xuc.FanOut = 999, 999
		out = append(out, distSpec{"XavierUniform", fmt.Sprintf("fanIn %d fanOut %d", f[0], f[1]), false, -r, r, xu.Init, true, f[0] + f[1]})
		xnc := &initializers.XavierNormalConfig{FanIn: f[0], FanOut: f[1]}
		xn := mustInit(initializers.NewXavierNormal(xnc))
		xnc.FanIn, xnc.FanOut = 999, 999
		out = append(out, distSpec{"XavierNormal", fmt.Sprintf("fanIn %d fanOut %d", f[0], f[1]), true, 0, math.Sqrt(2 / float64(f[0]+f[1])), xn.Init, true, f[0] + f[1]})
	}
	return out
}

var c18Shapes = [][]int{{}, {3}, {1}, {5}, {2, 3}, {7}, {3, 3}, {2, 2, 2}, {1, 5}, {4, 5}, {3, 1, 3}, {2, 1, 2, 3}, {9}, {2}, {2, 3, 4, 5}, {1, 2, 3, 2, 2}, {3, 2, 5}, {2, 2, 3, 3}}

// poissonLimit: the smallest k such that a Poisson variable of mean lam exceeds k with probability below p.
func poissonLimit(lam, p float64) int {
	if !(lam > 0) {
		return 0
	}
	term, cdf := math.Exp(-lam), 0.
	for k := 0; k < 1000000; k++ {
		cdf += term
		if 1-cdf < p || term == 0 {
			// 1 - cdf loses its digits near 1: bound the tail by the next terms instead
			tail, t := 0., term
			for j := k + 1; j < k+60; j++ {
				t *= lam / float64(j)
				tail += t
			}
			if tail < p {
				return k
			}
		}
		term *= lam / float64(k+1)
	}
	return int(lam + 10*math.Sqrt(lam) + 10)
}

// resolution: how many distinct doubles a draw of this spec can take (uniform: the grid of the support, at most 2^53; the
// normal ziggurat: about 2^32 per sign and layer - normal specs are judged by their own, looser rule).
func (d distSpec) resolution() float64 {
	if d.normal {
		return math.Ldexp(1, 32)
	}
	m := math.Max(math.Abs(d.a), math.Abs(d.b))
	ulp := math.Nextafter(m, math.Inf(1)) - m
	r := (d.b - d.a) / ulp
	if !(r < math.Ldexp(1, 53)) {
		r = math.Ldexp(1, 53)
	}
	if r < 1 {
		r = 1
	}
	return r
}

func (d distSpec) cdf(x float64) float64 {
	if d.normal {
		return 0.5 * (1 + math.Erf((x-d.a)/(d.b*math.Sqrt2)))
	}
	return math.Min(1, math.Max(0, (x-d.a)/(d.b-d.a)))
}

func (d distSpec) moments() (mu, sigma, kurt float64) {
	if d.normal {
		return d.a, d.b, 3
	}
	return (d.a + d.b) / 2, (d.b - d.a) / math.Sqrt(12), 1.8
}

// z maps draws to the standard form of the configured distribution ((x-mean)/sigma, (x-lower)/(upper-lower)): every
// statistic is computed on these, so parameters of extreme magnitude (sigma 1e-170 or 1e160) neither under- nor overflow.
func (d distSpec) z(xs []float64) []float64 {
	o := make([]float64, len(xs))
	for i, x := range xs {
		if d.normal {
			o[i] = (x - d.a) / d.b
		} else {
			o[i] = (x - d.a) / (d.b - d.a)
		}
	}
	return o
}

// conform runs the moment and Kolmogorov checks on one sample.
func (d distSpec) conform(xs []float64, what string) string {
	if !(d.a == 0 && d.b == 1) {
		std := d
		std.a, std.b = 0, 1
		return std.conform(d.z(xs), what+", standardised by the configured parameters")
	}
	n := float64(len(xs))
	mu, sigma, kurt := d.moments()
	m := 0.
	for _, x := range xs {
		m += x
	}
	m /= n
	v := 0.
	for _, x := range xs {
		v += (x - m) * (x - m)
	}
	v /= n - 1
	if math.Abs(m-mu) > 6.5*sigma/math.Sqrt(n) {
		return fmt.Sprintf("%s: sample mean %v of %d draws, configured mean %v (threshold 6.5 sigma/sqrt(N) = %v)", what, m, len(xs), mu, 6.5*sigma/math.Sqrt(n))
	}
	if math.Abs(v-sigma*sigma) > 6.5*sigma*sigma*math.Sqrt((kurt-1)/n) {
		return fmt.Sprintf("%s: sample standard deviation %v of %d draws, configured %v (variance threshold %v relative)", what, math.Sqrt(v), len(xs), sigma, 6.5*math.Sqrt((kurt-1)/n))
	}
	s := append([]float64(nil), xs...)
	sort.Float64s(s)
	ks := 0.
	for i, x := range s {
		f := d.cdf(x)
		ks = math.Max(ks, math.Max(math.Abs(f-float64(i)/n), math.Abs(float64(i+1)/n-f)))
	}
	if ks > 3.5/math.Sqrt(n) {
		return fmt.Sprintf("%s: Kolmogorov distance %v between %d draws and the configured distribution (threshold 3.5/sqrt(N) = %v)", what, ks, len(xs), 3.5/math.Sqrt(n))
	}
	return ""
}

func corr(a, b []float64) float64 {
	n := float64(len(a))
	ma, mb := 0., 0.
	for i := range a {
		ma += a[i]
		mb += b[i]
	}
	ma /= n
	mb /= n
	sab, saa, sbb := 0., 0., 0.
	for i := range a {
		sab += (a[i] - ma) * (b[i] - mb)
		saa += (a[i] - ma) * (a[i] - ma)
		sbb += (b[i] - mb) * (b[i] - mb)
	}
	return sab / math.Sqrt(saa*sbb)
}

// c18FirstDraws runs once per child process, before the process has drawn anything: 64 uniform-family draws, then 64
// normal-family draws - the first words of whatever generators the library owns (the global source is seeded differently in every
// process first, so under independence the 16 processes contribute independent pairs). The pairs (k-th uniform, k-th normal)
// are binned into contingency tables (features of the uniform draw: its value and its dyadic fractional parts; features of the
// normal draw: sign and quartile of |z|), summed over the processes by the parent and tested for independence (finishC18).
var c18Once sync.Once

func c18FirstDraws(k *fw.K, shard int64) {
	c18Once.Do(func() {
		xrand.Seed(uint64(k.Rng.Int63()) ^ uint64(shard)*0x9e3779b97f4a7c15)
		tu, e1 := tensor.RandU([]int{64}, 0, 1, nil)
		tz, e2 := tensor.RandN([]int{64}, 0, 1, nil)
		if e1 != nil || e2 != nil {
			return
		}
		u, e1 := rt.Read(tu)
		z, e2 := rt.Read(tz)
		if e1 != nil || e2 != nil {
			return
		}
		for i := range u.Data {
			q := 0
			for _, b := range []float64{0.31863936396437514, 0.6744897501960817, 1.1503493803760079} {
				if math.Abs(z.Data[i]) > b {
					q++
				}
			}
			sg := 0
			if z.Data[i] < 0 {
				sg = 1
			}
			for _, m := range []int{0, 7, 14, 21, 28, 35} {
				x := math.Ldexp(u.Data[i], m)
				f := int((x - math.Floor(x)) * 8)
				k.Count(fmt.Sprintf("firstdraws/m%02d/u%d/absz%d", m, f, q), 1)
				k.Count(fmt.Sprintf("firstdraws/m%02d/u%d/sign%d", m, f, sg), 1)
			}
		}
		k.Count("processes_whose_first_draws_were_recorded", 1)
	})
}

// finishC18 (parent): chi-square test of independence on every contingency table of the first draws of the child processes.
func finishC18(c *fw.Ctx, m *fw.Report, cov map[string]any) {
	tables := map[string]map[[2]int]float64{}
	for name, n := range m.Counters {
		var mm, f, q int
		var kind string
		if _, err := fmt.Sscanf(name, "firstdraws/m%02d/u%d/absz%d", &mm, &f, &q); err == nil {
			kind = fmt.Sprintf("fractional part of u*2^%d (8 bins) x quartile of |z|", mm)
		} else if _, err := fmt.Sscanf(name, "firstdraws/m%02d/u%d/sign%d", &mm, &f, &q); err == nil {
			kind = fmt.Sprintf("fractional part of u*2^%d (8 bins) x sign of z", mm)
		} else {
			continue
		}
		if tables[kind] == nil {
			tables[kind] = map[[2]int]float64{}
		}
		tables[kind][[2]int{f, q}] += float64(n)
	}
	tested := 0
	for kind, t := range tables {
		rows, cols, total := map[int]float64{}, map[int]float64{}, 0.
		for rc, n := range t {
			rows[rc[0]] += n
			cols[rc[1]] += n
			total += n
		}
		if total < 512 {
			continue // too few processes contributed (a replay, a single shard): no verdict from this table
		}
		chi := 0.
		for r, rn := range rows {
			for cc, cn := range cols {
				e := rn * cn / total
				d := t[[2]int{r, cc}] - e
				chi += d * d / e
			}
		}
		df := float64((len(rows) - 1) * (len(cols) - 1))
		tested++
		// Wilson-Hilferty: chi-square with df degrees of freedom exceeds df*(1 - 2/(9df) + 6.5*sqrt(2/(9df)))^3 with probability < 1e-10
		limit := df * math.Pow(1-2/(9*df)+6.5*math.Sqrt(2/(9*df)), 3)
		if chi > limit {
			c.AddViolation(fw.Finding{Index: -1, Msg: fmt.Sprintf("the first draws of %d fresh processes: %s are not independent: chi-square %.1f with %.0f degrees of freedom over %.0f pairs (limit %.1f) - the uniform family and the normal family do not draw from independent streams", int(total)/64, kind, chi, df, total, limit)})
		}
	}
	cov["first_draw_independence_tables_tested"] = tested
}

func runC18(c *fw.Ctx) {
	target := c.Pick(40000, 2000000)
	for _, d := range c18Specs() {
		d := d
		c.Case(func(k *fw.K) { c18FirstDraws(k, int64(c.Shard)); c18Dist(k, d, target) })
	}
	c.Case(func(k *fw.K) { c18FirstDraws(k, int64(c.Shard)); c18Full(k) })
	c.Case(func(k *fw.K) { c18FirstDraws(k, int64(c.Shard)); c18Reconstruct(k) })
	c.Case(func(k *fw.K) { c18FirstDraws(k, int64(c.Shard)); c18CrossFamily(k, c.Pick(20000, 200000)) })
	// draws made inside the exported helper tensor.RunTestLogicOnDevices, in several invocations: as fresh as anywhere else
	c.Case(func(k *fw.K) { c18FirstDraws(k, int64(c.Shard)); c18InsideDeviceHelper(k) })
	// long histories of small draws: no tensor ever comes back (a generator re-seeded per call from a small seed space repeats
	// whole tensors tens of thousands of calls apart, where no consecutive-call or pooled-moment statistic looks)
	specs := c18Specs()
	for i := 0; i < 16; i++ {
		d := specs[(i*7+3)%len(specs)]
		c.Case(func(k *fw.K) { c18FirstDraws(k, int64(c.Shard)); c18LongHistory(k, d, c.Pick(120000, 500000)) })
	}
	// large tensors: freshness inside one tensor (no repeated blocks / rows), moments, support
	for _, d := range c18Specs() {
		if d.params == "nil config" || d.params == "[0,1)" || d.params == "mean 0 sigma 1" || d.params == "fanIn 3" || d.params == "fanIn 2 fanOut 3" || d.params == "[-1,1)" || d.params == "[0.5,1)" || d.params == "mean 3 sigma 2" {
			d := d
			c.Case(func(k *fw.K) { c18FirstDraws(k, int64(c.Shard)); c18Large(k, d, c.Quick()) })
		}
	}
}

// c18CrossFamily: draws of the uniform family and draws of the normal family made in the same process are independent of EACH
// OTHER: the k-th uniform draw says nothing about the (k+s)-th normal draw for small shifts s (two generators started from one
// seed would tie them together). Statistic: correlation of u_k with the sign and with the probability transform of z_(k+s).
func c18CrossFamily(k *fw.K, n int) {
	xrand.Seed(uint64(k.Rng.Int63()))
	k.Case = map[string]any{"scenario": "independence between uniform-family and normal-family draws of one process", "draws_per_family": n}
	k.Key("cross-family")
	var us, zs []float64
	xu := mustInit(initializers.NewXavierUniform(&initializers.XavierUniformConfig{FanIn: 3, FanOut: 3}))
	hn := mustInit(initializers.NewHeNormal(&initializers.HeNormalConfig{FanIn: 2}))
	for len(us) < n {
		m := 50 + k.Rng.Intn(200)
		var tu, tz tensor.Tensor
		var err error
		_ = xu
		tu, err = tensor.RandU([]int{m}, 0, 1, nil) // [0,1): the dyadic fractional parts below are exact functions of the draw
		if err == nil {
			if len(us)%2 == 0 {
				tz, err = hn.Init([]int{m})
			} else {
				tz, err = tensor.RandN([]int{m}, 0, 1, nil)
			}
		}
		if err != nil {
			k.Failf("random constructor failed: %v", err)
			return
		}
		u, e1 := rt.Read(tu)
		z, e2 := rt.Read(tz)
		if e1 != nil || e2 != nil {
			k.Failf("unreadable: %v %v", e1, e2)
			return
		}
		// rank-like transforms make the statistic independent of the configured scales
		lo, hi := u.Data[0], u.Data[0]
		for _, v := range u.Data {
			lo, hi = math.Min(lo, v), math.Max(hi, v)
		}
		_ = lo
		_ = hi
		us = append(us, u.Data...)
		zs = append(zs, z.Data...)
	}
	// scale-free transforms: the uniform draws are centred by their overall median, the normal draws reduced to their sign and |z| rank proxy
	med := append([]float64(nil), us...)
	sort.Float64s(med)
	mid := med[len(med)/2]
	cu := make([]float64, len(us))
	for i, v := range us {
		cu[i] = v - mid
	}
	sg, mag := make([]float64, len(zs)), make([]float64, len(zs))
	for i, v := range zs {
		sg[i] = 1
		if v < 0 {
			sg[i] = -1
		}
		mag[i] = math.Abs(v)
	}
	N := len(cu)
	thr := 6.5 / math.Sqrt(float64(N-8))
	// features of the uniform draw: the draw itself and its dyadic fractional parts frac(u * 2^m) (the finer bits of the draw)
	feats := map[string][]float64{"value": cu}
	for _, m := range []int{7, 14, 21, 28, 35, 42} {
		f := make([]float64, N)
		for i, v := range us {
			x := math.Ldexp(v, m)
			f[i] = x - math.Floor(x) - 0.5
		}
		feats[fmt.Sprintf("fractional part of u*2^%d", m)] = f
	}
	for shift := -4; shift <= 4; shift++ {
		a0, b0 := 4, 4+shift
		for fname, feat := range feats {
			a := feat[a0 : N-4]
			for name, other := range map[string][]float64{"sign": sg, "magnitude": mag} {
				b := other[b0 : b0+len(a)]
				if r := corr(a, b); math.Abs(r) > thr {
					k.Failf("uniform-family draw k (%s) and the %s of normal-family draw k%+d of the same process are correlated: r = %v over %d pairs (threshold %v)", fname, name, shift, r, len(a), thr)
					return
				}
				k.Count("statistical_checks", 1)
			}
		}
	}
	k.Count("samples", int64(2*N))
}

// c18Reconstruct: model code builds its initializers layer by layer - construct, Init, construct, Init ... within the same
// instant. Constructing an initializer must not rewind the stream of draws: consecutive results are fresh.
// c18InsideDeviceHelper: the k-th random request of one invocation of tensor.RunTestLogicOnDevices must not be the k-th request of
// the next invocation again.
func c18InsideDeviceHelper(k *fw.K) {
	k.Key("inside-device-helper")
	xrand.Seed(uint64(k.Rng.Int63()))
	hu := mustInit(initializers.NewHeUniform(&initializers.HeUniformConfig{FanIn: 3}))
	nn := mustInit(initializers.NewNormal(&initializers.NormalConfig{Mean: 1, StdDev: 2}))
	var runs [][][]float64
	for inv := 0; inv < 4; inv++ {
		var got [][]float64
		var ferr error
		tensor.RunTestLogicOnDevices(func(dev tensor.Device) {
			for _, f := range []func() (tensor.Tensor, error){
				func() (tensor.Tensor, error) { return hu.Init([]int{6}) },
				func() (tensor.Tensor, error) { return nn.Init([]int{2, 3}) },
				func() (tensor.Tensor, error) { return tensor.RandU([]int{5}, -1, 1, &tensor.Config{Device: dev}) },
				func() (tensor.Tensor, error) { return tensor.RandN([]int{5}, 0, 1, &tensor.Config{Device: dev}) },
			} {
				t, err := f()
				if err != nil || t == nil {
					ferr = fmt.Errorf("draw inside the helper: %v", err)
					return
				}
				x, err := rt.Read(t)
				if err != nil {
					ferr = err
					return
				}
				got = append(got, x.Data)
			}
		})
		if ferr != nil {
			k.Failf("%v", ferr)
			return
		}
		runs = append(runs, got)
	}
	k.Count("draws_inside_the_device_helper", int64(len(runs)*4))
	for a := 0; a < len(runs); a++ {
		for b := a + 1; b < len(runs); b++ {
			for q := range runs[a] {
				same := q < len(runs[b])
				for e := range runs[a][q] {
					same = same && runs[a][q][e] == runs[b][q][e]
				}
				if same {
					k.Failf("request %d of invocation %d of tensor.RunTestLogicOnDevices returned exactly the tensor %v that request %d of invocation %d had returned: draws are not fresh on every call", q, b, runs[b][q], q, a)
					return
				}
			}
		}
	}
}

// c18LongHistory: n calls of one generator for a 4-element tensor; every returned tensor is remembered by its exact bits and none
// may be returned twice (4 equal doubles by chance: below 2^-120 even with the 32-bit resolution of the normal ziggurat).
func c18LongHistory(k *fw.K, d distSpec, n int) {
	name := d.gen + " " + d.params
	xrand.Seed(uint64(k.Rng.Int63()))
	seen := make(map[[4]uint64]int, n)
	repeats := 0
	for i := 0; i < n; i++ {
		if i%97 == 5 { // a REFUSED call in between (sizes whose product is negative, zero or tiny): it draws nothing and disturbs nothing
			bad := [][]int{{-4}, {2, -2}, {-1, 4}, {0}, {-1}, {-2, -2}, {4, -1}}[(i/97)%7]
			if t, err := d.init(bad); err == nil && t != nil {
				k.Failf("%s.Init(%v) was accepted", name, bad)
				return
			}
			k.Count("refused_calls_inside_long_histories", 1)
		}
		t, err := d.init([]int{4})
		if err != nil || t == nil {
			k.Failf("%s.Init([4]) call %d: %v", name, i, err)
			return
		}
		x, err := rt.Read(t)
		if err != nil || len(x.Data) != 4 {
			k.Failf("%s.Init([4]) call %d returned %v (%v)", name, i, x, err)
			return
		}
		if x.Data[0] == x.Data[1] && x.Data[1] == x.Data[2] && x.Data[2] == x.Data[3] {
			continue // a degenerate spread (sigma below the resolution around the mean): nothing to tell draws apart by
		}
		key := [4]uint64{math.Float64bits(x.Data[0]), math.Float64bits(x.Data[1]), math.Float64bits(x.Data[2]), math.Float64bits(x.Data[3])}
		if j, ok := seen[key]; ok {
			repeats++
			if repeats == 1 {
				k.Failf("%s: call %d returned exactly the tensor %v that call %d had returned: draws are not fresh on every call", name, i, x.Data, j)
			}
			continue
		}
		seen[key] = i
	}
	k.Count("long_history_draws", int64(n))
	k.Count("long_history_distinct_tensors", int64(len(seen)))
	k.Key("long-history/%s", name)
}

func c18Reconstruct(k *fw.K) {
	xrand.Seed(uint64(k.Rng.Int63()))
	k.Case = map[string]any{"scenario": "construct an initializer, Init, construct the same kind again, Init: the two results must differ"}
	k.Key("reconstruct")
	shape := []int{4, 6}
	kinds := map[string]func() (func([]int) (tensor.Tensor, error), error){
		"Uniform": func() (func([]int) (tensor.Tensor, error), error) {
			i, err := initializers.NewUniform(&initializers.UniformConfig{Lower: -1, Upper: 1})
			return i.Init, err
		},
		"Normal": func() (func([]int) (tensor.Tensor, error), error) {
			i, err := initializers.NewNormal(&initializers.NormalConfig{Mean: 0, StdDev: 1})
			return i.Init, err
		},
		"HeNormal": func() (func([]int) (tensor.Tensor, error), error) {
			i, err := initializers.NewHeNormal(&initializers.HeNormalConfig{FanIn: 8})
			return i.Init, err
		},
		"HeUniform": func() (func([]int) (tensor.Tensor, error), error) {
			i, err := initializers.NewHeUniform(&initializers.HeUniformConfig{FanIn: 8})
			return i.Init, err
		},
		"XavierNormal": func() (func([]int) (tensor.Tensor, error), error) {
			i, err := initializers.NewXavierNormal(&initializers.XavierNormalConfig{FanIn: 3, FanOut: 5})
			return i.Init, err
		},
		"XavierUniform": func() (func([]int) (tensor.Tensor, error), error) {
			i, err := initializers.NewXavierUniform(&initializers.XavierUniformConfig{FanIn: 3, FanOut: 5})
			return i.Init, err
		},
	}
	for name, mk := range kinds {
		var prev []*ref.T
		for round := 0; round < 6; round++ {
			init, err := mk()
			if err != nil {
				k.Failf("New%s: %v", name, err)
				return
			}
			t, err := init(ref.CopyInts(shape))
			if err != nil {
				k.Failf("%s.Init: %v", name, err)
				return
			}
			x, err := rt.Read(t)
			if err != nil {
				k.Failf("%s.Init: %v", name, err)
				return
			}
			for pi, p := range prev {
				same := 0
				for i := range x.Data {
					if x.Data[i] == p.Data[i] {
						same++
					}
				}
				if same > 2 {
					k.Failf("%s: constructing a new initializer and calling Init replayed earlier draws: result %d equals result %d in %d of %d elements", name, round+1, pi+1, same, len(x.Data))
					return
				}
			}
			prev = append(prev, x)
			k.Count("init_calls", 1)
		}
	}
}

func c18Full(k *fw.K) {
	k.Case = map[string]any{"generator": "Full", "values": []any{"nil config (0)", -3.5, 1e10}}
	k.Key("Full")
	fc1, fc2 := &initializers.FullConfig{Value: -3.5}, &initializers.FullConfig{Value: 1e10}
	f1, f2 := initializers.NewFull(fc1), initializers.NewFull(fc2)
	fc1.Value, fc2.Value = 77, 77 // the caller's config is overwritten after construction
	for _, f := range []struct {
		in   *initializers.Full
		want float64
	}{{initializers.NewFull(nil), 0}, {f1, -3.5}, {f2, 1e10},
		// constants that agree in their leading digits (or differ only far behind the point), on the same shapes right after one another
		{initializers.NewFull(&initializers.FullConfig{Value: 1}), 1}, {initializers.NewFull(&initializers.FullConfig{Value: 0}), 0}, {initializers.NewFull(&initializers.FullConfig{Value: -1}), -1},
		{initializers.NewFull(&initializers.FullConfig{Value: 1e-7}), 1e-7}, {initializers.NewFull(&initializers.FullConfig{Value: 0.2500004}), 0.2500004},
		{initializers.NewFull(&initializers.FullConfig{Value: 0.25}), 0.25}, {initializers.NewFull(&initializers.FullConfig{Value: 0.25000000000000006}), 0.25000000000000006},
		{initializers.NewFull(&initializers.FullConfig{Value: -1e-300}), -1e-300}, {initializers.NewFull(&initializers.FullConfig{Value: 1e10 + 1e-5}), 1e10 + 1e-5},
		{initializers.NewFull(&initializers.FullConfig{Value: math.Copysign(0, -1)}), math.Copysign(0, -1)}, {initializers.NewFull(&initializers.FullConfig{Value: 5e-324}), 5e-324},
		{initializers.NewFull(&initializers.FullConfig{Value: 123456789.125}), 123456789.125}, {initializers.NewFull(&initializers.FullConfig{Value: 123456789.25}), 123456789.25},
		// the constant is not validated: infinities and NaN (masks for attention scores, sentinels) are held like any other value
		{initializers.NewFull(&initializers.FullConfig{Value: math.Inf(1)}), math.Inf(1)}, {initializers.NewFull(&initializers.FullConfig{Value: math.Inf(-1)}), math.Inf(-1)},
		{initializers.NewFull(&initializers.FullConfig{Value: math.NaN()}), math.NaN()}, {initializers.NewFull(&initializers.FullConfig{Value: math.MaxFloat64}), math.MaxFloat64}} {
		for _, s := range c18Shapes {
			t, err := f.in.Init(ref.CopyInts(s))
			if err != nil {
				k.Failf("Full(%v).Init(%v): %v", f.want, s, err)
				return
			}
			if e := rt.Compare(t, ref.Full(s, f.want), 0, 0, nil, 0); e != nil {
				k.Failf("Full(%v).Init(%v): %v", f.want, s, e)
				return
			}
			if f.want == 0 { // "holds the configured constant": a zero keeps its sign (1/x tells them apart)
				if got, err := rt.Read(t); err == nil {
					for i, v := range got.Data {
						if math.Signbit(v) != math.Signbit(f.want) {
							k.Failf("Full(%v).Init(%v): element %d is %v: the sign of the configured zero was lost", f.want, s, i, v)
							return
						}
					}
				}
			}
			if st, ok := tensor.VerifGradState(t); ok && !st.Tracked {
				k.Failf("Full(%v).Init(%v) returned an untracked tensor", f.want, s)
				return
			}
			// a second call with the same shape yields an independent tensor: a back-propagation through the first must not reach it
			t2, err := f.in.Init(ref.CopyInts(s))
			if err != nil {
				k.Failf("Full(%v).Init(%v), second call: %v", f.want, s, err)
				return
			}
			if err := tensor.BackPropagate(t.Scale(3)); err != nil || t.Gradient() == nil {
				k.Failf("Full(%v).Init(%v): result is not a tracked leaf (err=%v)", f.want, s, err)
				return
			}
			if t2.Gradient() != nil {
				k.Failf("Full(%v).Init(%v): two calls returned tensors that share gradient state (back-propagating through the first gave the second a gradient)", f.want, s)
				return
			}
			k.Count("init_calls", 1)
		}
	}
}

func c18Dist(k *fw.K, d distSpec, target int) {
	xrand.Seed(uint64(k.Rng.Int63()))
	k.Case = map[string]any{"generator": d.gen, "parameters": d.params, "target_samples": target}
	k.Key("%s/%s", d.gen, d.params)
	k.Sample()
	name := d.gen + "(" + d.params + ")"
	var all, pos0, posLast, p0pair, p1pair []float64
	var prev *ref.T
	equalPos, comparedPos := 0, 0
	totalDups, expectedDups := 0, 0.
	twoN, twoClose, twoFar := 0, 0, 0
	calls := 0
	disturbers := []func(s []int) (tensor.Tensor, error){
		func(s []int) (tensor.Tensor, error) { return tensor.RandN(s, 1000, 500, nil) },
		func(s []int) (tensor.Tensor, error) { return tensor.RandU(s, -1e4, 1e4, nil) },
	}
	if d.fan > 0 { // the other fan-based kinds with the SAME fan total draw in between (a scale cached per fan would be shared)
		f := d.fan
		add := func(in func(s []int) (tensor.Tensor, error)) { disturbers = append(disturbers, in) }
		add(mustInit(initializers.NewHeUniform(&initializers.HeUniformConfig{FanIn: f})).Init)
		add(mustInit(initializers.NewHeNormal(&initializers.HeNormalConfig{FanIn: f})).Init)
		if f >= 2 {
			add(mustInit(initializers.NewXavierUniform(&initializers.XavierUniformConfig{FanIn: 1, FanOut: f - 1})).Init)
			add(mustInit(initializers.NewXavierNormal(&initializers.XavierNormalConfig{FanIn: f - 1, FanOut: 1})).Init)
		}
	}
	if d.fan > 0 { // ... and they draw FIRST, the kinds of the other family (uniform vs normal) before anything else in this case
		order := []int{2, 4, 3, 5} // HeUniform, XavierUniform, HeNormal, XavierNormal
		if !d.normal {
			order = []int{3, 5, 2, 4}
		}
		for _, di := range order {
			if di < len(disturbers) {
				if _, err := disturbers[di]([]int{2, 3}); err != nil {
					k.Failf("disturber call failed: %v", err)
					return
				}
			}
		}
	}
	for len(all) < target {
		shape := c18Shapes[(calls*5+calls/len(c18Shapes))%len(c18Shapes)]
		// a disturber call of odd or even size in between
		if _, err := disturbers[calls%len(disturbers)](c18Shapes[(calls*3)%len(c18Shapes)]); err != nil {
			k.Failf("disturber call failed: %v", err)
			return
		}
		var t tensor.Tensor
		var err error
		arg := rt.SpareInts(shape) // a shape slice with spare capacity, as `like.Shape()[:n]` or an appended-to slice has
		if len(shape) == 0 && calls%2 == 1 {
			arg = nil // the other spelling of the scalar shape (the library's own tests write tensor.Zeros(nil, conf))
		}
		if p := call(func() { t, err = d.init(arg) }); p != nil || err != nil || t == nil {
			k.Failf("%s.Init(%v): panic=%v err=%v", name, shape, p, err)
			return
		}
		if !rt.SpareIntact(arg, shape) {
			k.Failf("%s.Init(%v) wrote into the caller's shape slice (or beyond its length): %v", name, shape, arg[:cap(arg)])
			return
		}
		calls++
		x, err := rt.Read(t)
		if err != nil || !ref.SameShape(x.Shape, shape) {
			k.Failf("%s.Init(%v) returned shape %v (%v)", name, shape, x, err)
			return
		}
		if st, ok := tensor.VerifGradState(t); ok && st.Tracked != d.tracked {
			k.Failf("%s.Init(%v): tracked = %v, expected %v", name, shape, st.Tracked, d.tracked)
			return
		}
		if calls%997 == 1 && d.tracked { // public-API probe of trackedness
			if err := tensor.BackPropagate(t.Scale(2)); err != nil || t.Gradient() == nil {
				k.Failf("%s.Init(%v): result is not tracked (a back-propagation did not reach it; err=%v)", name, shape, err)
				return
			}
		}
		for i, v := range x.Data {
			if math.IsNaN(v) || math.IsInf(v, 0) {
				k.Failf("%s.Init(%v): element %d is %v", name, shape, i, v)
				return
			}
			if !d.normal && !(v >= d.a && v < d.b) {
				k.Failf("%s.Init(%v): element %d = %v outside the support [%v, %v)", name, shape, i, v, d.a, d.b)
				return
			}
		}
		// freshness inside one tensor: positions do not share a draw
		if len(x.Data) >= 2 {
			seen := make(map[uint64]bool, len(x.Data))
			for _, v := range x.Data {
				seen[math.Float64bits(v)] = true
			}
			dups := len(x.Data) - len(seen)
			// a uniform draw is one of R = (upper - lower) / ulp representable doubles (at most 2^53): two of n independent draws coincide
			// with probability n(n-1)/2R - nothing for [0,1), noticeable over a long run for an interval of width 1e-4 around 1000. Repeats
			// are counted over the whole run and held against that expectation; one tensor may not hold more than a chance coincidence.
			nn := float64(len(x.Data))
			lam := nn * (nn - 1) / 2 / d.resolution()
			expectedDups += lam
			totalDups += dups
			if (!d.normal && dups > 0 && lam < 1e-10) || (!d.normal && float64(dups) > 2+20*lam) || dups > 1+len(x.Data)/50 {
				k.Failf("%s.Init(%v): only %d distinct values among %d elements of one tensor (%.3g coincidences expected at the resolution of the interval): element positions share draws", name, shape, len(seen), len(x.Data), lam)
				return
			}
		}
		if d.normal && len(x.Data) == 2 && d.b > 0 { // the two elements of a two-element tensor are independent draws: their standardised difference is N(0,1)
			dd := math.Abs(x.Data[0]-x.Data[1]) / (d.b * math.Sqrt2)
			if !math.IsNaN(dd) && !math.IsInf(dd, 0) {
				twoN++
				if dd < 0.5 {
					twoClose++
				}
				if dd > 1.5 {
					twoFar++
				}
			}
		}
		all = append(all, x.Data...)
		pos0 = append(pos0, x.Data[0])
		posLast = append(posLast, x.Data[len(x.Data)-1])
		if len(x.Data) >= 2 {
			p0pair, p1pair = append(p0pair, x.Data[0]), append(p1pair, x.Data[1])
		}
		if prev != nil {
			n := len(prev.Data)
			if len(x.Data) < n {
				n = len(x.Data)
			}
			for i := 0; i < n; i++ {
				comparedPos++
				if prev.Data[i] == x.Data[i] {
					equalPos++
				}
			}
		}
		prev = x
	}
	k.Count("init_calls", int64(calls))
	k.Count("samples", int64(len(all)))
	for _, chk := range []struct {
		xs   []float64
		what string
	}{{all, "all elements"}, {pos0, "elements at flat position 0 of each tensor"}, {posLast, "elements at the last position of each tensor"}} {
		if msg := d.conform(chk.xs, chk.what); msg != "" {
			k.Failf("%s: %s", name, msg)
			return
		}
		k.Count("statistical_checks", 3)
	}
	all = d.z(all)
	p0pair, p1pair = d.z(p0pair), d.z(p1pair)
	if r := corr(all[:len(all)-1], all[1:]); math.Abs(r) > 6.5/math.Sqrt(float64(len(all))) {
		k.Failf("%s: lag-1 autocorrelation of the draw stream is %v over %d draws (threshold %v)", name, r, len(all), 6.5/math.Sqrt(float64(len(all))))
		return
	}
	if r := corr(p0pair, p1pair); math.Abs(r) > 6.5/math.Sqrt(float64(len(p0pair))) {
		k.Failf("%s: positions 0 and 1 of the returned tensors are correlated: r = %v over %d tensors (threshold %v)", name, r, len(p0pair), 6.5/math.Sqrt(float64(len(p0pair))))
		return
	}
	k.Count("statistical_checks", 2)
	if twoN >= 60 {
		// |N(0,1)| < 0.5 with probability 0.38292, > 1.5 with probability 0.13361 (a generator that redraws "unlucky" tiny tensors, or
		// ties the elements of one tensor together, moves these)
		for _, q := range []struct {
			n    int
			p    float64
			what string
		}{{twoClose, 0.3829249225480262, "closer than half a standard deviation (of the difference)"}, {twoFar, 0.13361440253771617, "further apart than 1.5 standard deviations (of the difference)"}} {
			mean, sd := float64(twoN)*q.p, math.Sqrt(float64(twoN)*q.p*(1-q.p))
			if math.Abs(float64(q.n)-mean) > 6.5*sd {
				k.Failf("%s: of %d two-element tensors %d have their elements %s, %.1f expected (+-%.1f): the elements of one small tensor are not independent draws", name, twoN, q.n, q.what, mean, sd)
				return
			}
		}
		k.Count("statistical_checks", 2)
	}
	if !d.normal && totalDups > poissonLimit(expectedDups, 1e-10) {
		k.Failf("%s: %d repeated values inside tensors over the whole run, %.3g expected at the resolution of the interval: element positions share draws", name, totalDups, expectedDups)
		return
	}
	limit := 0
	if d.normal {
		limit = comparedPos / 100
	} else if lam := float64(comparedPos) / d.resolution(); lam > 1e-10 {
		limit = poissonLimit(lam, 1e-10) // chance agreements at the resolution of a narrow interval
	}
	if equalPos > limit {
		k.Failf("%s: draws are not fresh: consecutive tensors agree at %d of %d compared positions", name, equalPos, comparedPos)
	}
}

// c18Large draws a few large tensors (up to 2^17 elements, several layouts) and checks that the values
// inside ONE tensor are fresh: (almost) all distinct, no two equal rows, no block repeated at any
// power-of-two fraction of the tensor, plus the usual conformance of the pooled sample.
func c18Large(k *fw.K, d distSpec, quick bool) {
	xrand.Seed(uint64(k.Rng.Int63()))
	name := d.gen + "(" + d.params + ")"
	shapes := [][]int{{256, 256}, {16, 4096}, {4096, 16}, {65536}, {8, 8, 1024}, {181, 181}, {4, 8192}}
	if !quick {
		shapes = append(shapes, []int{512, 256}, []int{2, 65536}, []int{32, 32, 64}, []int{3, 43691})
	}
	k.Case = map[string]any{"generator": d.gen, "parameters": d.params, "large_shapes": shapes}
	k.Key("%s/%s/large", d.gen, d.params)
	var pooled []float64
	for _, shape := range shapes {
		var t tensor.Tensor
		var err error
		if p := call(func() { t, err = d.init(ref.CopyInts(shape)) }); p != nil || err != nil || t == nil {
			k.Failf("%s.Init(%v): panic=%v err=%v", name, shape, p, err)
			return
		}
		x, err := rt.Read(t)
		if err != nil || !ref.SameShape(x.Shape, shape) {
			k.Failf("%s.Init(%v) returned shape %v (%v)", name, shape, x, err)
			return
		}
		k.Count("large_tensors_drawn", 1)
		n := len(x.Data)
		seen := make(map[uint64]int, n)
		for _, v := range x.Data {
			seen[math.Float64bits(v)]++
			if !d.normal && !(v >= d.a && v < d.b) {
				k.Failf("%s.Init(%v): value %v outside the support [%v, %v)", name, shape, v, d.a, d.b)
				return
			}
		}
		minDistinct := n
		if d.normal {
			minDistinct = n - n/100
		} else {
			minDistinct = n - 3 // a 53-bit uniform repeats among 1e5 draws with probability ~1e-6
		}
		if len(seen) < minDistinct {
			k.Failf("%s.Init(%v): only %d distinct values among %d elements: draws inside one tensor are not fresh", name, shape, len(seen), n)
			return
		}
		// repeated blocks: compare the tensor with itself shifted by n/2, n/4, n/8, one row
		shifts := []int{n / 2, n / 4, n / 8, n / 16}
		if len(shape) >= 2 {
			shifts = append(shifts, n/shape[0])
		}
		for _, sh := range shifts {
			if sh == 0 {
				continue
			}
			eq := 0
			for i := 0; i+sh < n; i++ {
				if x.Data[i] == x.Data[i+sh] {
					eq++
				}
			}
			if eq > n/100 {
				k.Failf("%s.Init(%v): %d of %d elements equal the element %d positions later: a block of the tensor is repeated", name, shape, eq, n-sh, sh)
				return
			}
		}
		if len(pooled) < 400000 {
			pooled = append(pooled, x.Data...)
		}
	}
	if msg := d.conform(pooled, "elements of the large tensors"); msg != "" {
		k.Failf("%s: %s", name, msg)
		return
	}
	if r := corr(pooled[:len(pooled)-1], pooled[1:]); math.Abs(r) > 6.5/math.Sqrt(float64(len(pooled))) {
		k.Failf("%s: lag-1 autocorrelation %v over %d draws of large tensors", name, r, len(pooled))
	}
	k.Count("statistical_checks", 4)
}
