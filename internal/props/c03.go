package props

import (
	"fmt"
	"math"
	"math/rand"

	"github.com/sahandsafizadeh/qeep/tensor"

	"qeepverif/internal/fw"
	"qeepverif/internal/ref"
	"qeepverif/internal/rt"
)

// C03 — element-wise operations and implicit broadcasting compute the defined values.

func init() {
	fw.Register(&fw.Prop{
		ID: "C03",
		Rule: "differential monitor: every case builds operands with position-identifying values, performs one element-wise call through the public API and compares every element (read back with At) and the shape with the reference model (explicit ravel/unravel index arithmetic + the same math.* scalar function). " +
			"Unary ops and same-shape ops are enumerated over all shapes of rank 0..R with sizes 1..3; Add/Sub/Mul/Div over ALL broadcast-compatible shape pairs derivable from every target shape of rank 0..R' (drop leading dims and/or set dims to 1 on either side), plus sampled rank-5/6 pairs; each pair also checks 'identical to broadcasting explicitly first'. " +
			"A case is non-trivial when the result has >= 2 elements (an element mapping exists); distinct = (op, operand shapes, value class). Later additions: value patterns (all-equal, sorted, powers of two, denormals, extreme magnitudes, a single zero, values below the equality tolerance); sampled shapes with sizes up to 7; one long dimension (127..4097); huge tensors (16 384..72 900 elements with leading sizes that are not multiples of 8 / 32); forward chains on operands with a history; the same tensor object as every operand; tensors that took part in rejected calls are used again; operands are tracked or not by a data-derived coin.",
		Assumptions: []string{
			"Tensor.At and Tensor.Shape are the observation channel (their own correctness is C06's subject; a defect there shows up here as well)",
			"scalar functions are compared with a relative tolerance of 1e-12 so a benign reformulation cannot alarm; mapping errors are certain to be seen because operand values are unique per position",
			"Eq/Ne/Equals operands are either bit-identical or differ by >= 1e-3 at a position (far above the library's absolute tolerance)",
		},
		FloorQuick: 30000, FloorThor: 200000,
		Exhaustive: func(string) bool { return false },
		Run:        runC03,
	})
}

var c03Unary = []ref.Instr{
	{Op: "scale", F: -2.5}, {Op: "scale", F: 0}, {Op: "scale", F: 1e10},
	{Op: "pow", F: 2}, {Op: "pow", F: 3}, {Op: "pow", F: 0}, {Op: "pow", F: 1}, {Op: "pow", F: -1}, {Op: "pow", F: -2}, {Op: "pow", F: 0.5}, {Op: "pow", F: 2.5}, {Op: "pow", F: -0.5},
	// scalar ARGUMENTS at the edges of their range: whole exponents beyond int64, large whole and fractional exponents, factors near the float limits
	{Op: "pow", F: 1e19}, {Op: "pow", F: 9.3e18}, {Op: "pow", F: 1e30}, {Op: "pow", F: -1e19}, {Op: "pow", F: 40}, {Op: "pow", F: 63}, {Op: "pow", F: 1e15}, {Op: "pow", F: 0.1}, {Op: "pow", F: 1023.5},
	{Op: "scale", F: 1e-300}, {Op: "scale", F: 1e300}, {Op: "scale", F: 5e-324}, {Op: "scale", F: 1}, {Op: "scale", F: -1},
	// fractions that have a named root (the double nearest to 1/3 is not one third: a negative base still gives NaN), and their neighbours
	{Op: "pow", F: 1. / 3}, {Op: "pow", F: 2. / 3}, {Op: "pow", F: -1. / 3}, {Op: "pow", F: 0.25}, {Op: "pow", F: 0.2}, {Op: "pow", F: 1.5}, {Op: "pow", F: 4}, {Op: "pow", F: -3}, {Op: "pow", F: -0.25},
	{Op: "scale", F: 0.5}, {Op: "scale", F: 2}, {Op: "scale", F: 1e-250}, {Op: "scale", F: -1e-241},
	{Op: "exp"}, {Op: "log"}, {Op: "sin"}, {Op: "cos"}, {Op: "tan"}, {Op: "sinh"}, {Op: "cosh"}, {Op: "tanh"},
}

var c03Same = []string{"elmax", "elmin", "eq", "ne", "gt", "ge", "lt", "le"}
var c03Arith = []string{"add", "sub", "mul", "div"}

// valueClass produces operand data of a named class; all classes keep values unique per position
// except where the class is about ties / zeros.
func valueClass(r *rand.Rand, class int, shape []int) (*ref.T, string) {
	switch class {
	case 0:
		return Shuffled(r, Unique(r, shape, 0.1, 3)), "unique"
	case 1:
		return Shuffled(r, UniquePos(r, shape, 0.1, 3)), "positive"
	case 2: // zeros, negative zeros, negatives
		t := Shuffled(r, Unique(r, shape, 0.1, 3))
		for i := range t.Data {
			switch r.Intn(4) {
			case 0:
				t.Data[i] = 0
			case 1:
				t.Data[i] = math.Copysign(0, -1)
			}
		}
		return t, "zeros"
	case 3: // very different magnitudes
		t := Shuffled(r, Unique(r, shape, 1, 2))
		for i := range t.Data {
			t.Data[i] *= math.Pow(10, float64(r.Intn(9)-4)*75)
		}
		return t, "magnitudes"
	case 5: // value PATTERNS rather than generic values
		t := ref.Zeros(shape)
		pat := r.Intn(6)
		for i := range t.Data {
			switch pat {
			case 0: // all equal
				t.Data[i] = 1.25
			case 1: // sorted ascending
				t.Data[i] = float64(i) - float64(len(t.Data))/2
			case 2: // sorted descending
				t.Data[i] = float64(len(t.Data))/2 - float64(i)
			case 3: // exact powers of two with alternating signs
				t.Data[i] = math.Ldexp(1, (i%40)-20)
				if i%2 == 1 {
					t.Data[i] = -t.Data[i]
				}
			case 4: // denormals
				t.Data[i] = float64(1+i%7) * 5e-324 * float64(1+i%3)
			default: // the largest finite magnitudes
				t.Data[i] = math.MaxFloat64 / float64(1+i%5)
				if i%3 == 0 {
					t.Data[i] = -t.Data[i]
				}
			}
		}
		if n := len(t.Data); n > 2 && r.Intn(2) == 0 {
			t.Data[r.Intn(n)] = 0 // a single zero at one position
		}
		return t, []string{"all-equal", "ascending", "descending", "powers-of-two", "denormals", "max-finite"}[pat]
	case 4: // distinct values far below the library's equality tolerance (ordering must still be exact)
		t := UniqueInts(r, shape)
		for i := range t.Data {
			t.Data[i] *= 1e-300
		}
		return t, "tiny"
	}
	return UniqueInts(r, shape), "integers"
}

func runC03(c *fw.Ctx) {
	deeperBounds(!c.Quick())
	R := c.Pick(5, 6)
	shapes := Shapes(0, R, 3)

	// ---- unary operations ----
	for _, shape := range shapes {
		for _, in := range c03Unary {
			for _, class := range []int{0, 1, 2, 3, 5, 7} {
				shape, in, class := shape, in, class
				c.Case(func(k *fw.K) {
					x, cname := valueClass(k.Rng, class, shape)
					if class == 7 {
						// arguments that are special for SOME function: exact doubles at multiples of pi/2, the edges of Exp's range,
						// 1, -1, values whose square / cube sits at the edge of the range (finite inputs, finite or IEEE-defined results)
						x, cname = Shuffled(k.Rng, Unique(k.Rng, shape, 0.1, 3)), "special-arguments"
						sp := []float64{math.Pi / 2, -math.Pi / 2, 3 * math.Pi / 2, 5 * math.Pi / 2, 7 * math.Pi / 2, math.Pi, 2 * math.Pi, math.Pi / 4,
							709.782712893384, -745.1332191019411, 710, -746, 1, -1, 88.72283905206835, 1e-8, 1.3407807929942596e154, 5.6438030941222897e102, math.E, math.Ln2}
						for i := range x.Data {
							x.Data[i] = sp[k.Rng.Intn(len(sp))]
						}
					}
					k.Case = fcase{In: in, Ops: []*ref.T{x}, Tag: cname}
					if len(x.Data) >= 2 {
						k.Key("%s/%g/%s/%s", in.Op, in.F, shapeKey(shape), cname)
					}
					k.Count("unary_cases", 1)
					k.Sample()
					if msg := forwardCase(in, []*ref.T{x}, false); msg != "" {
						k.Failf("%s(%g) on shape %v [%s]: %s", in.Op, in.F, shape, cname, msg)
					}
				})
			}
		}
	}

	// ---- SEQUENCES of unary operations on ONE tensor object (Tan then Tanh, Sin then Sinh, Exp twice ...): every result is the function
	// of that operand, whatever was applied to the same object just before; and CHAINS of scalings x.Scale(u1).Scale(u2), each step
	// the correctly rounded product of the previous result (3 then 7, 1e-200 twice, 1e200 then 1e-250: exact comparison) ----
	for i := 0; i < c.Pick(500, 10000); i++ {
		c.Case(func(k *fw.K) {
			r := k.Rng
			shape := RandShape(r, 0, 3, 3)
			if r.Intn(3) == 0 {
				x := Shuffled(r, Unique(r, shape, 0.05, 3))
				if r.Intn(3) == 0 {
					for j := range x.Data {
						x.Data[j] *= []float64{1e300, 1e-300, 1e150, 3e250}[r.Intn(4)]
					}
				}
				t := rt.MustLeaf(x, r.Intn(2) == 0)
				cur, want := t, x.Clone()
				var us []float64
				for n := 2 + r.Intn(3); n > 0; n-- {
					u := []float64{3, 7, 0.1, 1e-200, 1e200, 1e-250, -1.5, 0.3, 1e-160, 1e160}[r.Intn(10)]
					us = append(us, u)
					var next tensor.Tensor
					if p := call(func() { next = cur.Scale(u) }); p != nil || next == nil {
						k.Failf("Scale chain %v: panic=%v", us, p)
						return
					}
					for j := range want.Data {
						want.Data[j] *= u
					}
					cur = next
					if e := rt.Compare(cur, want, 0, 0, nil, 0); e != nil {
						k.Case = map[string]any{"family": "chain of scalings", "x": x, "factors": us}
						k.Failf("x.Scale chain with the factors %v on shape %v (each step the rounded product of the previous result): %v", us, shape, e)
						return
					}
				}
				k.Key("scale-chain/%s/%d", shapeKey(shape), len(us))
				k.Count("scale_chain_cases", 1)
				return
			}
			x := Shuffled(r, Unique(r, shape, 0.1, 1.4))
			t := rt.MustLeaf(x, r.Intn(2) == 0)
			ops := []string{"tan", "tanh", "sin", "sinh", "cos", "cosh", "exp", "log"}
			var seq []string
			for n := 3 + r.Intn(6); n > 0; n-- {
				in := ref.Instr{Op: ops[r.Intn(len(ops))]}
				if len(seq) > 0 && r.Intn(2) == 0 { // the sibling of the previous function right after it
					sib := map[string]string{"tan": "tanh", "tanh": "tan", "sin": "sinh", "sinh": "sin", "cos": "cosh", "cosh": "cos", "exp": "log", "log": "exp"}
					in.Op = sib[seq[len(seq)-1]]
				}
				seq = append(seq, in.Op)
				want, err := ref.Apply(in, []*ref.T{x})
				if err != nil {
					k.Failf("harness: %v", err)
					return
				}
				got, err, p := exec(in, []tensor.Tensor{t})
				if p != nil || err != nil || got == nil {
					k.Failf("%s after %v on one tensor object: panic=%v err=%v", in.Op, seq[:len(seq)-1], p, err)
					return
				}
				if e := rt.Compare(got, want, 0, 1e-12, nil, 0); e != nil {
					k.Case = map[string]any{"family": "unary operations in sequence on one object", "x": x, "sequence": seq}
					k.Failf("the sequence %v applied to ONE tensor object of shape %v: the result of the last call: %v", seq, shape, e)
					return
				}
			}
			k.Key("unary-sequence/%s/%d", shapeKey(shape), len(seq))
			k.Count("unary_sequence_cases", 1)
		})
	}

	// ---- same-shape binary operations, comparisons, Equals ----
	for _, shape := range shapes {
		for _, op := range c03Same {
			for class := 0; class < 6; class++ {
				if class == 3 || (class == 4 && (op == "eq" || op == "ne")) {
					continue // Eq/Ne are specified only for identical or clearly different values
				}
				shape, op, class := shape, op, class
				c.Case(func(k *fw.K) {
					a, cname := valueClass(k.Rng, class, shape)
					b, _ := valueClass(k.Rng, class, shape)
					// exact ties at random positions; elsewhere keep a gap >= 1e-3
					for i := range a.Data {
						if k.Rng.Intn(3) == 0 {
							b.Data[i] = a.Data[i]
						} else if class == 5 && (op == "eq" || op == "ne") && a.Data[i] != b.Data[i] && math.Abs(a.Data[i]-b.Data[i]) < 1e-3 {
							b.Data[i] = a.Data[i] // denormal patterns: Eq/Ne only for identical or clearly different values
						} else if class < 4 && math.Abs(a.Data[i]-b.Data[i]) < 1e-3 {
							b.Data[i] = a.Data[i] + 1
						}
					}
					in := ref.Instr{Op: op}
					k.Case = fcase{In: in, Ops: []*ref.T{a, b}, Tag: cname}
					if len(a.Data) >= 2 {
						k.Key("%s/%s/%s", op, shapeKey(shape), cname)
					}
					k.Count("same_shape_cases", 1)
					if msg := forwardCase(in, []*ref.T{a, b}, true); msg != "" {
						k.Failf("%s on shape %v [%s]: %s", op, shape, cname, msg)
						return
					}
					if op == "eq" {
						c03Equals(k, a, b)
					}
				})
			}
		}
	}

	// ---- Add/Sub/Mul/Div over all broadcast-compatible pairs ----
	Rb := c.Pick(4, 5)
	for _, dst := range Shapes(0, Rb, 3) {
		srcs := BroadcastSources(dst)
		for _, sa := range srcs {
			for _, sb := range srcs {
				if bs, err := ref.BroadcastShape(sa, sb); err != nil || !ref.SameShape(bs, dst) {
					continue
				}
				for _, op := range c03Arith {
					sa, sb, op := sa, sb, op
					c.Case(func(k *fw.K) { c03Arith1(k, op, sa, sb, k.Index%4) })
				}
			}
		}
	}
	// every broadcast-compatible PAIR inside a group of shapes that collide under ad-hoc keys and fingerprints ([1,32] with [2,1],
	// [3,1] with [1,63], [12,1] with [1,12] ...): implicit broadcasting between two such operands, both orders, all four operations
	for gi, group := range CollidingShapes {
		for ai, sa := range group {
			for bi, sb := range group {
				if ai == bi {
					continue
				}
				if bs, err := ref.BroadcastShape(sa, sb); err != nil || ref.Prod(bs) > 4096 {
					continue
				}
				for _, op := range c03Arith {
					gi, sa, sb, op := gi, sa, sb, op
					c.Case(func(k *fw.K) {
						k.Count("colliding_shape_pair_cases", 1)
						c03Arith1(k, op, sa, sb, k.Index%4)
						_ = gi
					})
				}
			}
		}
	}
	// NEIGHBOURING doubles of ordinary magnitude (0.1+0.2 against 0.3, x against the next double): different numbers - Eq is 0, Ne is 1,
	// the order comparisons and ElMax / ElMin follow the exact order - next to exact ties; and one-element divisors / factors that are
	// powers of two down to the smallest subnormal (their reciprocal is not a finite double, the quotient is)
	for i := 0; i < c.Pick(1500, 20000); i++ {
		c.Case(func(k *fw.K) {
			r := k.Rng
			shape := RandShape(r, 0, 3, 3)
			if r.Intn(3) == 0 {
				a := Shuffled(r, Unique(r, shape, 0.1, 3))
				var s float64
				switch r.Intn(4) {
				case 0:
					s = math.Ldexp(1, -1074+r.Intn(52))
				case 1:
					s = math.Ldexp(1, []int{-1022, -1023, -1030, 1023, 1000, -500}[r.Intn(6)])
				case 2:
					s = 3 * math.Ldexp(1, -1074+r.Intn(40))
				default:
					s = -math.Ldexp(1, -1074+r.Intn(52))
				}
				for i := range a.Data { // dividends of the divisor's magnitude: every quotient is an ordinary number
					a.Data[i] = math.Round(a.Data[i]*8) * s
					if math.IsInf(a.Data[i], 0) {
						a.Data[i] = s
					}
				}
				b := ref.New([][]int{{}, {1}, {1, 1}}[r.Intn(3)], []float64{s})
				in := ref.Instr{Op: []string{"div", "div", "mul"}[r.Intn(3)]}
				if in.Op == "mul" {
					for i := range a.Data {
						a.Data[i] = math.Round(float64(1+r.Intn(9))) / s / 16
						if math.IsInf(a.Data[i], 0) || a.Data[i] == 0 {
							a.Data[i] = 1
						}
					}
				}
				k.Case = fcase{In: in, Ops: []*ref.T{a, b}, Tag: "one-element power-of-two operand"}
				k.Key("%s/%s/pow2-scalar/%g", in.Op, shapeKey(shape), s)
				k.Count("power_of_two_scalar_operand_cases", 1)
				if msg := forwardCase(in, []*ref.T{a, b}, true); msg != "" {
					k.Failf("%s of shape %v by a one-element tensor holding %g: %s", in.Op, shape, s, msg)
				}
				return
			}
			a := Shuffled(r, Unique(r, shape, 0.1, 3))
			b := a.Clone()
			for i := range a.Data {
				if r.Intn(3) == 0 {
					a.Data[i] = []float64{0.1 + 0.2, 0.3, 1, 1e6, -7, 0.1 * 3}[r.Intn(6)]
					b.Data[i] = a.Data[i]
				}
				switch r.Intn(5) {
				case 0:
					b.Data[i] = math.Nextafter(a.Data[i], math.Inf(1))
				case 1:
					b.Data[i] = math.Nextafter(a.Data[i], math.Inf(-1))
				case 2:
					b.Data[i] = math.Nextafter(math.Nextafter(math.Nextafter(a.Data[i], math.Inf(1)), math.Inf(1)), math.Inf(1))
				case 3: // a zero against the zero of the other sign: the SAME number (Eq 1, Ne 0, Ge and Le 1, Gt and Lt 0)
					a.Data[i] = math.Copysign(0, []float64{1, -1}[r.Intn(2)])
					b.Data[i] = -a.Data[i]
				}
			}
			op := c03Same[r.Intn(len(c03Same))]
			in := ref.Instr{Op: op}
			k.Case = fcase{In: in, Ops: []*ref.T{a, b}, Tag: "neighbouring doubles"}
			k.Key("%s/%s/neighbouring", op, shapeKey(shape))
			k.Count("neighbouring_double_cases", 1)
			if msg := forwardCase(in, []*ref.T{a, b}, true); msg != "" {
				k.Failf("%s on shape %v [operands that are equal or neighbouring doubles]: %s", op, shape, msg)
				return
			}
			if op == "eq" {
				c03Equals(k, a, b)
			}
		})
	}
	// operands holding NaN and infinities: the order comparisons are IEEE comparisons (anything against a NaN is 0, infinities are ordered),
	// Eq / Ne with a NaN (never equal) and with opposite infinities or an infinity against a finite value (different) - same-sign
	// infinities are left open for Eq / Ne, as the statement leaves them
	for i := 0; i < c.Pick(800, 10000); i++ {
		c.Case(func(k *fw.K) {
			r := k.Rng
			shape := RandShape(r, 0, 3, 3)
			a := Shuffled(r, Unique(r, shape, 0.1, 3))
			b := Shuffled(r, Unique(r, shape, 0.1, 3))
			op := []string{"gt", "ge", "lt", "le", "eq", "ne"}[r.Intn(6)]
			sp := []float64{math.NaN(), math.Inf(1), math.Inf(-1)}
			for i := range a.Data {
				switch r.Intn(5) {
				case 0:
					a.Data[i] = sp[r.Intn(3)]
				case 1:
					b.Data[i] = sp[r.Intn(3)]
				case 2:
					a.Data[i], b.Data[i] = sp[r.Intn(3)], sp[r.Intn(3)]
				}
				if (op == "eq" || op == "ne") && math.IsInf(a.Data[i], 0) && a.Data[i] == b.Data[i] {
					b.Data[i] = -a.Data[i] // same-sign infinities: unspecified for Eq / Ne
				}
			}
			in := ref.Instr{Op: op}
			k.Case = fcase{In: in, Ops: []*ref.T{a, b}, Tag: "NaN and infinities"}
			k.Key("%s/%s/non-finite", op, shapeKey(shape))
			k.Count("comparisons_over_non_finite_operands", 1)
			if msg := forwardCase(in, []*ref.T{a, b}, true); msg != "" {
				k.Failf("%s on shape %v [operands holding NaN and infinities]: %s", op, shape, msg)
			}
		})
	}
	// Pow with exponents of tiny magnitude that are NOT zero (1e-300, -1e-300, 5e-324, 1e-17): 0^a is 0 or +Inf, negative^a is NaN,
	// positive^a is 1 to within an ulp - exactly what Pow with exponent 0 does NOT give for the first two
	for i := 0; i < c.Pick(300, 3000); i++ {
		c.Case(func(k *fw.K) {
			shape := RandShape(k.Rng, 0, 3, 3)
			x := Shuffled(k.Rng, Unique(k.Rng, shape, 0.1, 3))
			for i := range x.Data {
				switch k.Rng.Intn(4) {
				case 0:
					x.Data[i] = 0
				case 1:
					x.Data[i] = math.Copysign(0, -1)
				}
			}
			in := ref.Instr{Op: "pow", F: []float64{1e-300, -1e-300, 5e-324, -5e-324, 1e-17, -1e-241, 1e-239}[k.Rng.Intn(7)]}
			k.Case = fcase{In: in, Ops: []*ref.T{x}, Tag: "tiny-exponent"}
			k.Key("pow/%g/%s/tiny-exponent", in.F, shapeKey(shape))
			k.Count("tiny_exponent_cases", 1)
			if msg := forwardCase(in, []*ref.T{x}, false); msg != "" {
				k.Failf("pow(%g) on shape %v [zero, negative and positive bases]: %s", in.F, shape, msg)
			}
		})
	}
	// sampled shapes with sizes up to 7: unary, same-shape and broadcasting operations
	for i := 0; i < c.Pick(3000, 30000); i++ {
		c.Case(func(k *fw.K) {
			dst := BigShape(k.Rng, 1, 400)
			switch k.Rng.Intn(3) {
			case 0:
				in := c03Unary[k.Rng.Intn(len(c03Unary))]
				x, cname := valueClass(k.Rng, k.Rng.Intn(4), dst)
				k.Case = fcase{In: in, Ops: []*ref.T{x}, Tag: cname}
				k.Key("%s/%g/%s/%s", in.Op, in.F, shapeKey(dst), cname)
				k.Count("big_shape_cases", 1)
				if msg := forwardCase(in, []*ref.T{x}, false); msg != "" {
					k.Failf("%s(%g) on shape %v [%s]: %s", in.Op, in.F, dst, cname, msg)
				}
			case 1:
				op := c03Same[k.Rng.Intn(len(c03Same))]
				a, cname := valueClass(k.Rng, 0, dst)
				b, _ := valueClass(k.Rng, 0, dst)
				for i := range a.Data {
					if k.Rng.Intn(3) == 0 {
						b.Data[i] = a.Data[i]
					} else if math.Abs(a.Data[i]-b.Data[i]) < 1e-3 {
						b.Data[i] = a.Data[i] + 1
					}
				}
				in := ref.Instr{Op: op}
				k.Case = fcase{In: in, Ops: []*ref.T{a, b}, Tag: cname}
				k.Key("%s/%s/%s", op, shapeKey(dst), cname)
				k.Count("big_shape_cases", 1)
				if msg := forwardCase(in, []*ref.T{a, b}, true); msg != "" {
					k.Failf("%s on shape %v: %s", op, dst, msg)
				}
			default:
				srcs := BroadcastSources(dst)
				for {
					sa, sb := srcs[k.Rng.Intn(len(srcs))], srcs[k.Rng.Intn(len(srcs))]
					if bs, err := ref.BroadcastShape(sa, sb); err == nil && ref.SameShape(bs, dst) {
						k.Count("big_shape_cases", 1)
						c03Arith1(k, c03Arith[k.Rng.Intn(4)], sa, sb, k.Rng.Intn(4))
						return
					}
				}
			}
		})
	}
	// the same tensor object as both operands (and three times in a Concat)
	for _, shape := range Shapes(0, c.Pick(3, 4), 3) {
		for _, op := range []string{"add", "sub", "mul", "div", "elmax", "elmin", "eq", "ne", "ge", "lt", "dot", "matmul", "concat", "patch"} {
			rank := len(shape)
			if (op == "dot" || op == "concat" || op == "patch") && rank < 1 {
				continue
			}
			if op == "matmul" && (rank < 2 || shape[rank-1] != shape[rank-2]) {
				continue
			}
			shape, op := shape, op
			c.Case(func(k *fw.K) {
				x := Shuffled(k.Rng, Unique(k.Rng, shape, 0.2, 2))
				in := ref.Instr{Op: op, In: []int{0, 0}}
				if op == "concat" {
					in = ref.Instr{Op: op, In: []int{0, 0, 0}, Dim: k.Rng.Intn(len(shape))}
				}
				p := ref.Prog{{Op: "leaf", Shape: shape, Data: x.Data, Tracked: k.Rng.Intn(2) == 0}, in, {Op: "scale", In: []int{0}, F: 3}}
				k.Case = c01case{Family: "one tensor object passed as every operand", Prog: p}
				k.Key("same-object/%s/%s", op, shapeKey(shape))
				k.Count("same_object_cases", 1)
				runChain(k, p)
			})
		}
	}
	// tensors that took part in REJECTED calls are used again
	for i := 0; i < c.Pick(2000, 20000); i++ {
		c.Case(func(k *fw.K) { rejectThenReuse(k, RandShape(k.Rng, 0, 4, 3)) })
	}
	// element-wise operations on operands with a history (results of MatMul / Patch / Reshape / Full ... used again)
	for i := 0; i < c.Pick(3000, 40000); i++ {
		c.Case(func(k *fw.K) {
			p := genChain(k.Rng, 3+k.Rng.Intn(6))
			k.Case = c01case{Family: "forward chain: element-wise operations on operands with a history", Prog: p}
			k.Key("%s", chainKey(p))
			k.Count("chain_cases", 1)
			runChain(k, p)
		})
	}
	// huge tensors (>= 16384 and >= 65536 elements; leading sizes that are not multiples of 8 / 32 / the element count over 8)
	huge := [][]int{{100, 200}, {33, 500}, {129, 128}, {4097, 4}, {16385}, {100, 700}, {70001}, {9, 90, 90}, {67, 33, 31}}
	if c.Quick() {
		huge = huge[:6]
	}
	for _, shape := range huge {
		for _, op := range []string{"scale", "tanh", "add", "sub", "mul", "elmax", "gt", "pow"} {
			shape, op := shape, op
			c.Case(func(k *fw.K) {
				a := RandT(k.Rng, shape, -2, 2)
				in := ref.Instr{Op: op, F: 2}
				xs := []*ref.T{a}
				if _, binary := ref.Arith[op]; binary || op == "elmax" || op == "gt" {
					xs = append(xs, RandT(k.Rng, shape, -2, 2))
				}
				k.Case = map[string]any{"op": op, "shape": shape, "elements": ref.Prod(shape)}
				k.Key("%s/%s/huge", op, shapeKey(shape))
				k.Count("huge_tensor_cases", 1)
				if msg := forwardCase(in, xs, false); msg != "" {
					k.Failf("%s on shape %v (%d elements): %s", op, shape, ref.Prod(shape), msg)
				}
			})
		}
	}
	for i := 0; i < c.Pick(600, 6000); i++ { // one long dimension (127..4097), incl. broadcasting a short operand along it
		c.Case(func(k *fw.K) {
			shape, _ := LongShape(k.Rng, 3, 70000)
			srcs := BroadcastSources(shape)
			sb := srcs[k.Rng.Intn(len(srcs))]
			k.Count("long_dimension_cases", 1)
			c03Arith1(k, c03Arith[k.Rng.Intn(4)], shape, sb, k.Rng.Intn(2))
		})
	}
	// sampled high-rank pairs
	for i := 0; i < c.Pick(4000, 40000); i++ {
		c.Case(func(k *fw.K) {
			dst := RandShape(k.Rng, 5, maxSampledRank, 3)
			srcs := BroadcastSources(dst)
			var sa, sb []int
			for {
				sa, sb = srcs[k.Rng.Intn(len(srcs))], srcs[k.Rng.Intn(len(srcs))]
				if bs, err := ref.BroadcastShape(sa, sb); err == nil && ref.SameShape(bs, dst) {
					break
				}
			}
			c03Arith1(k, c03Arith[k.Rng.Intn(4)], sa, sb, k.Rng.Intn(4))
		})
	}
}

func c03Arith1(k *fw.K, op string, sa, sb []int, class int) {
	a, cname := valueClass(k.Rng, class, sa)
	b, _ := valueClass(k.Rng, class, sb)
	if op == "div" && class != 2 { // keep a generic divisor away from 0 except in the zeros class
		for i := range b.Data {
			if b.Data[i] == 0 {
				b.Data[i] = 1.5
			}
		}
	}
	in := ref.Instr{Op: op}
	k.Case = fcase{In: in, Ops: []*ref.T{a, b}, Tag: cname}
	want, _ := ref.Apply(in, []*ref.T{a, b})
	expanding := !ref.SameShape(sa, want.Shape) || !ref.SameShape(sb, want.Shape)
	if len(want.Data) >= 2 {
		k.Key("%s/%s/%s/%s", op, shapeKey(sa), shapeKey(sb), cname)
	}
	k.Count("arith_cases", 1)
	if expanding {
		k.Count("arith_cases_with_expansion", 1)
	}
	if len(sa) < len(sb) {
		k.Count("arith_first_operand_lower_rank", 1)
	}
	k.Sample()
	if msg := forwardCase(in, []*ref.T{a, b}, false); msg != "" {
		k.Failf("%s on shapes %v, %v [%s]: %s", op, sa, sb, cname, msg)
		return
	}
	// metamorphic clause: identical to broadcasting explicitly first
	ra, rb := rt.MustLeaf(a, false), rt.MustLeaf(b, false)
	var direct, viaExplicit tensor.Tensor
	var err error
	if p := call(func() {
		direct, err = rt.Exec(in, []tensor.Tensor{ra, rb})
		if err != nil {
			return
		}
		var ea, eb tensor.Tensor
		if ea, err = ra.Broadcast(ref.CopyInts(want.Shape)); err != nil {
			return
		}
		if eb, err = rb.Broadcast(ref.CopyInts(want.Shape)); err != nil {
			return
		}
		viaExplicit, err = rt.Exec(in, []tensor.Tensor{ea, eb})
	}); p != nil || err != nil {
		k.Failf("%s on shapes %v, %v: explicit-broadcast twin failed: panic=%v err=%v", op, sa, sb, p, err)
		return
	}
	d, e1 := rt.Read(direct)
	v, e2 := rt.Read(viaExplicit)
	if e1 != nil || e2 != nil {
		k.Failf("%s: cannot read results: %v %v", op, e1, e2)
		return
	}
	if !ref.SameShape(d.Shape, v.Shape) {
		k.Failf("%s on shapes %v, %v: implicit result shape %v, explicit-first shape %v", op, sa, sb, d.Shape, v.Shape)
		return
	}
	for i := range d.Data {
		if math.Float64bits(d.Data[i]) != math.Float64bits(v.Data[i]) && !(d.Data[i] != d.Data[i] && v.Data[i] != v.Data[i]) {
			k.Failf("%s on shapes %v, %v: element %v differs between implicit (%v) and explicit-first (%v) broadcasting", op, sa, sb, ref.Unravel(i, d.Shape), d.Data[i], v.Data[i])
			return
		}
	}
}

// c03Equals: Equals is true exactly when every position compares equal (both directions).
func c03Equals(k *fw.K, a, b *ref.T) {
	ra, rb := rt.MustLeaf(a, false), rt.MustLeaf(b, false)
	check := func(x, y tensor.Tensor, want bool, what string) {
		var got bool
		var err error
		if p := call(func() { got, err = x.Equals(y) }); p != nil || err != nil {
			k.Failf("Equals (%s): panic=%v err=%v", what, p, err)
			return
		}
		if got != want {
			k.Failf("Equals (%s) = %v, expected %v; shape %v", what, got, want, a.Shape)
		}
	}
	want, _ := ref.Equals(a, b)
	check(ra, rb, want, "a vs b")
	check(ra, rt.MustLeaf(a.Clone(), false), true, "a vs identical copy")
	k.Count("equals_checks", 2)
	if len(a.Data) >= 1 {
		// a single differing element anywhere must flip it
		c := a.Clone()
		pos := k.Rng.Intn(len(c.Data))
		if v := c.Data[pos]; v+7.25 != v { // clearly different whatever the magnitude (adding to 1e308 changes nothing)
			c.Data[pos] = v + 7.25
		} else {
			c.Data[pos] = v * 0.5
		}
		check(ra, rt.MustLeaf(c, false), false, fmt.Sprintf("one element differs at %v", ref.Unravel(pos, a.Shape)))
		k.Count("equals_checks", 1)
	}
	if len(a.Data) >= 2 {
		// differences of opposite sign that cancel in the total: two exchanged elements; +d at one position and -d at another
		c := a.Clone()
		i, j := k.Rng.Intn(len(c.Data)), k.Rng.Intn(len(c.Data)-1)
		if j >= i {
			j++
		}
		if math.Abs(c.Data[i]-c.Data[j]) > 1e-3 { // clearly different (Eq / Equals are specified for identical or clearly different values); false for NaN
			c.Data[i], c.Data[j] = c.Data[j], c.Data[i]
			check(ra, rt.MustLeaf(c, false), false, fmt.Sprintf("elements %d and %d exchanged", i, j))
			k.Count("equals_checks", 1)
		}
		d := a.Clone()
		if v, w := d.Data[i], d.Data[j]; math.Abs(v) < 1e15 && math.Abs(w) < 1e15 && v+0.5 != v && w-0.5 != w {
			d.Data[i], d.Data[j] = v+0.5, w-0.5
			check(ra, rt.MustLeaf(d, false), false, fmt.Sprintf("+0.5 at element %d and -0.5 at element %d", i, j))
			k.Count("equals_checks", 1)
		}
	}
}
