package ref

import (
	"fmt"
	"math"
)

// Instr is one instruction of a straight-line tensor program (SSA: instruction
// i defines value i). It is JSON-serialisable: programs are the replay format.
type Instr struct {
	Op      string    `json:"op"`
	In      []int     `json:"in,omitempty"`
	F       float64   `json:"f,omitempty"`     // scale factor / exponent / leaky slope
	Dim     int       `json:"dim,omitempty"`   // dim argument
	Shape   []int     `json:"shape,omitempty"` // leaf shape / reshape / broadcast target
	Index   []Range   `json:"index,omitempty"` // slice / patch index (as passed by the caller)
	Data    []float64 `json:"data,omitempty"`  // leaf data
	Tracked bool      `json:"tracked,omitempty"`
}

type Prog []Instr

const Eps = 1e-12 // the losses' clipping epsilon (from the property statement)

// Differentiable lists the primitive differentiable operations of the tape.
var Differentiable = map[string]bool{
	"slice": true, "patch": true, "transpose": true, "reshape": true, "unsqueeze": true, "squeeze": true,
	"flatten": true, "broadcast": true, "sumalong": true, "maxalong": true, "minalong": true, "avgalong": true,
	"varalong": true, "stdalong": true, "meanalong": true, "scale": true, "pow": true, "exp": true, "log": true,
	"sin": true, "cos": true, "tan": true, "sinh": true, "cosh": true, "tanh": true, "elmax": true, "elmin": true,
	"add": true, "sub": true, "mul": true, "div": true, "dot": true, "matmul": true, "concat": true,
	// composites (closed forms from the property statements)
	"relu": true, "leakyrelu": true, "sigmoid": true, "softmax": true, "fc": true, "mse": true, "bce": true, "ce": true,
}

var alongKind = map[string]Stat{
	"sumalong": SSum, "maxalong": SMax, "minalong": SMin, "avgalong": SAvg, "varalong": SVar, "stdalong": SStd, "meanalong": SMean,
}

func Clip(x, lo, hi float64) float64 { return math.Max(lo, math.Min(x, hi)) }

// Apply evaluates one instruction on operand values.
func Apply(in Instr, xs []*T) (*T, error) {
	switch in.Op {
	case "leaf":
		return New(in.Shape, append([]float64(nil), in.Data...)), nil
	case "full":
		if err := ValidDims(in.Shape); err != nil {
			return nil, err
		}
		return Full(in.Shape, in.F), nil
	case "eye": // the identity matrix of order Dim
		return Eye(in.Dim)
	case "slice":
		return xs[0].Slice(in.Index)
	case "patch":
		return xs[0].Patch(in.Index, xs[1])
	case "transpose":
		return xs[0].Transpose()
	case "reshape":
		return xs[0].Reshape(in.Shape)
	case "unsqueeze":
		return xs[0].UnSqueeze(in.Dim)
	case "squeeze":
		return xs[0].Squeeze(in.Dim)
	case "flatten":
		return xs[0].Flatten(in.Dim)
	case "broadcast":
		return xs[0].Broadcast(in.Shape)
	case "sumalong", "maxalong", "minalong", "avgalong", "varalong", "stdalong", "meanalong":
		return xs[0].Along(alongKind[in.Op], in.Dim)
	case "scale":
		return xs[0].Map(func(x float64) float64 { return in.F * x }), nil
	case "pow":
		return xs[0].Map(func(x float64) float64 { return math.Pow(x, in.F) }), nil
	case "exp", "log", "sin", "cos", "tan", "sinh", "cosh", "tanh":
		return xs[0].Map(Unary[in.Op]), nil
	case "elmax", "elmin", "eq", "ne", "gt", "ge", "lt", "le":
		return SameOp(in.Op, xs[0], xs[1])
	case "add", "sub", "mul", "div":
		return ArithOp(in.Op, xs[0], xs[1])
	case "dot":
		return Dot(xs[0], xs[1])
	case "matmul":
		return MatMul(xs[0], xs[1])
	case "concat":
		return Concat(xs, in.Dim)
	case "relu":
		return xs[0].Map(func(x float64) float64 { return math.Max(0, x) }), nil
	case "leakyrelu":
		return xs[0].Map(func(x float64) float64 { return math.Max(0, x) + in.F*math.Min(0, x) }), nil
	case "sigmoid":
		return xs[0].Map(func(x float64) float64 { return 1 / (1 + math.Exp(-x)) }), nil
	case "softmax":
		return Softmax(xs[0], in.Dim)
	case "fc":
		return FC(xs[0], xs[1], xs[2])
	case "mse", "bce", "ce":
		return Loss(in.Op, xs[0], xs[1])
	}
	return nil, fmt.Errorf("ref.Apply: unknown op %q", in.Op)
}

func Softmax(x *T, dim int) (*T, error) {
	if dim < 0 || dim >= len(x.Shape) {
		return nil, fmt.Errorf("Softmax: dim %d of rank %d", dim, len(x.Shape))
	}
	o := Zeros(x.Shape)
	oshape := append(CopyInts(x.Shape[:dim]), x.Shape[dim+1:]...)
	for off := 0; off < Prod(oshape); off++ {
		offs := fibreOffsets(x.Shape, dim, Unravel(off, oshape))
		s := 0.
		for _, so := range offs {
			s += math.Exp(x.Data[so])
		}
		for _, so := range offs {
			o.Data[so] = math.Exp(x.Data[so]) / s
		}
	}
	return o, nil
}

// FC: y[b][o] = W[o] * sum_d x[b][d] + B[o]   (operands: x [batch,features], W [out], B [out]).
func FC(x, w, b *T) (*T, error) {
	if len(x.Shape) != 2 || len(w.Shape) != 1 || len(b.Shape) != 1 || w.Shape[0] != b.Shape[0] {
		return nil, fmt.Errorf("FC: shapes %v %v %v", x.Shape, w.Shape, b.Shape)
	}
	B, D, O := x.Shape[0], x.Shape[1], w.Shape[0]
	y := Zeros([]int{B, O})
	for i := 0; i < B; i++ {
		s := 0.
		for d := 0; d < D; d++ {
			s += x.Data[i*D+d]
		}
		for o := 0; o < O; o++ {
			y.Data[i*O+o] = w.Data[o]*s + b.Data[o]
		}
	}
	return y, nil
}

// Loss: operands (prediction, target). mse/bce take rank-1, ce rank-2 [batch,class].
func Loss(kind string, p, t *T) (*T, error) {
	want := 1
	if kind == "ce" {
		want = 2
	}
	if len(p.Shape) != want || !SameShape(p.Shape, t.Shape) {
		return nil, fmt.Errorf("%s: shapes %v %v", kind, p.Shape, t.Shape)
	}
	n := float64(p.Shape[0])
	s := 0.
	for i := range p.Data {
		pv, tv := p.Data[i], t.Data[i]
		switch kind {
		case "mse":
			s += (pv - tv) * (pv - tv)
		case "bce":
			pc, tc := Clip(pv, Eps, 1-Eps), Clip(tv, 0, 1)
			s -= tc*math.Log(pc) + (1-tc)*math.Log(1-pc)
		case "ce":
			pc, tc := Clip(pv, Eps, 1-Eps), Clip(tv, 0, 1)
			s -= tc * math.Log(pc)
		}
	}
	return Scalar(s / n), nil
}

// Eval runs the whole program; an instruction whose preconditions fail yields an error.
func (p Prog) Eval() ([]*T, error) {
	vals := make([]*T, len(p))
	for i, in := range p {
		xs := make([]*T, len(in.In))
		for k, j := range in.In {
			xs[k] = vals[j]
		}
		v, err := Apply(in, xs)
		if err != nil {
			return nil, fmt.Errorf("instr %d (%s): %w", i, in.Op, err)
		}
		vals[i] = v
	}
	return vals, nil
}

// TrackedSet: a leaf is tracked as declared; a result of a differentiable
// operation is tracked iff some operand is; comparisons are never tracked.
func (p Prog) TrackedSet() []bool {
	tr := make([]bool, len(p))
	for i, in := range p {
		if in.Op == "leaf" || in.Op == "full" || in.Op == "eye" {
			tr[i] = in.Tracked
			continue
		}
		if !Differentiable[in.Op] {
			continue
		}
		for _, j := range in.In {
			tr[i] = tr[i] || tr[j]
		}
	}
	return tr
}

// BroadcastRule selects how the gradient of an expanded operand is reduced over its copies.
type BroadcastRule int

const (
	RuleSum BroadcastRule = iota // the specification (C07)
	RuleAvg                      // model of recorded defect D9: mean over the copies (used only to classify known findings)
)

// Grad is tape reverse mode: nodes are processed in reverse program order
// (a reverse topological order of the DAG), so it yields the total derivative
// of seed-weighted sum of root's elements on any DAG by construction.
// seed == nil means all ones. Untracked nodes and tracked nodes not reachable
// from root through tracked nodes get nil.
func (p Prog) Grad(vals []*T, root int, seed *T, rule BroadcastRule) []*T {
	g, _ := p.GradS(vals, root, seed, rule)
	return g
}

// GradS also returns, per node, the "tape run on absolute values": the same reverse sweep in which every
// local Jacobian entry and every contribution is replaced by its absolute value. It bounds the magnitude of
// the terms that were summed into each gradient element - including terms that cancelled at a node further
// up and whose rounding residue is carried down - and is the scale against which a small difference must
// be judged.
func (p Prog) GradS(vals []*T, root int, seed *T, rule BroadcastRule) (g, scale []*T) {
	tr := p.TrackedSet()
	g = make([]*T, len(p))
	scale = make([]*T, len(p))
	if !tr[root] {
		return g, scale
	}
	if seed == nil {
		seed = Full(vals[root].Shape, 1)
	}
	g[root] = seed.Clone()
	scale[root] = seed.Map(math.Abs)
	for i := root; i >= 0; i-- {
		if g[i] == nil || p[i].Op == "leaf" || p[i].Op == "full" || p[i].Op == "eye" {
			continue
		}
		in := p[i]
		xs := make([]*T, len(in.In))
		axs := make([]*T, len(in.In))
		for k, j := range in.In {
			xs[k] = vals[j]
			axs[k] = vals[j].Map(math.Abs)
		}
		gs := VJP(in, xs, vals[i], g[i], rule)
		var ss []*T
		switch in.Op {
		case "elmax", "elmin": // the winner may differ on absolute values: both sides get the whole scale
			ss = []*T{scale[i].Clone(), scale[i].Clone()}
		case "maxalong", "minalong":
			ss = []*T{expandAlong(scale[i], xs[0].Shape, in.Dim)}
		case "varalong", "stdalong", "softmax", "fc", "mse", "bce", "ce", "relu", "leakyrelu", "sigmoid":
			// rules that are not monotone in |x|: bound by the signed rule applied to the scale, element-wise absolute value
			ss = VJP(in, xs, vals[i], scale[i], rule)
		default:
			ss = VJP(in, axs, vals[i].Map(math.Abs), scale[i], rule)
		}
		for k, j := range in.In {
			if !tr[j] || gs[k] == nil {
				continue
			}
			if g[j] == nil {
				g[j] = gs[k].Clone()
				scale[j] = ss[k].Map(math.Abs)
			} else {
				for q := range g[j].Data {
					g[j].Data[q] += gs[k].Data[q]
					scale[j].Data[q] += math.Abs(ss[k].Data[q])
				}
			}
		}
	}
	return g, scale
}
