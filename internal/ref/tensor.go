// Package ref is the reference model of qeep's tensor semantics used as the
// oracle by the runtime monitors: a tensor is a shape plus a flat row-major
// []float64 and every operation is explicit index arithmetic. It is written
// from the property statements, not from the library, and shares no code shape
// with it (the library uses recursive nested-slice copiers and stateful
// carry-propagating element generators).
package ref

import (
	"fmt"
	"math"
)

type T struct {
	Shape []int
	Data  []float64
}

type Range struct{ From, To int }

func Prod(shape []int) int {
	n := 1
	for _, d := range shape {
		n *= d
	}
	return n
}

func CopyInts(s []int) []int {
	c := make([]int, len(s))
	copy(c, s)
	return c
}

func New(shape []int, data []float64) *T {
	if len(data) != Prod(shape) {
		panic(fmt.Sprintf("ref.New: %d elements for shape %v", len(data), shape))
	}
	return &T{Shape: CopyInts(shape), Data: data}
}

func Zeros(shape []int) *T { return New(shape, make([]float64, Prod(shape))) }

func Full(shape []int, v float64) *T {
	t := Zeros(shape)
	for i := range t.Data {
		t.Data[i] = v
	}
	return t
}

func Scalar(v float64) *T { return New(nil, []float64{v}) }

func (t *T) N() int    { return len(t.Data) }
func (t *T) Rank() int { return len(t.Shape) }

func (t *T) Clone() *T {
	d := make([]float64, len(t.Data))
	copy(d, t.Data)
	return New(t.Shape, d)
}

// Unravel turns a row-major offset into a multi-index.
func Unravel(off int, shape []int) []int {
	idx := make([]int, len(shape))
	for i := len(shape) - 1; i >= 0; i-- {
		idx[i] = off % shape[i]
		off /= shape[i]
	}
	return idx
}

// Ravel turns a multi-index into a row-major offset.
func Ravel(idx []int, shape []int) int {
	off := 0
	for i := range shape {
		off = off*shape[i] + idx[i]
	}
	return off
}

func SameShape(a, b []int) bool {
	if len(a) != len(b) {
		return false
	}
	for i := range a {
		if a[i] != b[i] {
			return false
		}
	}
	return true
}

func ValidDims(shape []int) error {
	for i, d := range shape {
		if d <= 0 {
			return fmt.Errorf("non-positive size %d at dimension %d", d, i)
		}
	}
	return nil
}

// BroadcastShape is NumPy's right-aligned broadcast of two shapes.
func BroadcastShape(a, b []int) ([]int, error) {
	n := len(a)
	if len(b) > n {
		n = len(b)
	}
	out := make([]int, n)
	for k := 1; k <= n; k++ {
		da, db := 1, 1
		if k <= len(a) {
			da = a[len(a)-k]
		}
		if k <= len(b) {
			db = b[len(b)-k]
		}
		switch {
		case da == db:
			out[n-k] = da
		case da == 1:
			out[n-k] = db
		case db == 1:
			out[n-k] = da
		default:
			return nil, fmt.Errorf("shapes %v and %v are not broadcast-compatible", a, b)
		}
	}
	return out, nil
}

// CanBroadcastTo: can a tensor of shape src be expanded to dst.
func CanBroadcastTo(src, dst []int) error {
	if err := ValidDims(dst); err != nil {
		return err
	}
	if len(src) > len(dst) {
		return fmt.Errorf("source rank %d exceeds target rank %d", len(src), len(dst))
	}
	for k := 1; k <= len(src); k++ {
		s, d := src[len(src)-k], dst[len(dst)-k]
		if s != d && s != 1 {
			return fmt.Errorf("cannot expand size %d to %d", s, d)
		}
	}
	return nil
}

// ExpansionFactor is the number of copies of each source element in a broadcast to dst.
func ExpansionFactor(src, dst []int) int { return Prod(dst) / Prod(src) }

func isNaN(x float64) bool { return x != x }

// Close reports whether r matches e within abs + rel*max(|r|,|e|); NaN/Inf compare by class.
func Close(r, e, abs, rel float64) bool {
	if isNaN(r) || isNaN(e) {
		return isNaN(r) && isNaN(e)
	}
	if math.IsInf(r, 0) || math.IsInf(e, 0) {
		return r == e
	}
	d := math.Abs(r - e)
	m := math.Max(math.Abs(r), math.Abs(e))
	return d <= abs+rel*m
}
