package ref

import (
	"fmt"
	"math"
)

// ---------- construction ----------

func Eye(n int) (*T, error) {
	if n <= 0 {
		return nil, fmt.Errorf("Eye: n=%d", n)
	}
	t := Zeros([]int{n, n})
	for i := 0; i < n; i++ {
		t.Data[i*n+i] = 1
	}
	return t, nil
}

// ---------- accessors ----------

func (t *T) At(idx []int) (float64, error) {
	if len(idx) != len(t.Shape) {
		return 0, fmt.Errorf("At: index length %d for rank %d", len(idx), len(t.Shape))
	}
	for i, v := range idx {
		if v < 0 || v >= t.Shape[i] {
			return 0, fmt.Errorf("At: index %d out of range at dimension %d", v, i)
		}
	}
	return t.Data[Ravel(idx, t.Shape)], nil
}

// SliceRegion validates a Slice index against shape and completes it: an
// omitted or {0,0} range selects the whole dimension.
func SliceRegion(index []Range, shape []int) ([]Range, error) {
	if len(index) > len(shape) {
		return nil, fmt.Errorf("Slice: index longer than rank")
	}
	out := make([]Range, len(shape))
	for i := range shape {
		if i >= len(index) || (index[i].From == 0 && index[i].To == 0) {
			out[i] = Range{0, shape[i]}
			continue
		}
		r := index[i]
		if r.From < 0 || r.From >= r.To || r.To > shape[i] {
			return nil, fmt.Errorf("Slice: bad range [%d,%d) for size %d at dimension %d", r.From, r.To, shape[i], i)
		}
		out[i] = r
	}
	return out, nil
}

// PatchRegion validates a Patch index for a source of shape src written into a
// target of shape dst and returns the block of the target that is overwritten:
// an omitted or {0,0} range places the source at offset 0 along that dimension.
func PatchRegion(index []Range, src, dst []int) ([]Range, error) {
	if len(src) != len(dst) {
		return nil, fmt.Errorf("Patch: rank mismatch %d vs %d", len(src), len(dst))
	}
	for i := range src {
		if src[i] > dst[i] {
			return nil, fmt.Errorf("Patch: source larger than target at dimension %d", i)
		}
	}
	if len(index) > len(dst) {
		return nil, fmt.Errorf("Patch: index longer than rank")
	}
	out := make([]Range, len(dst))
	for i := range dst {
		if i >= len(index) || (index[i].From == 0 && index[i].To == 0) {
			out[i] = Range{0, src[i]}
			continue
		}
		r := index[i]
		if r.From < 0 || r.From >= r.To || r.To > dst[i] {
			return nil, fmt.Errorf("Patch: bad range [%d,%d) for size %d at dimension %d", r.From, r.To, dst[i], i)
		}
		if r.To-r.From != src[i] {
			return nil, fmt.Errorf("Patch: range [%d,%d) does not cover source size %d at dimension %d", r.From, r.To, src[i], i)
		}
		out[i] = r
	}
	return out, nil
}

func regionShape(region []Range) []int {
	s := make([]int, len(region))
	for i, r := range region {
		s[i] = r.To - r.From
	}
	return s
}

// readRegion copies the block `region` out of t.
func (t *T) readRegion(region []Range) *T {
	o := Zeros(regionShape(region))
	for off := range o.Data {
		idx := Unravel(off, o.Shape)
		for i := range idx {
			idx[i] += region[i].From
		}
		o.Data[off] = t.Data[Ravel(idx, t.Shape)]
	}
	return o
}

// writeRegion returns a copy of t with block `region` replaced by src.
func (t *T) writeRegion(region []Range, src *T) *T {
	o := t.Clone()
	for off := range src.Data {
		idx := Unravel(off, src.Shape)
		for i := range idx {
			idx[i] += region[i].From
		}
		o.Data[Ravel(idx, o.Shape)] = src.Data[off]
	}
	return o
}

func (t *T) Slice(index []Range) (*T, error) {
	region, err := SliceRegion(index, t.Shape)
	if err != nil {
		return nil, err
	}
	return t.readRegion(region), nil
}

func (t *T) Patch(index []Range, src *T) (*T, error) {
	region, err := PatchRegion(index, src.Shape, t.Shape)
	if err != nil {
		return nil, err
	}
	return t.writeRegion(region, src), nil
}

func ConcatShape(shapes [][]int, dim int) ([]int, error) {
	if len(shapes) < 2 {
		return nil, fmt.Errorf("Concat: needs at least 2 tensors")
	}
	base := shapes[0]
	for _, s := range shapes {
		if len(s) == 0 {
			return nil, fmt.Errorf("Concat: scalar operand")
		}
		if len(s) != len(base) {
			return nil, fmt.Errorf("Concat: rank mismatch")
		}
	}
	if dim < 0 || dim >= len(base) {
		return nil, fmt.Errorf("Concat: dim %d out of range", dim)
	}
	out := CopyInts(base)
	out[dim] = 0
	for _, s := range shapes {
		for j := range s {
			if j != dim && s[j] != base[j] {
				return nil, fmt.Errorf("Concat: size mismatch at dimension %d", j)
			}
		}
		out[dim] += s[dim]
	}
	return out, nil
}

func Concat(ts []*T, dim int) (*T, error) {
	shapes := make([][]int, len(ts))
	for i, t := range ts {
		shapes[i] = t.Shape
	}
	shape, err := ConcatShape(shapes, dim)
	if err != nil {
		return nil, err
	}
	o := Zeros(shape)
	base := 0
	for _, t := range ts {
		for off := range t.Data {
			idx := Unravel(off, t.Shape)
			idx[dim] += base
			o.Data[Ravel(idx, shape)] = t.Data[off]
		}
		base += t.Shape[dim]
	}
	return o, nil
}

// ---------- shape modifiers ----------

func (t *T) Transpose() (*T, error) {
	r := len(t.Shape)
	if r < 2 {
		return nil, fmt.Errorf("Transpose: rank %d", r)
	}
	shape := CopyInts(t.Shape)
	shape[r-1], shape[r-2] = shape[r-2], shape[r-1]
	o := Zeros(shape)
	for off := range o.Data {
		idx := Unravel(off, shape)
		idx[r-1], idx[r-2] = idx[r-2], idx[r-1]
		o.Data[off] = t.Data[Ravel(idx, t.Shape)]
	}
	return o, nil
}

func (t *T) Reshape(shape []int) (*T, error) {
	if err := ValidDims(shape); err != nil {
		return nil, err
	}
	if Prod(shape) != len(t.Data) {
		return nil, fmt.Errorf("Reshape: %d elements into %v", len(t.Data), shape)
	}
	o := t.Clone()
	o.Shape = CopyInts(shape)
	return o, nil
}

func (t *T) UnSqueeze(dim int) (*T, error) {
	if dim < 0 || dim > len(t.Shape) {
		return nil, fmt.Errorf("UnSqueeze: dim %d", dim)
	}
	shape := append(append(CopyInts(t.Shape[:dim]), 1), t.Shape[dim:]...)
	return t.Reshape(shape)
}

func (t *T) Squeeze(dim int) (*T, error) {
	if dim < 0 || dim >= len(t.Shape) || t.Shape[dim] != 1 {
		return nil, fmt.Errorf("Squeeze: dim %d of %v", dim, t.Shape)
	}
	shape := append(CopyInts(t.Shape[:dim]), t.Shape[dim+1:]...)
	return t.Reshape(shape)
}

func (t *T) Flatten(dim int) (*T, error) {
	if dim < 0 || dim >= len(t.Shape) {
		return nil, fmt.Errorf("Flatten: dim %d of rank %d", dim, len(t.Shape))
	}
	shape := append(CopyInts(t.Shape[:dim]), Prod(t.Shape[dim:]))
	return t.Reshape(shape)
}

// srcOffset maps an offset of the broadcast shape dst to the offset of the
// source element it is a copy of.
func srcOffset(off int, src, dst []int) int {
	idx := Unravel(off, dst)
	lead := len(dst) - len(src)
	so := 0
	for i := range src {
		v := idx[lead+i]
		if src[i] == 1 {
			v = 0
		}
		so = so*src[i] + v
	}
	return so
}

func (t *T) Broadcast(shape []int) (*T, error) {
	if err := CanBroadcastTo(t.Shape, shape); err != nil {
		return nil, err
	}
	o := Zeros(shape)
	for off := range o.Data {
		o.Data[off] = t.Data[srcOffset(off, t.Shape, shape)]
	}
	return o, nil
}

// ---------- reducers ----------

type Stat int

const (
	SSum Stat = iota
	SMax
	SMin
	SAvg
	SVar
	SStd
	SMean
)

var StatNames = []string{"Sum", "Max", "Min", "Avg", "Var", "Std", "Mean"}

func statOf(kind Stat, xs []float64) float64 {
	n := float64(len(xs))
	switch kind {
	case SSum:
		s := 0.
		for _, x := range xs {
			s += x
		}
		return s
	case SMax:
		m := math.Inf(-1)
		for _, x := range xs {
			if x > m {
				m = x
			}
		}
		return m
	case SMin:
		m := math.Inf(1)
		for _, x := range xs {
			if x < m {
				m = x
			}
		}
		return m
	case SAvg, SMean:
		return statOf(SSum, xs) / n
	case SVar:
		if len(xs) == 1 {
			return 0
		}
		mu := statOf(SSum, xs) / n
		s := 0.
		for _, x := range xs {
			s += (x - mu) * (x - mu)
		}
		return s / (n - 1)
	case SStd:
		return math.Sqrt(statOf(SVar, xs))
	}
	panic("bad stat")
}

func (t *T) Reduce(kind Stat) float64 { return statOf(kind, t.Data) }

// fibre returns the offsets of the one-dimensional fibre along dim through
// the position given by out-index oidx (index without dim).
func fibreOffsets(shape []int, dim int, oidx []int) []int {
	idx := make([]int, len(shape))
	copy(idx[:dim], oidx[:dim])
	copy(idx[dim+1:], oidx[dim:])
	offs := make([]int, shape[dim])
	for k := 0; k < shape[dim]; k++ {
		idx[dim] = k
		offs[k] = Ravel(idx, shape)
	}
	return offs
}

func (t *T) Along(kind Stat, dim int) (*T, error) {
	if dim < 0 || dim >= len(t.Shape) {
		return nil, fmt.Errorf("%sAlong: dim %d of rank %d", StatNames[kind], dim, len(t.Shape))
	}
	oshape := append(CopyInts(t.Shape[:dim]), t.Shape[dim+1:]...)
	o := Zeros(oshape)
	buf := make([]float64, t.Shape[dim])
	for off := range o.Data {
		for k, so := range fibreOffsets(t.Shape, dim, Unravel(off, oshape)) {
			buf[k] = t.Data[so]
		}
		o.Data[off] = statOf(kind, buf)
	}
	return o, nil
}

// ---------- element-wise ----------

func (t *T) Map(f func(float64) float64) *T {
	o := Zeros(t.Shape)
	for i, x := range t.Data {
		o.Data[i] = f(x)
	}
	return o
}

var Unary = map[string]func(float64) float64{
	"exp": math.Exp, "log": math.Log, "sin": math.Sin, "cos": math.Cos, "tan": math.Tan,
	"sinh": math.Sinh, "cosh": math.Cosh, "tanh": math.Tanh,
}

func b2f(b bool) float64 {
	if b {
		return 1
	}
	return 0
}

// Arith are the four implicitly broadcasting operations.
var Arith = map[string]func(a, b float64) float64{
	"add": func(a, b float64) float64 { return a + b },
	"sub": func(a, b float64) float64 { return a - b },
	"mul": func(a, b float64) float64 { return a * b },
	"div": func(a, b float64) float64 { return a / b },
}

// SameShapeOps need operands of exactly equal shape.
var SameShapeOps = map[string]func(a, b float64) float64{
	"elmax": math.Max,
	"elmin": math.Min,
	"eq":    func(a, b float64) float64 { return b2f(a == b) },
	"ne":    func(a, b float64) float64 { return b2f(a != b) },
	"gt":    func(a, b float64) float64 { return b2f(a > b) },
	"ge":    func(a, b float64) float64 { return b2f(a >= b) },
	"lt":    func(a, b float64) float64 { return b2f(a < b) },
	"le":    func(a, b float64) float64 { return b2f(a <= b) },
}

func ArithOp(name string, a, b *T) (*T, error) {
	f := Arith[name]
	shape, err := BroadcastShape(a.Shape, b.Shape)
	if err != nil {
		return nil, err
	}
	o := Zeros(shape)
	for off := range o.Data {
		o.Data[off] = f(a.Data[srcOffset(off, a.Shape, shape)], b.Data[srcOffset(off, b.Shape, shape)])
	}
	return o, nil
}

func SameOp(name string, a, b *T) (*T, error) {
	f := SameShapeOps[name]
	if !SameShape(a.Shape, b.Shape) {
		return nil, fmt.Errorf("%s: shapes %v and %v differ", name, a.Shape, b.Shape)
	}
	o := Zeros(a.Shape)
	for i := range o.Data {
		o.Data[i] = f(a.Data[i], b.Data[i])
	}
	return o, nil
}

func Equals(a, b *T) (bool, error) {
	if !SameShape(a.Shape, b.Shape) {
		return false, fmt.Errorf("Equals: shapes %v and %v differ", a.Shape, b.Shape)
	}
	for i := range a.Data {
		if a.Data[i] != b.Data[i] {
			return false, nil
		}
	}
	return true, nil
}

// DotShape: both rank >= 1, equal last sizes, full shapes broadcast-compatible.
func DotShape(a, b []int) (full []int, err error) {
	if len(a) < 1 || len(b) < 1 {
		return nil, fmt.Errorf("Dot: scalar operand")
	}
	if a[len(a)-1] != b[len(b)-1] {
		return nil, fmt.Errorf("Dot: last sizes %d and %d differ", a[len(a)-1], b[len(b)-1])
	}
	return BroadcastShape(a, b)
}

func Dot(a, b *T) (*T, error) {
	full, err := DotShape(a.Shape, b.Shape)
	if err != nil {
		return nil, err
	}
	oshape := full[:len(full)-1]
	n := full[len(full)-1]
	o := Zeros(oshape)
	for off := range o.Data {
		s := 0.
		for k := 0; k < n; k++ {
			fo := off*n + k
			s += a.Data[srcOffset(fo, a.Shape, full)] * b.Data[srcOffset(fo, b.Shape, full)]
		}
		o.Data[off] = s
	}
	return o, nil
}

// MatMulShapes returns the broadcast batch shape and (m,n,k).
func MatMulShapes(a, b []int) (batch []int, m, n, k int, err error) {
	if len(a) < 2 || len(b) < 2 {
		return nil, 0, 0, 0, fmt.Errorf("MatMul: rank < 2")
	}
	m, n = a[len(a)-2], a[len(a)-1]
	if b[len(b)-2] != n {
		return nil, 0, 0, 0, fmt.Errorf("MatMul: inner sizes %d and %d differ", n, b[len(b)-2])
	}
	k = b[len(b)-1]
	batch, err = BroadcastShape(a[:len(a)-2], b[:len(b)-2])
	return
}

func MatMul(a, b *T) (*T, error) {
	batch, m, n, k, err := MatMulShapes(a.Shape, b.Shape)
	if err != nil {
		return nil, err
	}
	oshape := append(CopyInts(batch), m, k)
	o := Zeros(oshape)
	ab, bb := a.Shape[:len(a.Shape)-2], b.Shape[:len(b.Shape)-2]
	nb := Prod(batch)
	for bo := 0; bo < nb; bo++ {
		ao := srcOffset(bo, ab, batch) * m * n
		bof := srcOffset(bo, bb, batch) * n * k
		for i := 0; i < m; i++ {
			for j := 0; j < k; j++ {
				s := 0.
				for p := 0; p < n; p++ {
					s += a.Data[ao+i*n+p] * b.Data[bof+p*k+j]
				}
				o.Data[(bo*m+i)*k+j] = s
			}
		}
	}
	return o, nil
}
