package ref

import (
	"math"
	"math/rand"
	"testing"
)

// The oracle is itself validated here: forward functions against literals and
// NumPy-documented examples, every VJP against central differences of the
// reference forward function, the tape against closed forms.

func randT(r *rand.Rand, shape []int, lo, hi float64) *T {
	t := Zeros(shape)
	for i := range t.Data {
		t.Data[i] = lo + (hi-lo)*r.Float64()
	}
	return t
}

func TestIndexArithmetic(t *testing.T) {
	shape := []int{2, 3, 4}
	for off := 0; off < 24; off++ {
		if Ravel(Unravel(off, shape), shape) != off {
			t.Fatalf("ravel/unravel %d", off)
		}
	}
	if got := Unravel(17, shape); got[0] != 1 || got[1] != 1 || got[2] != 1 {
		t.Fatalf("unravel 17 = %v", got)
	}
}

func TestForwardLiterals(t *testing.T) {
	a := New([]int{2, 3}, []float64{1, 2, 3, 4, 5, 6})
	tr, _ := a.Transpose()
	want := []float64{1, 4, 2, 5, 3, 6}
	for i := range want {
		if tr.Data[i] != want[i] {
			t.Fatalf("transpose %v", tr.Data)
		}
	}
	// numpy: np.arange(3).reshape(3,1) + np.arange(2) -> [[0,1],[1,2],[2,3]]
	x := New([]int{3, 1}, []float64{0, 1, 2})
	y := New([]int{2}, []float64{0, 1})
	s, err := ArithOp("add", x, y)
	if err != nil || !SameShape(s.Shape, []int{3, 2}) {
		t.Fatal(err, s)
	}
	for i, w := range []float64{0, 1, 1, 2, 2, 3} {
		if s.Data[i] != w {
			t.Fatalf("broadcast add %v", s.Data)
		}
	}
	if _, err := BroadcastShape([]int{2, 3}, []int{2}); err == nil {
		t.Fatal("expected incompatibility")
	}
	sl, _ := a.Slice([]Range{{1, 2}})
	if !SameShape(sl.Shape, []int{1, 3}) || sl.Data[0] != 4 {
		t.Fatalf("slice %v", sl)
	}
	sl, _ = a.Slice([]Range{{0, 0}, {1, 3}})
	if !SameShape(sl.Shape, []int{2, 2}) || sl.Data[2] != 5 {
		t.Fatalf("slice %v", sl)
	}
	p, _ := Zeros([]int{2, 3}).Patch([]Range{{1, 2}}, New([]int{1, 2}, []float64{7, 8}))
	for i, w := range []float64{0, 0, 0, 7, 8, 0} {
		if p.Data[i] != w {
			t.Fatalf("patch %v", p.Data)
		}
	}
	m, _ := MatMul(a, tr) // [[14,32],[32,77]]
	for i, w := range []float64{14, 32, 32, 77} {
		if m.Data[i] != w {
			t.Fatalf("matmul %v", m.Data)
		}
	}
	d, _ := Dot(a, a)
	if d.Data[0] != 14 || d.Data[1] != 77 {
		t.Fatalf("dot %v", d.Data)
	}
	v, _ := a.Along(SVar, 1)
	if v.Data[0] != 1 || v.Data[1] != 1 {
		t.Fatalf("var %v", v.Data)
	}
	if a.Reduce(SVar) != 3.5 {
		t.Fatalf("var all %v", a.Reduce(SVar))
	}
	c, _ := Concat([]*T{a, a}, 1)
	if !SameShape(c.Shape, []int{2, 6}) || c.Data[3] != 1 || c.Data[6] != 4 {
		t.Fatalf("concat %v", c)
	}
	sm, _ := Softmax(New([]int{2, 2}, []float64{0, 0, 0, math.Log(3)}), 1)
	if math.Abs(sm.Data[3]-0.75) > 1e-15 || sm.Data[0] != 0.5 {
		t.Fatalf("softmax %v", sm.Data)
	}
	f, _ := FC(New([]int{2, 2}, []float64{1, 2, 3, 4}), New([]int{3}, []float64{1, 2, 3}), New([]int{3}, []float64{10, 20, 30}))
	for i, w := range []float64{13, 26, 39, 17, 34, 51} {
		if f.Data[i] != w {
			t.Fatalf("fc %v", f.Data)
		}
	}
}

type vjpCase struct {
	in     Instr
	shapes [][]int
	lo, hi float64
}

func TestVJPAgainstCentralDifferences(t *testing.T) {
	r := rand.New(rand.NewSource(7))
	cases := []vjpCase{
		{Instr{Op: "slice", Index: []Range{{1, 3}, {0, 0}}}, [][]int{{3, 2, 2}}, -1, 1},
		{Instr{Op: "patch", Index: []Range{{1, 2}}}, [][]int{{3, 3}, {1, 2}}, -1, 1},
		{Instr{Op: "patch", Index: []Range{{0, 0}, {1, 3}}}, [][]int{{3, 3}, {2, 2}}, -1, 1},
		{Instr{Op: "transpose"}, [][]int{{2, 3, 2}}, -1, 1},
		{Instr{Op: "reshape", Shape: []int{3, 4}}, [][]int{{2, 6}}, -1, 1},
		{Instr{Op: "unsqueeze", Dim: 1}, [][]int{{2, 3}}, -1, 1},
		{Instr{Op: "squeeze", Dim: 1}, [][]int{{2, 1, 3}}, -1, 1},
		{Instr{Op: "flatten", Dim: 1}, [][]int{{2, 3, 2}}, -1, 1},
		{Instr{Op: "broadcast", Shape: []int{2, 3, 2, 4}}, [][]int{{3, 1, 4}}, -1, 1},
		{Instr{Op: "sumalong", Dim: 1}, [][]int{{2, 3, 2}}, -1, 1},
		{Instr{Op: "maxalong", Dim: 0}, [][]int{{3, 2}}, -1, 1},
		{Instr{Op: "minalong", Dim: 1}, [][]int{{3, 2}}, -1, 1},
		{Instr{Op: "avgalong", Dim: 2}, [][]int{{2, 3, 2}}, -1, 1},
		{Instr{Op: "meanalong", Dim: 0}, [][]int{{2, 3}}, -1, 1},
		{Instr{Op: "varalong", Dim: 1}, [][]int{{2, 4}}, -1, 1},
		{Instr{Op: "stdalong", Dim: 0}, [][]int{{3, 2}}, -1, 1},
		{Instr{Op: "scale", F: -2.5}, [][]int{{2, 2}}, -1, 1},
		{Instr{Op: "pow", F: 3}, [][]int{{2, 2}}, -1, 1},
		{Instr{Op: "pow", F: -0.5}, [][]int{{2, 2}}, 0.5, 2},
		{Instr{Op: "pow", F: 0}, [][]int{{2, 2}}, 0.5, 2},
		{Instr{Op: "exp"}, [][]int{{3}}, -1, 1},
		{Instr{Op: "log"}, [][]int{{3}}, 0.5, 2},
		{Instr{Op: "sin"}, [][]int{{3}}, -1, 1},
		{Instr{Op: "cos"}, [][]int{{3}}, -1, 1},
		{Instr{Op: "tan"}, [][]int{{3}}, -1, 1},
		{Instr{Op: "sinh"}, [][]int{{3}}, -1, 1},
		{Instr{Op: "cosh"}, [][]int{{3}}, -1, 1},
		{Instr{Op: "tanh"}, [][]int{{3}}, -1, 1},
		{Instr{Op: "elmax"}, [][]int{{2, 3}, {2, 3}}, -1, 1},
		{Instr{Op: "elmin"}, [][]int{{2, 3}, {2, 3}}, -1, 1},
		{Instr{Op: "add"}, [][]int{{2, 1, 3}, {4, 1}}, -1, 1},
		{Instr{Op: "sub"}, [][]int{{3}, {2, 3}}, -1, 1},
		{Instr{Op: "mul"}, [][]int{{2, 3}, {1, 3}}, -1, 1},
		{Instr{Op: "div"}, [][]int{{2, 3}, {2, 1}}, 0.5, 2},
		{Instr{Op: "dot"}, [][]int{{2, 1, 3}, {4, 3}}, -1, 1},
		{Instr{Op: "dot"}, [][]int{{3}, {3}}, -1, 1},
		{Instr{Op: "matmul"}, [][]int{{2, 1, 2, 3}, {4, 3, 2}}, -1, 1},
		{Instr{Op: "matmul"}, [][]int{{3, 1}, {2, 1, 4}}, -1, 1},
		{Instr{Op: "concat", Dim: 1}, [][]int{{2, 1}, {2, 3}, {2, 2}}, -1, 1},
		{Instr{Op: "relu"}, [][]int{{4}}, -1, 1},
		{Instr{Op: "leakyrelu", F: 0.3}, [][]int{{4}}, -1, 1},
		{Instr{Op: "sigmoid"}, [][]int{{4}}, -2, 2},
		{Instr{Op: "softmax", Dim: 1}, [][]int{{2, 3, 2}}, -1, 1},
		{Instr{Op: "softmax", Dim: 0}, [][]int{{3}}, -1, 1},
		{Instr{Op: "fc"}, [][]int{{3, 2}, {4}, {4}}, -1, 1},
		{Instr{Op: "mse"}, [][]int{{4}, {4}}, 0.1, 0.9},
		{Instr{Op: "bce"}, [][]int{{4}, {4}}, 0.1, 0.9},
		{Instr{Op: "ce"}, [][]int{{3, 2}, {3, 2}}, 0.1, 0.9},
	}
	for _, c := range cases {
		xs := make([]*T, len(c.shapes))
		for i, s := range c.shapes {
			xs[i] = randT(r, s, c.lo, c.hi)
		}
		y, err := Apply(c.in, xs)
		if err != nil {
			t.Fatalf("%s: %v", c.in.Op, err)
		}
		gy := randT(r, y.Shape, -1, 1)
		gs := VJP(c.in, xs, y, gy, RuleSum)
		const h = 1e-5
		for k := range xs {
			if !SameShape(gs[k].Shape, xs[k].Shape) {
				t.Fatalf("%s operand %d: gradient shape %v for %v", c.in.Op, k, gs[k].Shape, xs[k].Shape)
			}
			for i := range xs[k].Data {
				orig := xs[k].Data[i]
				xs[k].Data[i] = orig + h
				yp, _ := Apply(c.in, xs)
				xs[k].Data[i] = orig - h
				ym, _ := Apply(c.in, xs)
				xs[k].Data[i] = orig
				fd := 0.
				for q := range yp.Data {
					fd += gy.Data[q] * (yp.Data[q] - ym.Data[q]) / (2 * h)
				}
				if !Close(gs[k].Data[i], fd, 1e-7, 1e-6) {
					t.Fatalf("%s %v operand %d elem %d: vjp %g, central difference %g", c.in.Op, c.shapes, k, i, gs[k].Data[i], fd)
				}
			}
		}
	}
}

func TestDecompositionsMatchClosedForms(t *testing.T) {
	r := rand.New(rand.NewSource(3))
	for _, c := range []vjpCase{
		{Instr{Op: "softmax", Dim: 1}, [][]int{{2, 3, 2}}, -1, 1},
		{Instr{Op: "softmax", Dim: 2}, [][]int{{2, 3, 2}}, -1, 1},
		{Instr{Op: "fc"}, [][]int{{3, 2}, {4}, {4}}, -1, 1},
	} {
		xs := make([]*T, len(c.shapes))
		for i, s := range c.shapes {
			xs[i] = randT(r, s, c.lo, c.hi)
		}
		y, _ := Apply(c.in, xs)
		p := Decompose(c.in, xs)
		vals, err := p.Eval()
		if err != nil {
			t.Fatal(err)
		}
		for i := range y.Data {
			if !Close(vals[len(p)-1].Data[i], y.Data[i], 1e-15, 1e-13) {
				t.Fatalf("%s decomposition forward differs", c.in.Op)
			}
		}
		gy := randT(r, y.Shape, -1, 1)
		closed := VJP(c.in, xs, y, gy, RuleSum)
		dec := p.Grad(vals, len(p)-1, gy, RuleSum)
		for k := range xs {
			for i := range closed[k].Data {
				if !Close(dec[k].Data[i], closed[k].Data[i], 1e-14, 1e-12) {
					t.Fatalf("%s operand %d: decomposition %g closed form %g", c.in.Op, k, dec[k].Data[i], closed[k].Data[i])
				}
			}
		}
		// the defect model must differ from the specification wherever something is expanded
		avg := VJP(c.in, xs, y, gy, RuleAvg)
		same := true
		for k := range xs {
			for i := range closed[k].Data {
				if !Close(avg[k].Data[i], closed[k].Data[i], 1e-14, 1e-12) {
					same = false
				}
			}
		}
		if same {
			t.Fatalf("%s: RuleAvg indistinguishable from RuleSum", c.in.Op)
		}
	}
}

func TestTapeClosedForms(t *testing.T) {
	// ladder h <- a*h + b*h : d(sum h_n)/dx = (a+b)^depth
	for _, depth := range []int{1, 5, 40} {
		p := Prog{{Op: "leaf", Shape: []int{2}, Data: []float64{0.3, -0.2}, Tracked: true}}
		h := 0
		for d := 0; d < depth; d++ {
			p = append(p, Instr{Op: "scale", In: []int{h}, F: 0.5}, Instr{Op: "scale", In: []int{h}, F: 0.25})
			p = append(p, Instr{Op: "add", In: []int{len(p) - 2, len(p) - 1}})
			h = len(p) - 1
		}
		vals, _ := p.Eval()
		g := p.Grad(vals, h, nil, RuleSum)
		want := math.Pow(0.75, float64(depth))
		if !Close(g[0].Data[0], want, 0, 1e-12) {
			t.Fatalf("ladder depth %d: %g want %g", depth, g[0].Data[0], want)
		}
	}
	// diamond: h=3x; y = sin h + h*h ; dy/dx = 3cos(3x) + 18x
	p := Prog{
		{Op: "leaf", Shape: []int{2}, Data: []float64{1, 2}, Tracked: true},
		{Op: "scale", In: []int{0}, F: 3},
		{Op: "sin", In: []int{1}},
		{Op: "mul", In: []int{1, 1}},
		{Op: "add", In: []int{2, 3}},
	}
	vals, _ := p.Eval()
	g := p.Grad(vals, 4, nil, RuleSum)
	for i, x := range []float64{1, 2} {
		if want := 3*math.Cos(3*x) + 18*x; !Close(g[0].Data[i], want, 0, 1e-12) {
			t.Fatalf("diamond: %g want %g", g[0].Data[i], want)
		}
	}
	// untracked leaf gets nothing; interior nodes get gradients
	if g[1] == nil || g[2] == nil {
		t.Fatal("interior gradients missing")
	}
	p[0].Tracked = false
	if g := p.Grad(vals, 4, nil, RuleSum); g[4] != nil || g[0] != nil {
		t.Fatal("untracked graph must get no gradients")
	}
}
