package ref

import "math"

// unbroadcast reduces a gradient of the expanded shape back to the operand's
// own shape src: the sum over all positions each source element was copied to
// (RuleSum, the specification) or their mean (RuleAvg, the model of defect D9).
func unbroadcast(g *T, src []int, rule BroadcastRule) *T {
	o := Zeros(src)
	for off, v := range g.Data {
		o.Data[srcOffset(off, src, g.Shape)] += v
	}
	if rule == RuleAvg {
		k := float64(ExpansionFactor(src, g.Shape))
		for i := range o.Data {
			o.Data[i] /= k
		}
	}
	return o
}

func zipMap(a, b *T, f func(x, y float64) float64) *T {
	o := Zeros(a.Shape)
	for i := range o.Data {
		o.Data[i] = f(a.Data[i], b.Data[i])
	}
	return o
}

func mustT(t *T, err error) *T {
	if err != nil {
		panic("ref: internal: " + err.Error())
	}
	return t
}

// expandAlong re-inserts dimension dim (size n) into a reduced tensor by repetition.
func expandAlong(r *T, shape []int, dim int) *T {
	u := mustT(r.UnSqueeze(dim))
	return mustT(u.Broadcast(shape))
}

// VJP returns, for every operand of `in`, the vector-Jacobian product of the
// upstream gradient gy (shape of y) — nil for operands that have no derivative
// (none at present; callers filter by tracked-ness).
func VJP(in Instr, xs []*T, y, gy *T, rule BroadcastRule) []*T {
	x := (*T)(nil)
	if len(xs) > 0 {
		x = xs[0]
	}
	unary := func(d func(x, y float64) float64) []*T {
		o := Zeros(x.Shape)
		for i := range o.Data {
			o.Data[i] = gy.Data[i] * d(x.Data[i], y.Data[i])
		}
		return []*T{o}
	}
	switch in.Op {
	case "slice":
		region, _ := SliceRegion(in.Index, x.Shape)
		return []*T{Zeros(x.Shape).writeRegion(region, gy)}
	case "patch":
		region, _ := PatchRegion(in.Index, xs[1].Shape, x.Shape)
		return []*T{gy.writeRegion(region, Zeros(xs[1].Shape)), gy.readRegion(region)}
	case "transpose":
		return []*T{mustT(gy.Transpose())}
	case "reshape", "unsqueeze", "squeeze", "flatten":
		return []*T{mustT(gy.Reshape(x.Shape))}
	case "broadcast":
		return []*T{unbroadcast(gy, x.Shape, rule)}
	case "sumalong":
		return []*T{expandAlong(gy, x.Shape, in.Dim)}
	case "avgalong", "meanalong":
		n := float64(x.Shape[in.Dim])
		return []*T{expandAlong(gy, x.Shape, in.Dim).Map(func(v float64) float64 { return v / n })}
	case "maxalong", "minalong":
		ge, ye := expandAlong(gy, x.Shape, in.Dim), expandAlong(y, x.Shape, in.Dim)
		o := Zeros(x.Shape)
		for i := range o.Data {
			if x.Data[i] == ye.Data[i] {
				o.Data[i] = ge.Data[i]
			}
		}
		return []*T{o}
	case "varalong", "stdalong":
		n := x.Shape[in.Dim]
		if n == 1 {
			return []*T{Zeros(x.Shape)}
		}
		mu := expandAlong(mustT(x.Along(SMean, in.Dim)), x.Shape, in.Dim)
		ge, ye := expandAlong(gy, x.Shape, in.Dim), expandAlong(y, x.Shape, in.Dim)
		o := Zeros(x.Shape)
		for i := range o.Data {
			d := x.Data[i] - mu.Data[i]
			// the local derivative first, the upstream weighting last: g * 2 overflows for weightings near the top of the range although
			// g * (2d/(n-1)) does not
			if in.Op == "varalong" {
				o.Data[i] = ge.Data[i] * (2 * d / float64(n-1))
			} else {
				o.Data[i] = ge.Data[i] * (d / (float64(n-1) * ye.Data[i]))
			}
		}
		return []*T{o}
	case "scale":
		return unary(func(_, _ float64) float64 { return in.F })
	case "pow":
		a := in.F
		return unary(func(x, _ float64) float64 {
			if a == 0 {
				return 0
			}
			return a * math.Pow(x, a-1)
		})
	case "exp":
		return unary(func(_, y float64) float64 { return y })
	case "log":
		return unary(func(x, _ float64) float64 { return 1 / x })
	case "sin":
		return unary(func(x, _ float64) float64 { return math.Cos(x) })
	case "cos":
		return unary(func(x, _ float64) float64 { return -math.Sin(x) })
	case "tan":
		return unary(func(x, _ float64) float64 { c := math.Cos(x); return 1 / (c * c) })
	case "sinh":
		return unary(func(x, _ float64) float64 { return math.Cosh(x) })
	case "cosh":
		return unary(func(x, _ float64) float64 { return math.Sinh(x) })
	case "tanh":
		return unary(func(x, _ float64) float64 { c := math.Cosh(x); return 1 / (c * c) }) // not 1 - y*y: that cancels for saturated arguments
	case "relu":
		return unary(func(x, _ float64) float64 { return subgrad(x, 0, 1) })
	case "leakyrelu":
		return unary(func(x, _ float64) float64 { return subgrad(x, in.F, 1) })
	case "sigmoid":
		return unary(func(x, _ float64) float64 { e := math.Exp(-math.Abs(x)); return e / ((1 + e) * (1 + e)) }) // s(x)s(-x), free of cancellation
	case "elmax", "elmin":
		a, b := xs[0], xs[1]
		ga, gb := Zeros(a.Shape), Zeros(b.Shape)
		for i := range ga.Data {
			switch {
			case a.Data[i] == b.Data[i]: // not differentiable: midpoint of the sub-gradient
				ga.Data[i], gb.Data[i] = gy.Data[i]/2, gy.Data[i]/2
			case (a.Data[i] > b.Data[i]) == (in.Op == "elmax"):
				ga.Data[i] = gy.Data[i]
			default:
				gb.Data[i] = gy.Data[i]
			}
		}
		return []*T{ga, gb}
	case "add", "sub", "mul", "div":
		a, b := xs[0], xs[1]
		ae, be := mustT(a.Broadcast(y.Shape)), mustT(b.Broadcast(y.Shape))
		ga, gb := Zeros(y.Shape), Zeros(y.Shape)
		for i, g := range gy.Data {
			av, bv := ae.Data[i], be.Data[i]
			switch in.Op {
			case "add":
				ga.Data[i], gb.Data[i] = g, g
			case "sub":
				ga.Data[i], gb.Data[i] = g, -g
			case "mul":
				ga.Data[i], gb.Data[i] = g*bv, g*av
			case "div":
				ga.Data[i], gb.Data[i] = g/bv, -g*(av/bv)/bv // (a/b)/b: b*b may overflow where the quotient is representable
			}
		}
		return []*T{unbroadcast(ga, a.Shape, rule), unbroadcast(gb, b.Shape, rule)}
	case "dot":
		a, b := xs[0], xs[1]
		full, _ := DotShape(a.Shape, b.Shape)
		n := full[len(full)-1]
		ae, be := mustT(a.Broadcast(full)), mustT(b.Broadcast(full))
		ga, gb := Zeros(full), Zeros(full)
		for i := range ga.Data {
			g := gy.Data[i/n]
			ga.Data[i], gb.Data[i] = g*be.Data[i], g*ae.Data[i]
		}
		return []*T{unbroadcast(ga, a.Shape, rule), unbroadcast(gb, b.Shape, rule)}
	case "matmul":
		a, b := xs[0], xs[1]
		batch, m, n, k, _ := MatMulShapes(a.Shape, b.Shape)
		ae := mustT(a.Broadcast(append(CopyInts(batch), m, n)))
		be := mustT(b.Broadcast(append(CopyInts(batch), n, k)))
		ga, gb := Zeros(ae.Shape), Zeros(be.Shape)
		for bo := 0; bo < Prod(batch); bo++ {
			for i := 0; i < m; i++ {
				for j := 0; j < k; j++ {
					g := gy.Data[(bo*m+i)*k+j]
					for p := 0; p < n; p++ {
						ga.Data[(bo*m+i)*n+p] += g * be.Data[(bo*n+p)*k+j]
						gb.Data[(bo*n+p)*k+j] += g * ae.Data[(bo*m+i)*n+p]
					}
				}
			}
		}
		return []*T{unbroadcast(ga, a.Shape, rule), unbroadcast(gb, b.Shape, rule)}
	case "concat":
		out := make([]*T, len(xs))
		base := 0
		for q, t := range xs {
			region := make([]Range, len(t.Shape))
			for i, d := range y.Shape {
				region[i] = Range{0, d}
			}
			region[in.Dim] = Range{base, base + t.Shape[in.Dim]}
			out[q] = gy.readRegion(region)
			base += t.Shape[in.Dim]
		}
		return out
	case "softmax":
		if rule == RuleAvg {
			return viaDecomposition(in, xs, gy, rule)
		}
		o := Zeros(x.Shape)
		oshape := append(CopyInts(x.Shape[:in.Dim]), x.Shape[in.Dim+1:]...)
		for off := 0; off < Prod(oshape); off++ {
			offs := fibreOffsets(x.Shape, in.Dim, Unravel(off, oshape))
			s := 0.
			for _, so := range offs {
				s += y.Data[so] * gy.Data[so]
			}
			for _, so := range offs {
				o.Data[so] = y.Data[so] * (gy.Data[so] - s)
			}
		}
		return []*T{o}
	case "fc":
		if rule == RuleAvg {
			return viaDecomposition(in, xs, gy, rule)
		}
		xx, w, b := xs[0], xs[1], xs[2]
		B, D, O := xx.Shape[0], xx.Shape[1], w.Shape[0]
		gx, gw, gb := Zeros(xx.Shape), Zeros(w.Shape), Zeros(b.Shape)
		for i := 0; i < B; i++ {
			s := 0.
			for d := 0; d < D; d++ {
				s += xx.Data[i*D+d]
			}
			for o := 0; o < O; o++ {
				g := gy.Data[i*O+o]
				gw.Data[o] += g * s
				gb.Data[o] += g
				for d := 0; d < D; d++ {
					gx.Data[i*D+d] += g * w.Data[o]
				}
			}
		}
		return []*T{gx, gw, gb}
	case "mse", "bce", "ce":
		p, t := xs[0], xs[1]
		n := float64(p.Shape[0])
		g0 := gy.Data[0]
		gp, gt := Zeros(p.Shape), Zeros(t.Shape)
		for i := range p.Data {
			pv, tv := p.Data[i], t.Data[i]
			switch in.Op {
			case "mse":
				gp.Data[i] = g0 * 2 * (pv - tv) / n
				gt.Data[i] = -gp.Data[i]
			case "bce", "ce":
				tc := Clip(tv, 0, 1)
				inside := pv > Eps && pv < 1-Eps
				tin := tv > 0 && tv < 1
				if in.Op == "bce" {
					if inside {
						gp.Data[i] = g0 * ((1-tc)/(1-pv) - tc/pv) / n
					}
					if tin {
						pc := Clip(pv, Eps, 1-Eps)
						gt.Data[i] = -g0 * (math.Log(pc) - math.Log(1-pc)) / n
					}
				} else {
					if inside {
						gp.Data[i] = -g0 * (tc / pv) / n
					}
					if tin {
						gt.Data[i] = -g0 * math.Log(Clip(pv, Eps, 1-Eps)) / n
					}
				}
			}
		}
		return []*T{gp, gt}
	}
	panic("ref.VJP: unknown op " + in.Op)
}

// subgrad: derivative of a piecewise-linear activation with slope lo below 0
// and hi above; at exactly 0 the midpoint (oracles use the closed interval there).
func subgrad(x, lo, hi float64) float64 {
	switch {
	case x > 0:
		return hi
	case x < 0:
		return lo
	}
	return (lo + hi) / 2
}

// Decompose expresses a composite the way the property statements define it
// in terms of primitive tape operations that expand operands explicitly, so
// that the RuleAvg model can be applied at every expansion site. Operands of
// the composite are the first len(xs) leaves of the returned program; the
// last instruction is the result.
func Decompose(in Instr, xs []*T) Prog {
	p := Prog{}
	for _, x := range xs {
		p = append(p, Instr{Op: "leaf", Shape: x.Shape, Data: x.Data, Tracked: true})
	}
	switch in.Op {
	case "softmax": // e / unsqueeze(sum_dim e)
		p = append(p,
			Instr{Op: "exp", In: []int{0}},
			Instr{Op: "sumalong", In: []int{1}, Dim: in.Dim},
			Instr{Op: "unsqueeze", In: []int{2}, Dim: in.Dim},
			Instr{Op: "div", In: []int{1, 3}})
	case "fc": // sum_d (W[o,1] @ x[b,1,d]) + B
		p = append(p,
			Instr{Op: "unsqueeze", In: []int{1}, Dim: 1},
			Instr{Op: "unsqueeze", In: []int{0}, Dim: 1},
			Instr{Op: "matmul", In: []int{3, 4}},
			Instr{Op: "sumalong", In: []int{5}, Dim: 2},
			Instr{Op: "add", In: []int{6, 2}})
	default:
		panic("ref.Decompose: " + in.Op)
	}
	return p
}

func viaDecomposition(in Instr, xs []*T, gy *T, rule BroadcastRule) []*T {
	p := Decompose(in, xs)
	vals, err := p.Eval()
	if err != nil {
		panic("ref: decomposition failed: " + err.Error())
	}
	g := p.Grad(vals, len(p)-1, gy, rule)
	return g[:len(xs)]
}
