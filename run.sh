#!/bin/bash
# Entry point of every MANIFEST command:
#   ./run.sh setup
#   ./run.sh <Cxx> <quick|thorough>
#   ./run.sh <Cxx> --replay <file>
# Rebuilds the driver from /repo's current working tree (hooks on: -tags verif) on every call.
set -u
cd "$(dirname "$0")"
export GOFLAGS=-mod=mod GOPROXY=off GOSUMDB=off GOTOOLCHAIN=local
export GOCACHE="${GOCACHE:-$HOME/.cache/go-build}"
mkdir -p bin out evidence
cp -f /repo/go.sum go.sum 2>/dev/null

build() { # $1 = output, rest = extra flags
  local out=$1; shift
  if ! go build -tags verif "$@" -o "$out" ./cmd/check 2> out/build.log; then
    echo "BUILD FAILED (the tree under /repo does not compile with -tags verif):"; cat out/build.log
    exit 3
  fi
}

case "${1:-}" in
  setup)
    build bin/check
    build bin/check-race -race
    go test -count=1 ./internal/ref/ || exit 3
    echo "setup ok"
    exit 0 ;;
  C20)
    build bin/check-race -race
    exec bin/check-race "$@" ;;
  C[0-9][0-9])
    build bin/check
    exec bin/check "$@" ;;
  *)
    echo "usage: ./run.sh setup | <Cxx> <quick|thorough> | <Cxx> --replay <file>"; exit 3 ;;
esac
