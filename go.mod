module qeepverif

go 1.22

require (
	github.com/sahandsafizadeh/qeep v0.0.0
	golang.org/x/exp v0.0.0-20231110203233-9a3e6036ecaa
)

require gonum.org/v1/gonum v0.15.1 // indirect

replace github.com/sahandsafizadeh/qeep => /repo
